(* C14 -- the 2-D instance: rectangular window (2hr+1) x (2hc+1) with reflect on both axes is a
   symmetric neighbourhood structure; tophat / mor / imor pass on row-major grids. *)
From Coq Require Import ZArith List Bool Lia ZifyBool.
From PB Require Import lib.PySlice lib.Arr C14.Model C14.Proofs C14.Reflect C14.Methods.
Import ListNotations.
Open Scope Z_scope.

Definition dom2 (nr nc : Z) (ij : Z * Z) := 0 <= fst ij < nr /\ 0 <= snd ij < nc.

Lemma nb2_In nr nc hr hc ij ab : In ab (nb2 nr nc hr hc ij) <-> In (fst ab) (nb1 nr hr (fst ij)) /\ In (snd ab) (nb1 nc hc (snd ij)).
Proof. unfold nb2. destruct ab as [a b]. apply in_prod_iff. Qed.

Lemma nb2_dom nr nc hr hc ij ab : 0 < nr -> 0 < nc -> In ab (nb2 nr nc hr hc ij) -> dom2 nr nc ab.
Proof. intros Hr Hc H. apply nb2_In in H. destruct H as [H1 H2]. split; eapply nb1_dom; eauto. Qed.

Lemma nb2_sym nr nc hr hc ij ab : 0 < nr -> 0 < nc -> dom2 nr nc ij -> In ab (nb2 nr nc hr hc ij) -> In ij (nb2 nr nc hr hc ab).
Proof. intros Hr Hc [D1 D2] H. apply nb2_In in H. destruct H as [H1 H2]. apply nb2_In.
  split; apply nb1_sym; auto. Qed.

Lemma flat_index nr nc i j : 0 < nc -> 0 <= i < nr -> 0 <= j < nc ->
  0 <= i * nc + j < nr * nc /\ (i * nc + j) / nc = i /\ (i * nc + j) mod nc = j.
Proof. intros Hc Hi Hj. split; [nia|]. split.
  - rewrite Z.div_add_l by lia. rewrite Z.div_small by lia. lia.
  - rewrite Z.add_comm, Z_mod_plus_full. apply Z.mod_small; lia. Qed.

Lemma unflat_index nr nc k : 0 < nc -> 0 <= k < nr * nc ->
  0 <= k / nc < nr /\ 0 <= k mod nc < nc /\ k / nc * nc + k mod nc = k.
Proof. intros Hc Hk. pose proof (Z.div_mod k nc). pose proof (Z.mod_pos_bound k nc).
  split; [|split]; try lia.
  - split; [apply Z.div_pos; lia|apply Z.div_lt_upper_bound; lia]. Qed.

Lemma freeze2_ok {A} nr nc (f : Z * Z -> A) ij : 0 < nc -> dom2 nr nc ij -> freeze2 nr nc f ij = f ij.
Proof. intros Hc [D1 D2]. destruct ij as [i j]. simpl in *. unfold freeze2. simpl fst; simpl snd.
  destruct (flat_index nr nc i j Hc D1 D2) as [Hk [Hd Hm]].
  rewrite nth_tabZ by auto. rewrite Hd, Hm. reflexivity. Qed.

Section TwoD.
  Variable A : Type.
  Variable le : A -> A -> bool.
  Hypothesis le_total : total le.
  Hypothesis le_trans : transitive le.
  Variables nr nc hr hc : Z.
  Hypothesis Hr : 0 < nr.
  Hypothesis Hc : 0 < nc.
  Notation LE := (fun a b => le a b = true).

  Lemma opening2_le f ij : dom2 nr nc ij -> le (opening2 le nr nc hr hc f ij) (f ij) = true.
  Proof. intros Hd. unfold opening2.
    apply (opening_le A le le_total le_trans (Z * Z) (freeze2 nr nc) (nb2 nr nc hr hc) (dom2 nr nc)); auto.
    - intros; apply freeze2_ok; auto.
    - intros i0 j H0 Hj; eapply nb2_dom; eauto.
    - intros i0 j H0 Hj; apply nb2_sym; auto. Qed.

  Lemma opening2_idem f ij : antisym le -> dom2 nr nc ij ->
    opening2 le nr nc hr hc (opening2 le nr nc hr hc f) ij = opening2 le nr nc hr hc f ij.
  Proof. intros Ha Hd. unfold opening2.
    apply (opening_idem A le le_total le_trans (Z * Z) (freeze2 nr nc) (nb2 nr nc hr hc) (dom2 nr nc)); auto.
    - intros; apply freeze2_ok; auto.
    - intros i0 j H0 Hj; eapply nb2_dom; eauto.
    - intros i0 j H0 Hj; apply nb2_sym; auto. Qed.

  Lemma on_grid_length op (l : list A) : l <> [] -> length (on_grid op nr nc l) = Z.to_nat (nr * nc).
  Proof. destruct l; [congruence|]. intros _. unfold on_grid. apply tabZ_length. Qed.

  Lemma on_grid_nth op (l : list A) d k : 0 <= k < nr * nc -> lenZ l = nr * nc ->
    nthZ d (on_grid op nr nc l) k = op (fun ij => nthZ (hd d l) l (fst ij * nc + snd ij)) (k / nc, k mod nc).
  Proof. intros Hk Hl. destruct l as [|d0 l]; [unfold lenZ in Hl; simpl in Hl; nia|].
    unfold on_grid. rewrite nth_tabZ by auto. reflexivity. Qed.

  Theorem opening_g_le y : lenZ y = nr * nc -> Forall2 LE (opening_g le nr nc hr hc y) y.
  Proof. intros Hl. destruct y as [|d y']; [unfold lenZ in Hl; simpl in Hl; nia|]. set (y := d :: y') in *.
    assert (Hlen : length (opening_g le nr nc hr hc y) = length y).
    { unfold opening_g. rewrite on_grid_length by (unfold y; congruence). unfold lenZ in Hl. lia. }
    apply (Forall2_nthZ _ _ _ d d); auto.
    intros k Hk. unfold lenZ in Hk. rewrite Hlen in Hk. fold (lenZ y) in Hk. rewrite Hl in Hk.
    unfold opening_g. rewrite on_grid_nth by auto.
    destruct (unflat_index nr nc k Hc Hk) as [H1 [H2 H3]].
    pose proof (opening2_le (fun ij => nthZ (hd d y) y (fst ij * nc + snd ij)) (k / nc, k mod nc)) as H.
    cbv beta in H. simpl fst in H; simpl snd in H. rewrite H3 in H. apply H. split; auto. Qed.

  Theorem opening_g_idem y : antisym le -> lenZ y = nr * nc ->
    opening_g le nr nc hr hc (opening_g le nr nc hr hc y) = opening_g le nr nc hr hc y.
  Proof. intros Ha Hl. destruct y as [|d y']; [unfold lenZ in Hl; simpl in Hl; nia|]. set (y := d :: y') in *.
    set (O := opening_g le nr nc hr hc y).
    assert (HO : length O = Z.to_nat (nr * nc)) by (apply on_grid_length; unfold y; congruence).
    assert (HOl : lenZ O = nr * nc) by (unfold lenZ; rewrite HO; nia).
    assert (HOn : O <> []) by (intros E; rewrite E in HO; simpl in HO; nia).
    apply (list_eq_nthZ _ _ d).
    - unfold opening_g at 1. rewrite on_grid_length by auto. auto.
    - intros k Hk. unfold opening_g at 1 in Hk. unfold lenZ in Hk. rewrite on_grid_length in Hk by auto.
      assert (Hk' : 0 <= k < nr * nc) by nia.
      unfold opening_g at 1. rewrite on_grid_nth by auto.
      unfold O at 3. unfold opening_g. rewrite on_grid_nth by auto.
      destruct (unflat_index nr nc k Hc Hk') as [H1 [H2 H3]].
      rewrite <- (opening2_idem (fun ij => nthZ (hd d y) y (fst ij * nc + snd ij)) (k / nc, k mod nc) Ha) by (split; auto).
      unfold opening2.
      apply (opn_ext A le (Z * Z) (freeze2 nr nc) (nb2 nr nc hr hc) (dom2 nr nc)).
      + intros; apply freeze2_ok; auto.
      + intros i0 j H0 Hj; eapply nb2_dom; eauto.
      + intros [i j] [D1 D2]. simpl in D1, D2. simpl fst; simpl snd.
        destruct (flat_index nr nc i j Hc D1 D2) as [Hf [Hd Hm]].
        fold (opening2 le nr nc hr hc).
        unfold O, opening_g. rewrite on_grid_nth by auto. rewrite Hd, Hm. reflexivity.
      + split; auto.
  Qed.
End TwoD.

Section MethodsLe2.
  Variable N : Num.
  Hypothesis le_total : total (leb N).
  Hypothesis le_trans : transitive (leb N).
  Variables nr nc hr hc : Z.
  Hypothesis Hr : 0 < nr.
  Hypothesis Hc : 0 < nc.
  Notation LE := (fun a b : T N => leb N a b = true).

  Lemma avg_opening2_length (op : list (T N)) : op <> [] ->
    length (avg_opening2 N nr nc hr hc op) = Z.to_nat (nr * nc).
  Proof. intros Ho. unfold avg_opening2, avg_of. rewrite map2_length. unfold dilation_g, erosion_g.
    rewrite !on_grid_length by auto. lia. Qed.

  Theorem mor2_le y : lenZ y = nr * nc ->
    Forall2 LE (mor2 N nr nc hr hc y) (opening_g (leb N) nr nc hr hc y) /\ Forall2 LE (mor2 N nr nc hr hc y) y.
  Proof. intros Hl.
    assert (Hy : y <> []) by (intros E; rewrite E in Hl; unfold lenZ in Hl; simpl in Hl; nia).
    assert (HO : length (opening_g (leb N) nr nc hr hc y) = Z.to_nat (nr * nc))
      by (apply on_grid_length; auto).
    assert (HOn : opening_g (leb N) nr nc hr hc y <> []) by (intros E; rewrite E in HO; simpl in HO; nia).
    assert (H1 : Forall2 LE (mor2 N nr nc hr hc y) (opening_g (leb N) nr nc hr hc y)).
    { unfold mor2. apply Forall2_map2_l.
      - intros a b. apply omin_l; auto.
      - rewrite avg_opening2_length by auto. lia. }
    split; auto.
    eapply Forall2_trans'; [exact le_trans|exact H1|apply opening_g_le; auto]. Qed.

  Theorem imor_step2_le y b : lenZ y = nr * nc -> lenZ b = nr * nc -> Forall2 LE (imor_step2 N nr nc hr hc y b) y.
  Proof. intros Hl Hb.
    assert (Hbn : b <> []) by (intros E; rewrite E in Hb; unfold lenZ in Hb; simpl in Hb; nia).
    assert (HO : length (opening_g (leb N) nr nc hr hc b) = Z.to_nat (nr * nc))
      by (apply on_grid_length; auto).
    assert (HOn : opening_g (leb N) nr nc hr hc b <> []) by (intros E; rewrite E in HO; simpl in HO; nia).
    unfold imor_step2. apply Forall2_map2_l.
    - intros a c. apply omin_l; auto.
    - rewrite avg_opening2_length by auto. unfold lenZ in Hl. lia. Qed.
End MethodsLe2.

(* ---------- 2-D operators commute with monotone maps ---------- *)
Section GridCommute.
  Variables (A B : Type) (leA : A -> A -> bool) (leB : B -> B -> bool).
  Hypothesis totA : total leA.
  Hypothesis trA : transitive leA.
  Hypothesis totB : total leB.
  Hypothesis trB : transitive leB.
  Hypothesis asB : antisym leB.
  Variable phi : A -> B.
  Hypothesis phi_mono : forall a b, leA a b = true -> leB (phi a) (phi b) = true.
  Variables nr nc hr hc : Z.
  Hypothesis Hr : 0 < nr.
  Hypothesis Hc : 0 < nc.

  Lemma on_grid_map (opA : (Z * Z -> A) -> Z * Z -> A) (opB : (Z * Z -> B) -> Z * Z -> B) y :
    lenZ y = nr * nc ->
    (forall f ij, dom2 nr nc ij -> opB (fun p => phi (f p)) ij = phi (opA f ij)) ->
    (forall f g ij, (forall p, dom2 nr nc p -> f p = g p) -> dom2 nr nc ij -> opB f ij = opB g ij) ->
    on_grid opB nr nc (map phi y) = map phi (on_grid opA nr nc y).
  Proof. intros Hl Hcm Hext.
    destruct y as [|d y']; [unfold lenZ in Hl; simpl in Hl; nia|]. set (y := d :: y') in *.
    assert (Hy : y <> []) by (unfold y; congruence).
    assert (Hmy : map phi y <> []) by (unfold y; simpl; congruence).
    assert (Hlm : lenZ (map phi y) = nr * nc) by (unfold lenZ in *; rewrite map_length; auto).
    apply (list_eq_nthZ _ _ (phi d)).
    - rewrite map_length, !on_grid_length by auto. reflexivity.
    - intros k Hk. unfold lenZ in Hk. rewrite on_grid_length in Hk by auto.
      assert (Hk' : 0 <= k < nr * nc) by nia.
      rewrite on_grid_nth by auto.
      assert (E : nthZ (phi d) (map phi (on_grid opA nr nc y)) k = phi (nthZ d (on_grid opA nr nc y) k))
        by (unfold nthZ; apply (map_nth phi)).
      rewrite E. rewrite on_grid_nth by auto.
      destruct (unflat_index nr nc k Hc Hk') as [H1 [H2 H3]].
      rewrite <- Hcm by (split; auto).
      apply Hext; [|split; auto].
      intros [i j] [D1 D2]. simpl in D1, D2. simpl fst; simpl snd. unfold nthZ. simpl hd. apply (map_nth phi). Qed.

  Let fzA_ok := fun (f : Z * Z -> A) ij (H : dom2 nr nc ij) => freeze2_ok nr nc f ij Hc H.
  Let fzB_ok := fun (f : Z * Z -> B) ij (H : dom2 nr nc ij) => freeze2_ok nr nc f ij Hc H.
  Let nbd := fun ij ab (H0 : dom2 nr nc ij) (H : In ab (nb2 nr nc hr hc ij)) => nb2_dom nr nc hr hc ij ab Hr Hc H.

  Theorem erosion_g_commute y : lenZ y = nr * nc ->
    erosion_g leB nr nc hr hc (map phi y) = map phi (erosion_g leA nr nc hr hc y).
  Proof. intros Hl. unfold erosion_g. apply on_grid_map; auto.
    - intros f ij Hd. unfold erosion2.
      apply (ero_commute A B leA leB totA trA totB trB asB phi phi_mono (Z * Z)
               (freeze2 nr nc) (freeze2 nr nc) (nb2 nr nc hr hc) (dom2 nr nc) fzA_ok fzB_ok); auto.
    - intros f g ij H Hd. unfold erosion2.
      apply (ero_ext B leB (Z * Z) (freeze2 nr nc) (nb2 nr nc hr hc) (dom2 nr nc) fzB_ok nbd); auto. Qed.

  Theorem dilation_g_commute y : lenZ y = nr * nc ->
    dilation_g leB nr nc hr hc (map phi y) = map phi (dilation_g leA nr nc hr hc y).
  Proof. intros Hl. unfold dilation_g. apply on_grid_map; auto.
    - intros f ij Hd. unfold dilation2.
      apply (dil_commute A B leA leB totA trA totB trB asB phi phi_mono (Z * Z)
               (freeze2 nr nc) (freeze2 nr nc) (nb2 nr nc hr hc) (dom2 nr nc) fzA_ok fzB_ok); auto.
    - intros f g ij H Hd. unfold dilation2.
      apply (dil_ext B leB (Z * Z) (freeze2 nr nc) (nb2 nr nc hr hc) (dom2 nr nc) fzB_ok nbd); auto. Qed.

  Theorem opening_g_commute y : lenZ y = nr * nc ->
    opening_g leB nr nc hr hc (map phi y) = map phi (opening_g leA nr nc hr hc y).
  Proof. intros Hl. unfold opening_g. apply on_grid_map; auto.
    - intros f ij Hd. unfold opening2.
      apply (opening_commute A B leA leB totA trA totB trB asB phi phi_mono (Z * Z)
               (freeze2 nr nc) (freeze2 nr nc) (nb2 nr nc hr hc) (dom2 nr nc) fzA_ok fzB_ok nbd); auto.
    - intros f g ij H Hd. unfold opening2.
      apply (opn_ext B leB (Z * Z) (freeze2 nr nc) (nb2 nr nc hr hc) (dom2 nr nc) fzB_ok nbd); auto. Qed.
End GridCommute.
