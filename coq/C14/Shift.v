(* C14 -- shift equivariance over exact rationals (Qc: canonical rationals, Leibniz equality):
   snip (no smoothing) for every filter table whose weights sum to one, and mor. *)
From Coq Require Import ZArith List Bool Lia QArith Qcanon.
From PB Require Import lib.PySlice lib.Arr C14.Model C14.Proofs C14.Reflect C14.Methods C14.Inst.
Import ListNotations.

(* ---------- generic list facts ---------- *)
Lemma map_map2 {A B C A' B' C'} (f : C -> C') (g : A -> B -> C) (g' : A' -> B' -> C') (fa : A -> A') (fb : B -> B') :
  (forall a b, f (g a b) = g' (fa a) (fb b)) ->
  forall x y, map2 g' (map fa x) (map fb y) = map f (map2 g x y).
Proof. intros H. induction x; intros [|b y]; simpl; auto. rewrite IHx, H. reflexivity. Qed.

Lemma lenZ_map {A B} (f : A -> B) l : lenZ (map f l) = lenZ l.
Proof. unfold lenZ. rewrite map_length. reflexivity. Qed.

Lemma pyslice_map {A B} (f : A -> B) l a b : pyslice (map f l) a b = map f (pyslice l a b).
Proof. unfold pyslice. rewrite lenZ_map, skipn_map, firstn_map. reflexivity. Qed.

Lemma overlay_map {A B} (f : A -> B) : forall l s v, overlay s (map f v) (map f l) = map f (overlay s v l).
Proof. induction l as [|x l IH]; intros s v; simpl; auto.
  destruct s; simpl.
  - destruct v; simpl; auto. f_equal. apply (IH 0%nat).
  - f_equal. apply IH. Qed.

Lemma Forall_firstn' {A} (P : A -> Prop) k : forall l, Forall P l -> Forall P (firstn k l).
Proof. induction k; intros l H; simpl; [constructor|]. destruct H; constructor; auto. Qed.

Local Open Scope Qc_scope.

(* sum of the coefficients of a filter, as a rational *)
Definition wsum (ts : list term) : Qc := fold_right (fun t acc => Qc_of_Z (coef t) + acc) 0 ts.
(* "the weights sum to one": every term contributes coef * (left + right), so 2 * sum coef = den *)
Definition filt_unit (f : filt) : Prop := (wsum (terms f) + wsum (terms f)) / Qc_of_Z (fden f) = 1.

Lemma filt_unit_den f : filt_unit f -> Qc_of_Z (fden f) <> 0.
Proof. unfold filt_unit. intros H Hd. rewrite Hd in H. unfold Qcdiv in H.
  change (/ 0) with 0 in H. rewrite Qcmult_0_r in H. symmetry in H. exact (Q_apart_0_1 H). Qed.

Lemma half_twice : Q2Qc (1 # 2) + Q2Qc (1 # 2) = 1.
Proof. apply Qc_is_canon. reflexivity. Qed.

Section Shift.
  Variable c : Qc.
  Definition sh (x : Qc) : Qc := x + c.
  Notation N := Num_Qc.

  Lemma leb_sh a b : Qc_leb (sh a) (sh b) = Qc_leb a b.
  Proof. apply eq_true_iff_eq. rewrite !Qc_leb_iff. rewrite (Qcle_minus_iff (sh a)), (Qcle_minus_iff a).
    replace (sh b + - sh a) with (b + - a) by (unfold sh; ring). tauto. Qed.
  Lemma ltb_sh a b : Qc_ltb (sh a) (sh b) = Qc_ltb a b.
  Proof. unfold Qc_ltb. f_equal. apply (leb_sh b a). Qed.

  Lemma sh_mono a b : Qc_leb a b = true -> Qc_leb (sh a) (sh b) = true.
  Proof. rewrite leb_sh. auto. Qed.

  Lemma omin_sh a b : omin Qc Qc_leb (sh a) (sh b) = sh (omin Qc Qc_leb a b).
  Proof. unfold omin. rewrite leb_sh. destruct (Qc_leb a b); auto. Qed.
  Lemma omax_sh a b : omax Qc Qc_leb (sh a) (sh b) = sh (omax Qc Qc_leb a b).
  Proof. unfold omax. rewrite leb_sh. destruct (Qc_leb a b); auto. Qed.

  (* ---------- snip ---------- *)
  Definition addk (k : Qc) (x : Qc) : Qc := x + k.

  Lemma pair_sum_sh b ny i il ir t :
    pair_sum N (map sh b) ny i il ir t = map (addk (c + c)) (pair_sum N b ny i il ir t).
  Proof. unfold pair_sum. rewrite !pyslice_map. apply map_map2.
    intros x y. unfold addk, sh. simpl. ring. Qed.

  Lemma scaled_sh b ny i il ir t :
    scaled N (map sh b) ny i il ir t = map (addk (Qc_of_Z (coef t) * (c + c))) (scaled N b ny i il ir t).
  Proof. unfold scaled. rewrite pair_sum_sh, !map_map. apply map_ext.
    intros x. unfold addk. simpl. ring. Qed.

  Lemma terms_fold_sh b ny i il ir ts : forall acc w,
    fold_left (fun a t' => map2 (add N) a (scaled N (map sh b) ny i il ir t')) ts (map (addk (w * (c + c))) acc) =
    map (addk ((w + wsum ts) * (c + c)))
        (fold_left (fun a t' => map2 (add N) a (scaled N b ny i il ir t')) ts acc).
  Proof. induction ts as [|t ts IH]; intros acc w; simpl.
    - replace (w + 0) with w by ring. reflexivity.
    - rewrite scaled_sh.
      rewrite (map_map2 (addk ((w + Qc_of_Z (coef t)) * (c + c))) (add N) (add N)
                 (addk (w * (c + c))) (addk (Qc_of_Z (coef t) * (c + c)))).
      + rewrite IH. f_equal. f_equal. ring.
      + intros x y. unfold addk. simpl. ring. Qed.

  Lemma eval_filt_sh b ny i il ir f : filt_unit f ->
    eval_filt N (map sh b) ny i il ir f = map sh (eval_filt N b ny i il ir f).
  Proof. intros Hu. pose proof (filt_unit_den f Hu) as Hd. unfold filt_unit in Hu.
    unfold eval_filt. destruct (terms f) as [|t ts] eqn:E; [reflexivity|].
    rewrite scaled_sh. rewrite terms_fold_sh. rewrite !map_map. apply map_ext.
    intros x. change (Qc_of_Z (coef t) + wsum ts) with (wsum (t :: ts)).
    set (W := wsum (t :: ts)) in *. clearbody W. unfold addk, sh. simpl.
    transitivity (x / Qc_of_Z (fden f) + ((W + W) / Qc_of_Z (fden f)) * c).
    - field. exact Hd.
    - rewrite Hu. ring. Qed.

  Lemma filters_sh table order b ny i il ir : Forall filt_unit table ->
    filters_of N table order (map sh b) ny i il ir = map sh (filters_of N table order b ny i il ir).
  Proof. intros Ht. unfold filters_of.
    pose proof (Forall_firstn' filt_unit (Z.to_nat (order / 2)) table Ht) as Hf.
    destruct (firstn (Z.to_nat (order / 2)) table) as [|f fs]; [reflexivity|].
    inversion Hf as [|? ? Hf1 Hfs]; subst. simpl map.
    rewrite (eval_filt_sh b ny i il ir f Hf1).
    generalize (eval_filt N b ny i il ir f) as acc.
    induction fs as [|g fs IH]; intros acc; simpl; auto.
    inversion Hfs; subst.
    rewrite (eval_filt_sh b ny i il ir g) by auto.
    rewrite (map_map2 sh (omax Qc Qc_leb) (omax Qc Qc_leb) sh sh) by (intros; symmetry; apply omax_sh).
    apply IH; auto. Qed.

  Lemma snip_step_sh table order hl hr ny b i : Forall filt_unit table ->
    snip_step N table order hl hr ny (map sh b) i = map sh (snip_step N table order hl hr ny b i).
  Proof. intros Ht. unfold snip_step. rewrite filters_sh by auto. rewrite pyslice_map.
    unfold assign_at. rewrite lenZ_map.
    rewrite (map_map2 sh (fun o f => if ltb N f o then f else o) (fun o f => if ltb N f o then f else o) sh sh).
    - apply overlay_map.
    - intros o f. simpl. rewrite ltb_sh. destruct (Qc_ltb f o); reflexivity. Qed.

  Theorem snip_shift table order decreasing n hwl hwr padded : Forall filt_unit table ->
    snip N table order decreasing n hwl hwr (map sh padded) = map sh (snip N table order decreasing n hwl hwr padded).
  Proof. intros Ht. unfold snip. rewrite <- pyslice_map. f_equal.
    generalize (if decreasing then rev (zrange 1 (Z.max (snip_hw n hwl) (snip_hw n hwr)))
                else zrange 1 (Z.max (snip_hw n hwl) (snip_hw n hwr))) as is.
    intros is. revert padded. induction is as [|i is IH]; intros b; simpl; auto.
    rewrite snip_step_sh by auto. apply IH. Qed.

  (* ---------- mor ---------- *)
  Lemma on_list_map (opA opB : Z -> (Z -> Qc) -> Z -> Qc) y :
    (forall n f i, (0 < n)%Z -> (0 <= i < n)%Z -> opB n (fun j => sh (f j)) i = sh (opA n f i)) ->
    (forall n f g i, (0 < n)%Z -> (forall j, (0 <= j < n)%Z -> f j = g j) -> (0 <= i < n)%Z -> opB n f i = opB n g i) ->
    on_list opB (map sh y) = map sh (on_list opA y).
  Proof. intros Hc He. destruct y as [|d y']; [reflexivity|]. set (y := d :: y').
    apply (list_eq_nthZ _ _ (sh d)).
    - rewrite map_length, !on_list_length, map_length. reflexivity.
    - intros i Hi. rewrite lenZ_on_list, lenZ_map in Hi.
      rewrite on_list_nth by (rewrite lenZ_map; auto). rewrite lenZ_map.
      assert (E : nthZ (sh d) (map sh (on_list opA y)) i = sh (nthZ d (on_list opA y) i))
        by (unfold nthZ; apply (map_nth sh)).
      rewrite E. rewrite (on_list_nth opA y d i) by auto.
      rewrite <- Hc by lia. apply He; try lia.
      intros j Hj. unfold nthZ. simpl hd. apply (map_nth sh). Qed.

  Lemma erosion_l_sh h y : erosion_l Qc_leb h (map sh y) = map sh (erosion_l Qc_leb h y).
  Proof. unfold erosion_l. apply on_list_map.
    - intros n f i Hn Hi. unfold erosion1.
      apply (ero_commute Qc Qc Qc_leb Qc_leb Qcle_total Qcle_trans' Qcle_total Qcle_trans' Qcle_antisym' sh sh_mono
               Z (freeze1 n) (freeze1 n) (nb1 n h) (dom1 n)); auto; intros; apply freeze1_ok; auto.
    - intros n f g i Hn H Hi. unfold erosion1.
      apply (ero_ext Qc Qc_leb Z (freeze1 n) (nb1 n h) (dom1 n)); auto.
      + intros; apply freeze1_ok; auto.
      + intros i0 j H0 Hj; eapply nb1_dom; eauto. Qed.

  Lemma dilation_l_sh h y : dilation_l Qc_leb h (map sh y) = map sh (dilation_l Qc_leb h y).
  Proof. unfold dilation_l. apply on_list_map.
    - intros n f i Hn Hi. unfold dilation1.
      apply (dil_commute Qc Qc Qc_leb Qc_leb Qcle_total Qcle_trans' Qcle_total Qcle_trans' Qcle_antisym' sh sh_mono
               Z (freeze1 n) (freeze1 n) (nb1 n h) (dom1 n)); auto; intros; apply freeze1_ok; auto.
    - intros n f g i Hn H Hi. unfold dilation1.
      apply (dil_ext Qc Qc_leb Z (freeze1 n) (nb1 n h) (dom1 n)); auto.
      + intros; apply freeze1_ok; auto.
      + intros i0 j H0 Hj; eapply nb1_dom; eauto. Qed.

  Lemma opening_l_sh h y : opening_l Qc_leb h (map sh y) = map sh (opening_l Qc_leb h y).
  Proof. apply (opening_l_commute Qc Qc Qc_leb Qc_leb Qcle_total Qcle_trans' Qcle_total Qcle_trans' Qcle_antisym' sh sh_mono). Qed.

  Lemma avg_opening_sh h op : avg_opening N h (map sh op) = map sh (avg_opening N h op).
  Proof. unfold avg_opening, avg_of. simpl leb. rewrite dilation_l_sh, erosion_l_sh.
    apply map_map2. intros a b. unfold sh. simpl.
    transitivity (Q2Qc (1 # 2) * (a + b) + (Q2Qc (1 # 2) + Q2Qc (1 # 2)) * c); [|ring].
    rewrite half_twice. ring. Qed.

  Theorem mor_shift h y : mor N h (map sh y) = map sh (mor N h y).
  Proof. unfold mor. simpl leb. rewrite opening_l_sh, avg_opening_sh.
    apply map_map2. intros a b. symmetry. apply omin_sh. Qed.

  Theorem tophat_shift h y : tophat N h (map sh y) = map sh (tophat N h y).
  Proof. unfold tophat. simpl leb. apply opening_l_sh. Qed.
End Shift.
