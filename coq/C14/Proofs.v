(* C14 -- order-theoretic proofs: opening <= id, closing >= id, idempotence, commutation with monotone
   maps, for ANY neighbourhood structure that is symmetric on its domain; then the 1-D (reflect,
   window 2h+1, any h >= 0 incl. 2h+1 > n) and 2-D (rectangular window) instances. *)
From Coq Require Import ZArith List Bool Lia ZifyBool.
From PB Require Import lib.PySlice lib.Arr C14.Model.
Import ListNotations.
Open Scope Z_scope.

Definition total {A} (le : A -> A -> bool) := forall a b, le a b = true \/ le b a = true.
Definition transitive {A} (le : A -> A -> bool) := forall a b c, le a b = true -> le b c = true -> le a c = true.
Definition antisym {A} (le : A -> A -> bool) := forall a b, le a b = true -> le b a = true -> a = b.

Section OrderProofs.
  Variable A : Type.
  Variable le : A -> A -> bool.
  Hypothesis le_total : total le.
  Hypothesis le_trans : transitive le.
  Notation "a <<= b" := (le a b = true) (at level 70).

  Lemma le_refl a : a <<= a.
  Proof. destruct (le_total a a); auto. Qed.

  Lemma omin_l a b : omin A le a b <<= a.
  Proof. unfold omin. destruct (le a b) eqn:E; [apply le_refl|]. destruct (le_total a b); congruence. Qed.
  Lemma omin_r a b : omin A le a b <<= b.
  Proof. unfold omin. destruct (le a b) eqn:E; [auto|apply le_refl]. Qed.
  Lemma omin_glb c a b : c <<= a -> c <<= b -> c <<= omin A le a b.
  Proof. unfold omin. destruct (le a b); auto. Qed.
  Lemma omin_sel a b : omin A le a b = a \/ omin A le a b = b.
  Proof. unfold omin. destruct (le a b); auto. Qed.

  Lemma omax_l a b : a <<= omax A le a b.
  Proof. unfold omax. destruct (le a b) eqn:E; [auto|apply le_refl]. Qed.
  Lemma omax_r a b : b <<= omax A le a b.
  Proof. unfold omax. destruct (le a b) eqn:E; [apply le_refl|]. destruct (le_total a b); congruence. Qed.
  Lemma omax_lub c a b : a <<= c -> b <<= c -> omax A le a b <<= c.
  Proof. unfold omax. destruct (le a b); auto. Qed.
  Lemma omax_sel a b : omax A le a b = a \/ omax A le a b = b.
  Proof. unfold omax. destruct (le a b); auto. Qed.

  Section Folds.
    Variable I : Type.
    Variable f : I -> A.
    Notation fmin := (fun l x => fold_left (fun a j => omin A le a (f j)) l x).
    Notation fmax := (fun l x => fold_left (fun a j => omax A le a (f j)) l x).

    Lemma fmin_init l : forall x, fmin l x <<= x.
    Proof. induction l as [|j l IH]; intros x; cbn [fold_left]; [apply le_refl|].
      eapply le_trans; [apply IH|apply omin_l]. Qed.
    Lemma fmin_in l : forall x j, In j l -> fmin l x <<= f j.
    Proof. induction l as [|k l IH]; intros x j Hj; cbn [fold_left]; [destruct Hj|].
      destruct Hj as [->|Hj]; [|apply IH; auto].
      eapply le_trans; [apply fmin_init|apply omin_r]. Qed.
    Lemma fmin_glb l : forall x c, c <<= x -> (forall j, In j l -> c <<= f j) -> c <<= fmin l x.
    Proof. induction l as [|k l IH]; intros x c Hx H; cbn [fold_left]; auto.
      apply IH; [apply omin_glb; auto; apply H; left; auto|]. intros; apply H; right; auto. Qed.
    Lemma fmin_sel l : forall x, fmin l x = x \/ exists j, In j l /\ fmin l x = f j.
    Proof. induction l as [|k l IH]; intros x; cbn [fold_left]; auto.
      destruct (IH (omin A le x (f k))) as [E|[j [Hj E]]].
      - rewrite E. destruct (omin_sel x (f k)) as [E'|E']; rewrite E'; auto.
        right; exists k; split; [left|]; auto.
      - right; exists j; split; [right|]; auto. Qed.

    Lemma fmax_init l : forall x, x <<= fmax l x.
    Proof. induction l as [|j l IH]; intros x; cbn [fold_left]; [apply le_refl|].
      eapply le_trans; [apply omax_l|apply IH]. Qed.
    Lemma fmax_in l : forall x j, In j l -> f j <<= fmax l x.
    Proof. induction l as [|k l IH]; intros x j Hj; cbn [fold_left]; [destruct Hj|].
      destruct Hj as [->|Hj]; [|apply IH; auto].
      eapply le_trans; [apply omax_r|apply fmax_init]. Qed.
    Lemma fmax_lub l : forall x c, x <<= c -> (forall j, In j l -> f j <<= c) -> fmax l x <<= c.
    Proof. induction l as [|k l IH]; intros x c Hx H; cbn [fold_left]; auto.
      apply IH; [apply omax_lub; auto; apply H; left; auto|]. intros; apply H; right; auto. Qed.
    Lemma fmax_sel l : forall x, fmax l x = x \/ exists j, In j l /\ fmax l x = f j.
    Proof. induction l as [|k l IH]; intros x; cbn [fold_left]; auto.
      destruct (IH (omax A le x (f k))) as [E|[j [Hj E]]].
      - rewrite E. destruct (omax_sel x (f k)) as [E'|E']; rewrite E'; auto.
        right; exists k; split; [left|]; auto.
      - right; exists j; split; [right|]; auto. Qed.
  End Folds.

  Lemma fold_min_ext I (f g : I -> A) l : (forall j, In j l -> f j = g j) ->
    forall x, fold_left (fun a j => omin A le a (f j)) l x = fold_left (fun a j => omin A le a (g j)) l x.
  Proof. induction l as [|k l IH]; intros H x; cbn [fold_left]; auto.
    rewrite (H k) by (left; auto). apply IH. intros; apply H; right; auto. Qed.
  Lemma fold_max_ext I (f g : I -> A) l : (forall j, In j l -> f j = g j) ->
    forall x, fold_left (fun a j => omax A le a (f j)) l x = fold_left (fun a j => omax A le a (g j)) l x.
  Proof. induction l as [|k l IH]; intros H x; cbn [fold_left]; auto.
    rewrite (H k) by (left; auto). apply IH. intros; apply H; right; auto. Qed.

  Section Nb.
    Variable I : Type.
    Variable fz : (I -> A) -> I -> A.
    Variable nb : I -> list I.
    Variable dom : I -> Prop.
    Hypothesis fz_ok : forall f i, dom i -> fz f i = f i.
    Hypothesis nb_dom : forall i j, dom i -> In j (nb i) -> dom j.
    Hypothesis nb_sym : forall i j, dom i -> In j (nb i) -> In i (nb j).

    Notation ero := (erosion A le I fz nb).
    Notation dil := (dilation A le I fz nb).
    Notation opn := (opening A le I fz nb).
    Notation cls := (closing A le I fz nb).
    Definition fle (f g : I -> A) := forall i, dom i -> f i <<= g i.
    Definition feq (f g : I -> A) := forall i, dom i -> f i = g i.

    Lemma ero_le f : fle (ero f) f.
    Proof. intros i Hi. unfold erosion, wmin. rewrite fz_ok by auto. apply fmin_init. Qed.
    Lemma ero_in f i j : dom i -> In j (nb i) -> ero f i <<= f j.
    Proof. intros Hi Hj. unfold erosion, wmin. rewrite fz_ok by auto. apply fmin_in; auto. Qed.
    Lemma ero_glb f i c : dom i -> c <<= f i -> (forall j, In j (nb i) -> c <<= f j) -> c <<= ero f i.
    Proof. intros Hi H0 H. unfold erosion, wmin. rewrite fz_ok by auto. apply fmin_glb; auto. Qed.
    Lemma dil_ge f : fle f (dil f).
    Proof. intros i Hi. unfold dilation, wmax. rewrite fz_ok by auto. apply fmax_init. Qed.
    Lemma dil_in f i j : dom i -> In j (nb i) -> f j <<= dil f i.
    Proof. intros Hi Hj. unfold dilation, wmax. rewrite fz_ok by auto. apply fmax_in; auto. Qed.
    Lemma dil_lub f i c : dom i -> f i <<= c -> (forall j, In j (nb i) -> f j <<= c) -> dil f i <<= c.
    Proof. intros Hi H0 H. unfold dilation, wmax. rewrite fz_ok by auto. apply fmax_lub; auto. Qed.

    Lemma ero_mono f g : fle f g -> fle (ero f) (ero g).
    Proof. intros H i Hi. apply ero_glb; auto.
      - eapply le_trans; [apply ero_le; auto|apply H; auto].
      - intros j Hj. eapply le_trans; [apply (ero_in f i j); auto|apply H; eauto]. Qed.
    Lemma dil_mono f g : fle f g -> fle (dil f) (dil g).
    Proof. intros H i Hi. apply dil_lub; auto.
      - eapply le_trans; [apply H; auto|apply dil_ge; auto].
      - intros j Hj. eapply le_trans; [apply H; eauto|apply (dil_in g i j); auto]. Qed.

    Lemma ero_ext f g : feq f g -> feq (ero f) (ero g).
    Proof. intros H i Hi. unfold erosion, wmin. rewrite !fz_ok by auto. rewrite (H i Hi).
      apply fold_min_ext. intros j Hj; apply H; eauto. Qed.
    Lemma dil_ext f g : feq f g -> feq (dil f) (dil g).
    Proof. intros H i Hi. unfold dilation, wmax. rewrite !fz_ok by auto. rewrite (H i Hi).
      apply fold_max_ext. intros j Hj; apply H; eauto. Qed.
    Lemma opn_ext f g : feq f g -> feq (opn f) (opn g).
    Proof. intros H. unfold opening. apply dil_ext, ero_ext, H. Qed.

    (* opening <= id : every window element's own window contains the centre (nb_sym) *)
    Theorem opening_le f : fle (opn f) f.
    Proof. intros i Hi. unfold opening. apply dil_lub; auto.
      - apply ero_le; auto.
      - intros j Hj. apply ero_in; eauto. Qed.
    Theorem closing_ge f : fle f (cls f).
    Proof. intros i Hi. unfold closing. apply ero_glb; auto.
      - apply dil_ge; auto.
      - intros j Hj. apply dil_in; eauto. Qed.

    Lemma ero_opn_le f : fle (ero (opn f)) (ero f).
    Proof. apply ero_mono, opening_le. Qed.
    Lemma ero_opn_ge f : fle (ero f) (ero (opn f)).
    Proof. unfold opening. apply (closing_ge (ero f)). Qed.

    Theorem opening_idem_le f : fle (opn (opn f)) (opn f).
    Proof. unfold opening at 1. apply dil_mono, ero_opn_le. Qed.
    Theorem opening_idem_ge f : fle (opn f) (opn (opn f)).
    Proof. unfold opening at 2. apply dil_mono, ero_opn_ge. Qed.

    Theorem opening_idem f : antisym le -> feq (opn (opn f)) (opn f).
    Proof. intros Ha i Hi. apply Ha; [apply opening_idem_le|apply opening_idem_ge]; auto. Qed.

    (* the value of an erosion / dilation / opening is one of the data values *)
    Lemma ero_sel f i : dom i -> exists j, dom j /\ ero f i = f j.
    Proof. intros Hi. unfold erosion, wmin. rewrite fz_ok by auto.
      destruct (fmin_sel I f (nb i) (f i)) as [E|[j [Hj E]]]; eauto. Qed.
    Lemma dil_sel f i : dom i -> exists j, dom j /\ dil f i = f j.
    Proof. intros Hi. unfold dilation, wmax. rewrite fz_ok by auto.
      destruct (fmax_sel I f (nb i) (f i)) as [E|[j [Hj E]]]; eauto. Qed.
    Theorem opening_sel f i : dom i -> exists j, dom j /\ opn f i = f j.
    Proof. intros Hi. unfold opening. destruct (dil_sel (ero f) i Hi) as [j [Hj E]].
      destruct (ero_sel f j Hj) as [k [Hk E']]. exists k; split; auto. congruence. Qed.
  End Nb.
End OrderProofs.

(* ------------------------------------------------------------------------------------------ *)
(* commutation with monotone maps between two total orders *)
Section Commute.
  Variables (A B : Type) (leA : A -> A -> bool) (leB : B -> B -> bool).
  Hypothesis totA : total leA.
  Hypothesis trA : transitive leA.
  Hypothesis totB : total leB.
  Hypothesis trB : transitive leB.
  Hypothesis asB : antisym leB.
  Variable phi : A -> B.
  Hypothesis phi_mono : forall a b, leA a b = true -> leB (phi a) (phi b) = true.

  Lemma phi_fold_min I (f : I -> A) l x :
    phi (fold_left (fun a j => omin A leA a (f j)) l x) =
    fold_left (fun a j => omin B leB a (phi (f j))) l (phi x).
  Proof.
    apply asB.
    - apply fmin_glb.
      + apply phi_mono, fmin_init; auto.
      + intros j Hj. apply phi_mono, fmin_in; auto.
    - destruct (fmin_sel A leA I f l x) as [E|[j [Hj E]]]; rewrite E.
      + apply fmin_init; auto.
      + apply (fmin_in B leB totB trB I (fun j => phi (f j))); auto.
  Qed.
  Lemma phi_fold_max I (f : I -> A) l x :
    phi (fold_left (fun a j => omax A leA a (f j)) l x) =
    fold_left (fun a j => omax B leB a (phi (f j))) l (phi x).
  Proof.
    apply asB.
    - destruct (fmax_sel A leA I f l x) as [E|[j [Hj E]]]; rewrite E.
      + apply fmax_init; auto.
      + apply (fmax_in B leB totB trB I (fun j => phi (f j))); auto.
    - apply fmax_lub.
      + apply phi_mono, fmax_init; auto.
      + intros j Hj. apply phi_mono, fmax_in; auto.
  Qed.

  Section NbC.
    Variable I : Type.
    Variable fzA : (I -> A) -> I -> A.
    Variable fzB : (I -> B) -> I -> B.
    Variable nb : I -> list I.
    Variable dom : I -> Prop.
    Hypothesis fzA_ok : forall f i, dom i -> fzA f i = f i.
    Hypothesis fzB_ok : forall f i, dom i -> fzB f i = f i.
    Hypothesis nb_dom : forall i j, dom i -> In j (nb i) -> dom j.

    Lemma ero_commute f i : dom i ->
      erosion B leB I fzB nb (fun j => phi (f j)) i = phi (erosion A leA I fzA nb f i).
    Proof. intros Hi. unfold erosion, wmin. rewrite fzA_ok, fzB_ok by auto. symmetry; apply phi_fold_min. Qed.
    Lemma dil_commute f i : dom i ->
      dilation B leB I fzB nb (fun j => phi (f j)) i = phi (dilation A leA I fzA nb f i).
    Proof. intros Hi. unfold dilation, wmax. rewrite fzA_ok, fzB_ok by auto. symmetry; apply phi_fold_max. Qed.
    Theorem opening_commute f i : dom i ->
      opening B leB I fzB nb (fun j => phi (f j)) i = phi (opening A leA I fzA nb f i).
    Proof. intros Hi. unfold opening.
      rewrite <- dil_commute by auto.
      apply (dil_ext B leB I fzB nb dom fzB_ok nb_dom); auto.
      intros j Hj. apply ero_commute; auto. Qed.
    Theorem closing_commute f i : dom i ->
      closing B leB I fzB nb (fun j => phi (f j)) i = phi (closing A leA I fzA nb f i).
    Proof. intros Hi. unfold closing.
      rewrite <- ero_commute by auto.
      apply (ero_ext B leB I fzB nb dom fzB_ok nb_dom); auto.
      intros j Hj. apply dil_commute; auto. Qed.
  End NbC.
End Commute.
