(* Arrays as lists with in-place style updates, and the counted loop [for_], used by the models of the
   compiled spline kernels (C12).  Definitions and their lemmas (no property proofs here). *)
From Coq Require Import List Arith Lia Bool.
Import ListNotations.

(* a[i] = v; out of range: unchanged (the kernels' index safety is property C05, not C12) *)
Fixpoint set {A} (l : list A) (i : nat) (v : A) : list A :=
  match l, i with
  | [], _ => []
  | _ :: t, O => v :: t
  | h :: t, S i' => h :: set t i' v
  end.

(* a[i:i+len vs] = vs *)
Fixpoint set_slice {A} (l : list A) (i : nat) (vs : list A) : list A :=
  match vs with
  | [] => l
  | v :: vs' => set_slice (set l i v) (S i) vs'
  end.

(* for m in range(n): s = body m s *)
Fixpoint for_ {S} (n : nat) (body : nat -> S -> S) (s : S) : S :=
  match n with
  | O => s
  | S m => body m (for_ m body s)
  end.

Lemma set_length {A} (l : list A) i v : length (set l i v) = length l.
Proof. revert i; induction l; destruct i; simpl; auto. Qed.

Lemma nth_set_eq {A} (l : list A) i v d : i < length l -> nth i (set l i v) d = v.
Proof. revert i; induction l; destruct i; simpl; intros; try lia; auto. apply IHl; lia. Qed.

Lemma nth_set_neq {A} (l : list A) i j v d : i <> j -> nth j (set l i v) d = nth j l d.
Proof. revert i j; induction l; destruct i, j; simpl; intros; try lia; auto. Qed.

Lemma nth_set {A} (l : list A) i j v d :
  nth j (set l i v) d = if Nat.eqb i j && Nat.ltb j (length l) then v else nth j l d.
Proof.
  destruct (Nat.eqb_spec i j) as [->|Hn]; simpl.
  - destruct (Nat.ltb_spec j (length l)).
    + apply nth_set_eq; auto.
    + rewrite !nth_overflow; auto. rewrite set_length; auto.
  - apply nth_set_neq; auto.
Qed.

Lemma set_slice_length {A} (vs l : list A) i : length (set_slice l i vs) = length l.
Proof. revert l i; induction vs; simpl; intros; auto. rewrite IHvs, set_length; auto. Qed.

Lemma nth_set_slice {A} (vs l : list A) i j d : i + length vs <= length l ->
  nth j (set_slice l i vs) d = if Nat.leb i j && Nat.ltb j (i + length vs) then nth (j - i) vs d else nth j l d.
Proof.
  revert l i; induction vs; simpl; intros l i H.
  - destruct (Nat.leb_spec i j), (Nat.ltb_spec j (i + 0)); simpl; auto; lia.
  - rewrite IHvs by (rewrite set_length; lia).
    destruct (Nat.leb_spec (S i) j), (Nat.ltb_spec j (S i + length vs)); simpl.
    + destruct (Nat.leb_spec i j), (Nat.ltb_spec j (i + S (length vs))); simpl; try lia.
      replace (j - i) with (S (j - S i)) by lia. reflexivity.
    + rewrite nth_set_neq by lia.
      destruct (Nat.leb_spec i j), (Nat.ltb_spec j (i + S (length vs))); simpl; try lia; auto.
    + destruct (Nat.leb_spec i j), (Nat.ltb_spec j (i + S (length vs))); simpl; try lia.
      * replace j with i by lia. rewrite nth_set_eq by lia. replace (i - i) with 0 by lia. reflexivity.
      * apply nth_set_neq; lia.
    + destruct (Nat.leb_spec i j), (Nat.ltb_spec j (i + S (length vs))); simpl; try lia.
  Qed.

Lemma for_inv {S} (P : nat -> S -> Prop) n body s :
  P 0 s -> (forall m t, m < n -> P m t -> P (Datatypes.S m) (body m t)) -> P n (for_ n body s).
Proof.
  intros H0 Hs. induction n; simpl; auto. apply Hs; auto.
Qed.

Lemma for_ext {S} n (b1 b2 : nat -> S -> S) s :
  (forall m t, m < n -> b1 m t = b2 m t) -> for_ n b1 s = for_ n b2 s.
Proof. induction n; simpl; intros; auto. rewrite IHn; auto. Qed.

Lemma nth_map_seq {A} (f : nat -> A) n j d : j < n -> nth j (map f (seq 0 n)) d = f j.
Proof.
  intros. rewrite nth_indep with (d' := f 0) by (rewrite map_length, seq_length; auto).
  rewrite map_nth, seq_nth; auto.
Qed.
