(* The de Boor weights equal the Cox-de Boor recursion (general degree). *)
From Coq Require Import List Arith Bool Lia QArith Lqa.
From PB Require Import C12.Num C12.LArr C12.Model C12.Refine C12.ProofsQ.
Import ListNotations.

(* 0/0 := 0 convention of the recursion *)
Definition omega (a b : Q) : Q := if Qeq_bool b 0 then 0 else a / b.

Section Bspl.
  Variables (knots : list Q) (nb : nat) (x : Q).
  Notation t := (gQ knots).

  (* degree 0: indicator of [t_m, t_{m+1}); the right end point t_nb of the base interval belongs to
     the last interval [t_{nb-1}, t_nb] (the same convention as scipy.interpolate.BSpline) *)
  Definition ind0 (m : nat) : Q :=
    if Qle_bool (t nb) x then (if Nat.eqb (m + 1) nb then 1 else 0)
    else if Qle_bool (t m) x && negb (Qle_bool (t (m + 1)) x) then 1 else 0.

  (* N_{m,p}(x) *)
  Fixpoint bspl (p m : nat) : Q :=
    match p with
    | O => ind0 m
    | S p' => omega (x - t m) (t (m + p' + 1) - t m) * bspl p' m
              + omega (t (m + p' + 2) - x) (t (m + p' + 2) - t (m + 1)) * bspl p' (m + 1)
    end.
End Bspl.

Section CdB.
  Variables (knots : list Q) (nb k ell : nat) (x : Q).
  Notation t := (gQ knots).
  Hypothesis Hsorted : sortedQ knots.
  Hypothesis Hlen : (nb + k < length knots)%nat.
  Hypothesis Hell : (k <= ell < nb)%nat.
  Hypothesis Hlo : (t ell <= x)%Q.
  Hypothesis Hhi : (x < t (ell + 1))%Q \/ ((ell + 1 = nb)%nat /\ x == t nb).
  Hypothesis Hpos : (t ell < t (ell + 1))%Q.

  Lemma ind0_at : ind0 knots nb x ell = 1.
  Proof.
    unfold ind0. destruct (Qle_bool (t nb) x) eqn:E.
    - apply Qle_bool_iff in E. destruct Hhi as [H|[H _]].
      + pose proof (Hsorted (ell + 1)%nat nb ltac:(lia) ltac:(lia)). lra.
      + destruct (Nat.eqb_spec (ell + 1) nb); [reflexivity|lia].
    - apply (lebQ_false (t nb) x) in E.
      destruct Hhi as [H|[_ H]]; [|lra].
      assert (E1 : Qle_bool (t ell) x = true) by (apply Qle_bool_iff; exact Hlo).
      assert (E2 : Qle_bool (t (ell + 1)) x = false) by (apply (lebQ_false (t (ell + 1)) x); exact H).
      rewrite E1, E2. reflexivity.
  Qed.

  Lemma ind0_off m : (m + 1 < length knots)%nat -> m <> ell -> ind0 knots nb x m = 0.
  Proof.
    intros Hm Hne. unfold ind0. destruct (Qle_bool (t nb) x) eqn:E.
    - apply Qle_bool_iff in E. destruct Hhi as [H|[H _]].
      + pose proof (Hsorted (ell + 1)%nat nb ltac:(lia) ltac:(lia)). lra.
      + destruct (Nat.eqb_spec (m + 1) nb); [lia|reflexivity].
    - apply (lebQ_false (t nb) x) in E.
      destruct Hhi as [H|[_ H]]; [|lra].
      destruct (Nat.lt_ge_cases m ell) as [C|C].
      + assert (E2 : Qle_bool (t (m + 1)) x = true).
        { apply Qle_bool_iff. pose proof (Hsorted (m + 1)%nat ell ltac:(lia) ltac:(lia)). lra. }
        rewrite E2. cbn [negb]. rewrite andb_false_r. reflexivity.
      + assert (E1 : Qle_bool (t m) x = false).
        { apply (lebQ_false (t m) x). pose proof (Hsorted (ell + 1)%nat m ltac:(lia) ltac:(lia)). lra. }
        rewrite E1. reflexivity.
  Qed.

  (* local support of the Cox-de Boor functions *)
  Lemma bspl_support p m : (m + p + 1 < length knots)%nat -> (m + p < ell \/ ell < m)%nat ->
    bspl knots nb x p m == 0.
  Proof.
    revert m; induction p; intros m Hm Hout.
    - cbn [bspl]. rewrite ind0_off by lia. reflexivity.
    - cbn [bspl]. rewrite (IHp m) by lia. rewrite (IHp (m + 1)%nat) by lia. ring.
  Qed.

  Notation Wq := (Refine.W Num_Q knots x ell).
  Notation Lk := (Refine.Lk Num_Q knots ell).
  Notation Rk := (Refine.Rk Num_Q knots ell).

  Lemma Hlen' : (ell + k < length knots)%nat.
  Proof. lia. Qed.
  Lemma Hhi' : (x <= t (ell + 1))%Q.
  Proof.
    destruct Hhi as [H|[H1 H2]]; [lra|]. rewrite H1. lra.
  Qed.

  Lemma omega_nd a b : ~ b == 0 -> omega a b = a / b.
  Proof. intros H. unfold omega. destruct (Qeq_bool b 0) eqn:E; auto. apply Qeq_bool_iff in E. contradiction. Qed.

  Theorem W_is_bspl p : (p <= k)%nat -> forall j, (j <= p)%nat -> Wq p j == bspl knots nb x p (ell - p + j).
  Proof.
    induction p; intros Hp j Hj.
    - replace j with 0%nat by lia. cbn [Refine.W bspl one Num_Q]. replace (ell - 0 + 0)%nat with ell by lia.
      rewrite ind0_at. reflexivity.
    - specialize (IHp ltac:(lia)). cbn [Refine.W bspl].
      set (i := S p) in *. set (m := (ell - i + j)%nat).
      assert (Hi : (1 <= i <= k)%nat) by (unfold i; lia).
      pose proof (Lk_le knots ell k Hsorted Hlen') as HL.
      pose proof (Rk_ge knots ell k Hsorted Hlen') as HR.
      assert (Em : (m + p + 1 = ell + j)%nat) by (unfold m, i; lia).
      assert (Em2 : (m + p + 2 = ell + (S j))%nat) by (unfold m, i; lia).
      assert (EL : t m = Lk i j) by (unfold Refine.Lk, m; f_equal; lia).
      assert (EL1 : t (m + 1)%nat = Lk i (S j)) by (unfold Refine.Lk, m; f_equal; lia).
      rewrite Em, Em2. change (t (ell + j)%nat) with (Rk j). change (t (ell + S j)%nat) with (Rk (S j)).
      rewrite EL, EL1.
      destruct (Nat.eq_dec j i) as [->|Hji].
      + (* last weight: only the left parent contributes *)
        rewrite (wnext_last knots x ell k Hsorted Hlen' Hpos i (Wq p) Hi).
        rewrite (bspl_support p (m + 1)) by (unfold m, i; lia).
        replace (i - 1)%nat with p by (unfold i; lia). unfold up_term.
        rewrite (IHp p (le_n _)). replace (ell - p + p)%nat with m by (unfold m, i; lia).
        rewrite omega_nd.
        * field. pose proof (HL i i ltac:(lia) ltac:(lia)). pose proof (HR i ltac:(lia)). lra.
        * pose proof (HL i i ltac:(lia) ltac:(lia)). pose proof (HR i ltac:(lia)). lra.
      + destruct (Nat.eq_dec j 0) as [->|Hj0].
        * (* first weight: only the right parent contributes *)
          rewrite (wnext_first knots x ell k Hsorted Hlen' Hpos i (Wq p) Hi).
          rewrite (bspl_support p m) by (unfold m, i; lia). unfold down_term.
          rewrite (IHp 0%nat ltac:(lia)). replace (ell - p + 0)%nat with (m + 1)%nat by (unfold m, i; lia).
          rewrite (omega_nd (Rk 1 - x)).
          -- field. pose proof (HL i 1%nat ltac:(lia) ltac:(lia)). pose proof (HR 1%nat ltac:(lia)). lra.
          -- pose proof (HL i 1%nat ltac:(lia) ltac:(lia)). pose proof (HR 1%nat ltac:(lia)). lra.
        * rewrite (wnext_mid knots x ell k Hsorted Hlen' Hpos i (Wq p) j ltac:(lia) ltac:(lia)).
          unfold up_term, down_term.
          rewrite (IHp (j - 1)%nat ltac:(unfold i in *; lia)). rewrite (IHp j ltac:(unfold i in *; lia)).
          replace (ell - p + (j - 1))%nat with m by (unfold m, i; lia).
          replace (ell - p + j)%nat with (m + 1)%nat by (unfold m, i; lia).
          rewrite !omega_nd.
          -- field. pose proof (HL i j ltac:(lia) ltac:(lia)). pose proof (HR j ltac:(lia)).
             pose proof (HL i (S j) ltac:(lia) ltac:(lia)). pose proof (HR (S j) ltac:(lia)). split; lra.
          -- pose proof (HL i (S j) ltac:(lia) ltac:(lia)). pose proof (HR (S j) ltac:(lia)). lra.
          -- pose proof (HL i j ltac:(lia) ltac:(lia)). pose proof (HR j ltac:(lia)). lra.
  Qed.
End CdB.
