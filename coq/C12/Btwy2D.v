(* 2-D right-hand side of the tensor-product spline system, PSpline2D.solve
   (pybaselines/two_d/_spline_utils.py):

     rhs = (self.basis.basis_r.T @ (weights * y) @ self.basis.basis_c).ravel()

   modelled over the abstract number record with matrices as index functions: element-wise product,
   (B_r.T @ V) @ B_c with that association, and .ravel() of the C-ordered (P, Q) result as the div/mod map.
   Theorem (any commutative semiring, every weight matrix and data, all shapes):
     rhs[a*Q + c] = sum_j sum_i (W[i,j] * Y[i,j]) * (B_r[i,a] * B_c[j,c])  =  ((B_r (x) B_c)' diag(vec W) vec Y)[a*Q + c],
   the B'Wy companion of C12_btwb_2d. *)
From Coq Require Import List Arith Bool Lia Setoid Morphisms Ring.
From PB Require Import C12.Num C12.LArr C12.Model C12.Btb C12.Btwb2D.
Import ListNotations.

Section Model2Dy.
  Variable N : Num.
  Notation F := (T N).
  Notation "a [*] b" := (mul N a b) (at level 40, left associativity).

  (* (B_r.T @ (weights * y)) @ B_c, a (P, Q) array; M x Nn data *)
  Definition bwyb (M Nn : nat) (Br W Y Bc : mat N) : mat N :=
    fun a c => sumR N Nn (fun j => sumR N M (fun i => Br i a [*] (W i j [*] Y i j)) [*] Bc j c).

  (* .ravel() of a C-ordered (P, Q) array: element r is [r / Q, r mod Q] *)
  Definition ravel2 (Q : nat) (A : mat N) : nat -> F := fun r => A (r / Q) (r mod Q).

  Definition make_btwy (M Nn Q : nat) (Br W Y Bc : mat N) : nat -> F := ravel2 Q (bwyb M Nn Br W Y Bc).
End Model2Dy.

Section Proofs2Dy.
  Variable N : Num.
  Notation F := (T N).
  Variable req : F -> F -> Prop.
  Hypothesis req_equiv : Equivalence req.
  Hypothesis add_proper : Proper (req ==> req ==> req) (add N).
  Hypothesis mul_proper : Proper (req ==> req ==> req) (mul N).
  Hypothesis SRth : semi_ring_theory (zero N) (one N) (add N) (mul N) req.

  Add Ring NumSR3 : SRth (setoid req_equiv (@mk_seqe F (add N) (mul N) req add_proper mul_proper)).

  Infix "==" := req (at level 70, no associativity).
  Notation "a [*] b" := (mul N a b) (at level 40, left associativity).

  Theorem make_btwy_kron M Nn Q (Br W Y Bc : mat N) a c : c < Q ->
    make_btwy N M Nn Q Br W Y Bc (a * Q + c) ==
    sumR N Nn (fun j => sumR N M (fun i => (W i j [*] Y i j) [*] (Br i a [*] Bc j c))).
  Proof.
    intros Hc. unfold make_btwy, ravel2.
    replace ((a * Q + c) / Q) with a by (apply (Nat.div_unique _ Q a c); [lia|lia]).
    replace ((a * Q + c) mod Q) with c by (apply (Nat.mod_unique _ Q a c); [lia|lia]).
    unfold bwyb.
    apply (sumR_ext' N req req_equiv add_proper). intros j Hj.
    rewrite (sumR_scale_r N req req_equiv add_proper mul_proper SRth).
    apply (sumR_ext' N req req_equiv add_proper). intros i Hi. ring.
  Qed.

  (* separable weights and data-free statement: with W[i,j] = u_i v_j the entry is the row-side weighted sum of the
     column-side weighted sums, i.e. B_r' diag(u) Y diag(v) B_c -- no weight factor can drop out *)
  Theorem make_btwy_separable M Nn Q (Br W Y Bc : mat N) (u v : nat -> F) a c : c < Q ->
    (forall i j, i < M -> j < Nn -> W i j == u i [*] v j) ->
    make_btwy N M Nn Q Br W Y Bc (a * Q + c) ==
    sumR N Nn (fun j => (v j [*] Bc j c) [*] sumR N M (fun i => (u i [*] Br i a) [*] Y i j)).
  Proof.
    intros Hc HW. rewrite make_btwy_kron by assumption.
    apply (sumR_ext' N req req_equiv add_proper). intros j Hj.
    rewrite (sumR_scale_l N req req_equiv add_proper mul_proper SRth).
    apply (sumR_ext' N req req_equiv add_proper). intros i Hi. rewrite (HW i j Hi Hj). ring.
  Qed.
End Proofs2Dy.
