(* Final forms of the C12 lemmas, as restated in props/C12.v. *)
From Coq Require Import List Arith Bool Lia QArith Lqa Setoid Morphisms Ring ZArith.
From PB Require Import C12.Num C12.LArr C12.Model C12.Refine C12.ProofsQ C12.Btb C12.CoxDeBoor.
Import ListNotations.

Lemma interval_full (knots : list Q) (k nb : nat) (x : Q) (last_left : nat) :
  (k < nb)%nat -> (nb < length knots)%nat -> sortedQ knots ->
  (gQ knots k <= x <= gQ knots nb)%Q ->
  let l := find_interval Num_Q knots k x last_left nb in
  (k <= l < nb)%nat /\ (gQ knots l <= x)%Q /\
  ((x < gQ knots (l + 1))%Q \/ ((l + 1 = nb)%nat /\ x == gQ knots nb)) /\
  (forall l', (k <= l' < nb)%nat -> (gQ knots l' <= x < gQ knots (l' + 1))%Q -> l' = l).
Proof.
  intros Hk Hlen Hs (Hx1 & Hx2). cbn zeta.
  destruct (find_interval_spec knots k nb x last_left Hk ltac:(lia) Hx1) as (A & B & C).
  remember (find_interval Num_Q knots k x last_left nb) as l eqn:El. clear El.
  split; [exact A|]. split; [exact B|]. split.
  - destruct C as [C|[C1 C2]]; [left; exact C|]. right. split; [exact C1|lra].
  - intros l' Hl' (H1 & H2). eapply interval_unique; eauto.
Qed.

Section DesignQ.
  Variables (x knots : list Q) (k : nat).
  Hypothesis Hknots : knots_ok knots k.
  Hypothesis Hx : x_ok x knots k.

  Lemma row_sum_one :
    let '(data, _, _) := make_design_matrix Num_Q x knots k in
    forall i, (i < length x)%nat -> sumQ (k + 1) (fun j => gQ data (i * (k + 1) + j)%nat) == 1.
  Proof.
    pose proof (design_rows x knots k Hknots Hx) as H.
    destruct (make_design_matrix Num_Q x knots k) as [[data row] col].
    destruct H as (_ & _ & _ & H). intros i Hi. apply (H i Hi).
  Qed.

  Lemma nonneg :
    let '(data, _, _) := make_design_matrix Num_Q x knots k in
    forall p, (0 <= gQ data p)%Q.
  Proof.
    pose proof (design_rows x knots k Hknots Hx) as H.
    destruct (make_design_matrix Num_Q x knots k) as [[data row] col].
    destruct H as (L & _ & _ & H). intros p.
    destruct (Nat.lt_ge_cases p (length data)) as [Hp|Hp].
    - rewrite L in Hp.
      assert (Hk : (0 < k + 1)%nat) by lia.
      pose proof (Nat.div_mod p (k + 1) ltac:(lia)) as E.
      pose proof (Nat.mod_upper_bound p (k + 1) ltac:(lia)) as M.
      assert (Hi : (p / (k + 1) < length x)%nat) by (apply Nat.div_lt_upper_bound; lia).
      destruct (H _ Hi) as (Hj & _).
      destruct (Hj (p mod (k + 1))%nat ltac:(lia)) as (_ & _ & Hn & _).
      replace (p / (k + 1) * (k + 1) + p mod (k + 1))%nat with p in Hn by lia. exact Hn.
    - unfold Model.g. rewrite nth_overflow by lia. cbn. lra.
  Qed.

  Lemma support :
    let nb := (length knots - (k + 1))%nat in
    let '(data, row, col) := make_design_matrix Num_Q x knots k in
    length data = (length x * (k + 1))%nat /\ length row = (length x * (k + 1))%nat /\
    length col = (length x * (k + 1))%nat /\
    forall i, (i < length x)%nat -> exists l,
      (k <= l < nb)%nat /\ (gQ knots l <= gQ x i)%Q /\
      ((gQ x i < gQ knots (l + 1))%Q \/ ((l + 1 = nb)%nat /\ gQ x i == gQ knots nb)) /\
      forall j, (j <= k)%nat ->
        nth (i * (k + 1) + j) row 0%nat = i /\ nth (i * (k + 1) + j) col 0%nat = (l - k + j)%nat.
  Proof.
    intros nb.
    pose proof (design_rows x knots k Hknots Hx) as H.
    destruct (make_design_matrix Num_Q x knots k) as [[data row] col].
    destruct H as (L1 & L2 & L3 & H). split; [exact L1|]. split; [exact L2|]. split; [exact L3|].
    intros i Hi. destruct (ell_spec x knots k Hknots Hx i Hi) as (A & B & _ & _ & C & _).
    exists (hint Num_Q x knots k nb (S i)). split; [exact A|]. split; [exact B|]. split; [exact C|].
    intros j Hj. destruct (H i Hi) as (Hr & _). destruct (Hr j Hj) as (R1 & R2 & _). split; [exact R1|exact R2].
  Qed.
  Lemma cox_de_boor :
    let nb := (length knots - (k + 1))%nat in
    let '(data, _, col) := make_design_matrix Num_Q x knots k in
    forall i j, (i < length x)%nat -> (j <= k)%nat ->
      gQ data (i * (k + 1) + j) == bspl knots nb (gQ x i) k (nth (i * (k + 1) + j) col 0%nat) /\
      forall c, (c < nb)%nat -> (forall j', (j' <= k)%nat -> nth (i * (k + 1) + j') col 0%nat <> c) ->
        bspl knots nb (gQ x i) k c == 0.
  Proof.
    intros nb. subst nb.
    pose proof (design_rows x knots k Hknots Hx) as H.
    destruct (make_design_matrix Num_Q x knots k) as [[data row] col].
    destruct H as (_ & _ & _ & H). intros i j Hi Hj.
    destruct (ell_spec x knots k Hknots Hx i Hi) as (A & B & _ & D & C & _).
    destruct Hknots as (Hk & Hs & _). cbn zeta in Hk.
    destruct (H i Hi) as (Hr & _). clear H.
    assert (Hlen : (length knots - (k + 1) + k < length knots)%nat) by lia.
    cbn [T Num_Q] in *.
    remember (length knots - (k + 1))%nat as nb eqn:Enb.
    remember (hint Num_Q x knots k nb (S i)) as l eqn:El.
    split.
    - destruct (Hr j Hj) as (_ & R2 & _ & R4). rewrite R2, R4.
      apply (W_is_bspl knots nb k l (gQ x i) Hs Hlen A B C D k (le_n _) j Hj).
    - intros c Hc Hnot.
      apply (bspl_support knots nb k l (gQ x i) Hs Hlen A B C k c ltac:(lia)).
      destruct (Nat.lt_ge_cases c (l - k)) as [C1|C1]; [left; lia|].
      destruct (Nat.lt_ge_cases l c) as [C2|C2]; [right; lia|].
      exfalso. apply (Hnot (c - (l - k))%nat ltac:(lia)).
      destruct (Hr (c - (l - k))%nat ltac:(lia)) as (_ & R2 & _). rewrite R2. lia.
  Qed.
End DesignQ.

(* index layout of the CSR triplet, for ANY arithmetic (hence also for the float run) *)
Lemma layout (N : Num) (x knots : list (T N)) (k : nat) :
  let nb := (length knots - (k + 1))%nat in
  (k < nb)%nat ->
  let '(data, row, col) := make_design_matrix N x knots k in
  length data = (length x * (k + 1))%nat /\ length row = (length x * (k + 1))%nat /\
  length col = (length x * (k + 1))%nat /\
  forall i, (i < length x)%nat -> exists l, (k <= l < nb)%nat /\
    forall j, (j <= k)%nat ->
      nth (i * (k + 1) + j) row 0%nat = i /\ nth (i * (k + 1) + j) col 0%nat = (l - k + j)%nat.
Proof.
  intros nb Hk. unfold make_design_matrix.
  destruct (dm_run_spec N x knots k nb (length x) eq_refl Hk (le_n _)) as (_ & _ & _ & L1 & L2 & L3 & H).
  split; [exact L1|]. split; [exact L2|]. split; [exact L3|].
  intros i Hi. exists (hint N x knots k nb (S i)). split; [apply hint_bounds; exact Hk|].
  intros j Hj. destruct (H i j Hi Hj) as (_ & R1 & R2). split; [exact R1|exact R2].
Qed.

(* the matrix denoted by (data, hint chain) in C12/Btb.v is the CSR matrix (data, row, col) *)
Lemma bmat_design (N : Num) (x knots : list (T N)) (k : nat) :
  let nb := (length knots - (k + 1))%nat in
  (k < nb)%nat ->
  let '(data, _, col) := make_design_matrix N x knots k in
  forall i c, (i < length x)%nat ->
    (forall j, (j <= k)%nat -> nth (i * (k + 1) + j) col 0%nat = c ->
       Bmat N x knots k data i c = Model.g N data (i * (k + 1) + j)) /\
    ((forall j, (j <= k)%nat -> nth (i * (k + 1) + j) col 0%nat <> c) -> Bmat N x knots k data i c = zero N).
Proof.
  intros nb Hk. unfold make_design_matrix.
  destruct (dm_run_spec N x knots k nb (length x) eq_refl Hk (le_n _)) as (_ & _ & _ & _ & _ & _ & H).
  intros i c Hi. pose proof (hint_bounds N x knots k nb i Hk) as Hb.
  unfold Bmat. fold nb. remember (hint N x knots k nb (S i)) as l eqn:El. split.
  - intros j Hj Hc. destruct (H i j Hi Hj) as (_ & _ & R). rewrite <- El in R. rewrite R in Hc. subst c.
    destruct (Nat.leb_spec (l - k) (l - k + j)); [|lia].
    destruct (Nat.leb_spec (l - k + j) l); [|lia]. cbn [andb].
    replace (l - k + j - (l - k))%nat with j by lia. reflexivity.
  - intros Hnot.
    destruct (Nat.leb_spec (l - k) c); cbn [andb]; auto.
    destruct (Nat.leb_spec c l); cbn [andb]; auto.
    exfalso. apply (Hnot (c - (l - k))%nat ltac:(lia)).
    destruct (H i (c - (l - k))%nat Hi ltac:(lia)) as (_ & _ & R). rewrite <- El in R. rewrite R. lia.
Qed.

(* instances of the commutative (semi)ring laws *)
Lemma Q_srt : semi_ring_theory (zero Num_Q) (one Num_Q) (add Num_Q) (mul Num_Q) Qeq.
Proof.
  constructor; cbn [zero one add mul Num_Q]; intros; ring.
Qed.
Lemma Z_srt : semi_ring_theory (zero Num_Z) (one Num_Z) (add Num_Z) (mul Num_Z) (@eq Z).
Proof.
  constructor; cbn [zero one add mul Num_Z]; intros; ring.
Qed.

(* a concrete instance of the hypotheses: knots 0,1,2,3 (degree 1, two basis functions), x = 1, 3/2, 2 *)
Lemma example_ok : knots_ok [0; 1; 2; 3]%Q 1 /\ x_ok [1; 3 # 2; 2]%Q [0; 1; 2; 3]%Q 1.
Proof.
  split.
  - unfold knots_ok. cbn [length Nat.sub Nat.add]. split; [lia|]. split.
    + intros a b Hab Hb. cbn [length] in Hb.
      destruct a as [|[|[|[|a]]]]; destruct b as [|[|[|[|b]]]]; try lia; cbv; discriminate.
    + cbv. reflexivity.
  - unfold x_ok. cbn [length Nat.sub Nat.add]. intros i Hi.
    destruct i as [|[|[|i]]]; try lia; split; cbv; discriminate.
Qed.
