(* Executable models of the compiled spline kernels of pybaselines/_spline_utils.py, written ONCE
   over the abstract number record [Num] (C12/Num.v):
     _find_interval          (lines 54-91)
     _de_boor                (lines 95-138), with its in-place `work` array and the `temp` copy
     __make_design_matrix    (lines 142-192), with the hint chain `left_knot_idx` and the persistent `work`
     _numba_btb_bty          (lines 396-468)
   Arrays are lists, `a[i] = v` is [set], `a[i:j] = vs` is [set_slice], `for m in range(n)` is [for_].
   Reads outside an array return [zero] and writes outside are dropped: index safety of these kernels
   is property C05; every theorem of C12 is stated where the indices are inside.
   Models only -- no proofs in this file. *)
From Coq Require Import List Arith Bool.
From PB Require Import C12.Num C12.LArr.
Import ListNotations.

Section Kernels.
  Variable N : Num.
  Notation F := (T N).

  Definition g (l : list F) (i : nat) : F := nth i l (zero N).

  (* ---- _find_interval(knots, spline_degree, x_val, last_left, num_bases) ---- *)
  (* while x_val < knots[left] and left != spline_degree: left -= 1 *)
  Fixpoint fi_down (knots : list F) (k : nat) (x : F) (left : nat) : nat :=
    match left with
    | O => O
    | S l' => if ltb N x (g knots left) && negb (Nat.eqb left k) then fi_down knots k x l' else left
    end.

  (* while x_val >= knots[left] and left != num_bases: left += 1 *)
  Fixpoint fi_up (knots : list F) (nb : nat) (x : F) (fuel left : nat) : nat :=
    match fuel with
    | O => left
    | S f => if leb N (g knots left) x && negb (Nat.eqb left nb) then fi_up knots nb x f (S left) else left
    end.

  Definition find_interval (knots : list F) (k : nat) (x : F) (last_left nb : nat) : nat :=
    let left := if Nat.ltb k last_left && Nat.ltb last_left nb then last_left else k in
    let left := fi_down knots k x left in
    let left := left + 1 in
    let left := fi_up knots nb x (length knots) left in
    left - 1.

  (* ---- _de_boor(knots, x_val, spline_degree, left_knot_idx, work) ---- *)
  (* body of `for j in range(1, i + 1)` *)
  Definition db_step (knots : list F) (x : F) (ell i : nat) (temp : list F) (j : nat) (work : list F) : list F :=
    let idx := ell + j in
    let right_knot := g knots idx in
    let left_knot := g knots (idx - i) in
    if eqb N left_knot right_knot then set work j (zero N)
    else
      let factor := div N (g temp (j - 1)) (sub N right_knot left_knot) in
      let work := set work (j - 1) (add N (g work (j - 1)) (mul N factor (sub N right_knot x))) in
      set work j (mul N factor (sub N x left_knot)).

  (* body of `for i in range(1, spline_degree + 1)`; state = (work, temp) *)
  Definition db_sweep (knots : list F) (x : F) (ell i : nat) (st : list F * list F) : list F * list F :=
    let temp := set_slice (snd st) 0 (firstn i (fst st)) in
    let work := set (fst st) 0 (zero N) in
    (for_ i (fun m w => db_step knots x ell i temp (S m) w) work, temp).

  Definition de_boor (knots : list F) (x : F) (k ell : nat) (work : list F) : list F :=
    (* temp = work + spline_degree + 1 is NumPy array arithmetic (a fresh array), not a pointer offset *)
    let temp := map (fun w => add N (add N w (of_nat N k)) (of_nat N 1)) work in
    let work := set work 0 (one N) in
    fst (for_ k (fun m st => db_sweep knots x ell (S m) st) (work, temp)).

  (* ---- __make_design_matrix(x, knots, spline_degree) ---- *)
  Record dm_state := { dm_left : nat; dm_idx : nat; dm_work : list F;
                       dm_data : list F; dm_row : list nat; dm_col : list nat }.

  Definition dm_body (x knots : list F) (k nb : nat) (i : nat) (s : dm_state) : dm_state :=
    let x_val := g x i in
    let left := find_interval knots k x_val (dm_left s) nb in
    let work := de_boor knots x_val k left (dm_work s) in
    let order := k + 1 in
    {| dm_left := left; dm_idx := dm_idx s + order; dm_work := work;
       dm_data := set_slice (dm_data s) (dm_idx s) (firstn order work);
       dm_row := set_slice (dm_row s) (dm_idx s) (repeat i order);
       dm_col := set_slice (dm_col s) (dm_idx s) (seq (left - k) (Nat.min (left + 1) nb - (left - k))) |}.

  Definition dm_init (len_x k : nat) : dm_state :=
    let order := k + 1 in
    {| dm_left := k; dm_idx := 0; dm_work := repeat (zero N) (2 * order);
       dm_data := repeat (zero N) (len_x * order); dm_row := repeat 0 (len_x * order);
       dm_col := repeat 0 (len_x * order) |}.

  Definition dm_run (x knots : list F) (k : nat) (n : nat) : dm_state :=
    for_ n (dm_body x knots k (length knots - (k + 1))) (dm_init (length x) k).

  Definition make_design_matrix (x knots : list F) (k : nat) : list F * list nat * list nat :=
    let s := dm_run x knots k (length x) in (dm_data s, dm_row s, dm_col s).

  (* ---- _numba_btb_bty(x, knots, spline_degree, y, weights, ab, rhs, basis_data) ---- *)
  Definition add_at (l : list F) (i : nat) (v : F) : list F := set l i (add N (g l i) v).
  Definition get2 (ab : list (list F)) (r c : nat) : F := g (nth r ab []) c.
  Definition add_at2 (ab : list (list F)) (r c : nat) (v : F) : list (list F) :=
    set ab r (add_at (nth r ab []) c v).

  (* `for k in range(j + 1)`: ab[j - k, column] += work_val * work[k] * weight_val *)
  Definition btb_inner (k left : nat) (work : list F) (w : F) (j : nat) (ab : list (list F)) : list (list F) :=
    for_ (j + 1) (fun kk ab => add_at2 ab (j - kk) (left - k + kk) (mul N (mul N (g work j) (g work kk)) w)) ab.

  (* `for j in range(spline_order)` *)
  Definition btb_row (k left : nat) (work : list F) (w y : F) (st : list (list F) * list F) : list (list F) * list F :=
    for_ (k + 1) (fun j st =>
      (btb_inner k left work w j (fst st),
       add_at (snd st) (left - k + j) (mul N (mul N (g work j) y) w))) st.

  Record btb_state := { bt_left : nat; bt_idx : nat; bt_ab : list (list F); bt_rhs : list F }.

  Definition btb_work (data : list F) (idx order : nat) : list F :=
    (* work[:] = 0; work[:spline_order] = basis_data[idx:next_idx] *)
    map (fun j => g data (idx + j)) (seq 0 order) ++ repeat (zero N) order.

  Definition btb_body (x knots : list F) (k : nat) (y weights data : list F) (i : nat) (s : btb_state) : btb_state :=
    let order := k + 1 in
    let nb := length knots - order in
    let left := find_interval knots k (g x i) (bt_left s) nb in
    let work := btb_work data (bt_idx s) order in
    let r := btb_row k left work (g weights i) (g y i) (bt_ab s, bt_rhs s) in
    {| bt_left := left; bt_idx := bt_idx s + order; bt_ab := fst r; bt_rhs := snd r |}.

  Definition btb_run (x knots : list F) (k : nat) (y weights : list F) (ab : list (list F)) (rhs data : list F) (n : nat)
    : btb_state :=
    for_ n (btb_body x knots k y weights data) {| bt_left := k; bt_idx := 0; bt_ab := ab; bt_rhs := rhs |}.

  Definition numba_btb_bty (x knots : list F) (k : nat) (y weights : list F) (ab : list (list F)) (rhs data : list F)
    : list (list F) * list F :=
    let s := btb_run x knots k y weights ab rhs data (length x) in (bt_ab s, bt_rhs s).
End Kernels.
