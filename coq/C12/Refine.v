(* Arithmetic-independent facts about the kernel models (any [Num], Leibniz equality):
   - _find_interval returns an index in [k, num_bases) whatever the comparisons answer;
   - the in-place `work`/`temp` algorithm of _de_boor computes the pure recurrence [W];
   - __make_design_matrix stores, for row i, [W] at the interval reached through the hint chain,
     row index i and the k+1 consecutive column indices left-k .. left. *)
From Coq Require Import List Arith Bool Lia.
From PB Require Import C12.Num C12.LArr C12.Model.
Import ListNotations.

Section Refine.
  Variable N : Num.
  Notation F := (T N).
  Notation g := (g N).

  (* ---------- _find_interval: index bounds for any comparison functions ---------- *)
  Lemma fi_down_bounds knots k x left : k <= left -> k <= fi_down N knots k x left <= left.
  Proof.
    induction left; cbn [fi_down]; intros H; [lia|].
    destruct (ltb N x (g knots (S left)) && negb (Nat.eqb (S left) k)) eqn:E; [|lia].
    apply andb_true_iff in E. destruct E as [_ E]. apply negb_true_iff, Nat.eqb_neq in E.
    assert (k <= left) by lia. specialize (IHleft H0). lia.
  Qed.

  Lemma fi_up_bounds knots nb x fuel left : left <= nb -> left <= fi_up N knots nb x fuel left <= nb.
  Proof.
    revert left; induction fuel; cbn [fi_up]; intros left H; [lia|].
    destruct (leb N (g knots left) x && negb (Nat.eqb left nb)) eqn:E; [|lia].
    apply andb_true_iff in E. destruct E as [_ E]. apply negb_true_iff, Nat.eqb_neq in E.
    assert (S left <= nb) by lia. specialize (IHfuel _ H0). lia.
  Qed.

  Definition start_left (k last_left nb : nat) : nat :=
    if Nat.ltb k last_left && Nat.ltb last_left nb then last_left else k.

  Lemma start_left_bounds k last_left nb : k < nb -> k <= start_left k last_left nb < nb.
  Proof.
    intros H. unfold start_left.
    destruct (Nat.ltb_spec k last_left), (Nat.ltb_spec last_left nb); simpl; lia.
  Qed.

  Lemma find_interval_bounds knots k x last_left nb : k < nb ->
    k <= find_interval N knots k x last_left nb < nb.
  Proof.
    intros H. unfold find_interval. fold (start_left k last_left nb).
    pose proof (start_left_bounds k last_left nb H) as Hs.
    pose proof (fi_down_bounds knots k x (start_left k last_left nb) (proj1 Hs)) as Hd.
    pose proof (fi_up_bounds knots nb x (length knots) (fi_down N knots k x (start_left k last_left nb) + 1)) as Hu.
    lia.
  Qed.

  (* ---------- _de_boor: the in-place algorithm computes the pure recurrence W ---------- *)
  Section Pure.
    Variables (knots : list F) (x : F) (ell : nat).
    Definition Lk (i j : nat) : F := g knots (ell + j - i).
    Definition Rk (j : nat) : F := g knots (ell + j).
    Definition degen (i j : nat) : bool := eqb N (Lk i j) (Rk j).
    Definition fac (i : nat) (prev : nat -> F) (j : nat) : F :=
      div N (prev (j - 1)) (sub N (Rk j) (Lk i j)).
    Definition aterm (i : nat) (prev : nat -> F) (j : nat) : F :=
      if Nat.eqb j 0 then zero N
      else if degen i j then zero N else mul N (fac i prev j) (sub N x (Lk i j)).
    Definition wnext (i : nat) (prev : nat -> F) (j : nat) : F :=
      if Nat.ltb j i then
        (if degen i (S j) then aterm i prev j
         else add N (aterm i prev j) (mul N (fac i prev (S j)) (sub N (Rk (S j)) x)))
      else aterm i prev j.
    (* W i j = work[j] after sweep i (i = 0: before the first sweep), for j <= i *)
    Fixpoint W (i j : nat) : F :=
      match i with
      | O => one N
      | S i' => wnext (S i') (W i') j
      end.

    Lemma wnext_ext i p1 p2 j : (forall m, m < i -> p1 m = p2 m) -> j <= i -> wnext i p1 j = wnext i p2 j.
    Proof.
      intros H Hj. unfold wnext, aterm, fac.
      destruct (Nat.eqb_spec j 0).
      - destruct (Nat.ltb_spec j i); auto. rewrite (H (S j - 1)) by lia. reflexivity.
      - rewrite (H (j - 1)) by lia.
        destruct (Nat.ltb_spec j i); auto. rewrite (H (S j - 1)) by lia. reflexivity.
    Qed.

    Lemma sweep_spec i (prev : nat -> F) work temp :
      1 <= i -> i < length work -> i <= length temp ->
      (forall j, j < i -> g work j = prev j) ->
      let st := db_sweep N knots x ell i (work, temp) in
      length (fst st) = length work /\ length (snd st) = length temp /\
      forall j, j <= i -> g (fst st) j = wnext i prev j.
    Proof.
      intros Hi Hlw Hlt Hprev. unfold db_sweep. cbn [fst snd].
      set (temp' := set_slice temp 0 (firstn i work)).
      assert (Htemp : forall j, j < i -> g temp' j = prev j).
      { intros j Hj. unfold temp', g. rewrite nth_set_slice by (rewrite firstn_length; lia).
        rewrite firstn_length. replace (Nat.min i (length work)) with i by lia.
        destruct (Nat.leb_spec 0 j), (Nat.ltb_spec j (0 + i)); simpl; try lia.
        rewrite Nat.sub_0_r. rewrite <- (Hprev j Hj). unfold Model.g.
        rewrite <- (firstn_skipn i work) at 2. rewrite app_nth1; auto. rewrite firstn_length; lia. }
      assert (Hinv : forall m, m <= i ->
        let w := for_ m (fun m0 w0 => db_step N knots x ell i temp' (S m0) w0) (set work 0 (zero N)) in
        length w = length work /\ g w m = aterm i prev m /\ forall j, j < m -> g w j = wnext i prev j).
      { induction m; intros Hm.
        - cbn [for_]. split; [apply set_length|]. split; [|intros; lia].
          unfold g, Model.g. rewrite nth_set_eq by lia. reflexivity.
        - cbn [for_]. destruct (IHm ltac:(lia)) as (Hl & Ha & Hw).
          set (w := for_ m (fun m0 w0 => db_step N knots x ell i temp' (S m0) w0) (set work 0 (zero N))) in *.
          unfold db_step. fold (Rk (S m)). fold (Lk i (S m)). fold (degen i (S m)).
          destruct (degen i (S m)) eqn:D.
          + split; [rewrite set_length; auto|]. split.
            * unfold g, Model.g. rewrite nth_set_eq by lia. unfold aterm. rewrite D. reflexivity.
            * intros j Hj. unfold g, Model.g. rewrite nth_set_neq by lia. fold (Model.g N w j).
              destruct (Nat.eq_dec j m) as [->|].
              -- rewrite Ha. unfold wnext. destruct (Nat.ltb_spec m i); [|lia]. rewrite D. reflexivity.
              -- apply Hw; lia.
          + replace (S m - 1) with m by lia. rewrite (Htemp m) by lia.
            split; [rewrite !set_length; auto|]. split.
            * unfold g, Model.g. rewrite nth_set_eq by (rewrite set_length; lia).
              unfold aterm, fac. rewrite D. replace (S m - 1) with m by lia. reflexivity.
            * intros j Hj. unfold g, Model.g. rewrite nth_set_neq by lia.
              destruct (Nat.eq_dec j m) as [->|].
              -- rewrite nth_set_eq by lia. fold (Model.g N w m). rewrite Ha.
                 unfold wnext. destruct (Nat.ltb_spec m i); [|lia]. rewrite D.
                 unfold fac. replace (S m - 1) with m by lia. reflexivity.
              -- rewrite nth_set_neq by lia. apply Hw; lia. }
      destruct (Hinv i (le_n i)) as (Hl & Ha & Hw).
      split; [exact Hl|]. split; [unfold temp'; apply set_slice_length|].
      intros j Hj. destruct (Nat.eq_dec j i) as [->|].
      - rewrite Ha. unfold wnext. destruct (Nat.ltb_spec i i); [lia|reflexivity].
      - apply Hw; lia.
    Qed.

    Lemma de_boor_spec k work : k < length work ->
      length (de_boor N knots x k ell work) = length work /\
      forall j, j <= k -> g (de_boor N knots x k ell work) j = W k j.
    Proof.
      intros Hl. unfold de_boor.
      set (temp := map (fun w => add N (add N w (of_nat N k)) (of_nat N 1)) work).
      set (body := fun m st => db_sweep N knots x ell (S m) st).
      assert (Hinv : forall m, m <= k ->
        let st := for_ m body (set work 0 (one N), temp) in
        length (fst st) = length work /\ length (snd st) = length work /\
        forall j, j <= m -> g (fst st) j = W m j).
      { induction m; intros Hm.
        - cbn [for_ fst snd]. split; [apply set_length|]. split; [unfold temp; apply map_length|].
          intros j Hj. replace j with 0 by lia. unfold g, Model.g. rewrite nth_set_eq by lia. reflexivity.
        - cbn [for_]. destruct (IHm ltac:(lia)) as (H1 & H2 & H3).
          set (st := for_ m body (set work 0 (one N), temp)) in *.
          unfold body. destruct st as [w t]. cbn [fst snd] in *.
          destruct (sweep_spec (S m) (W m) w t) as (A & B & C); try lia.
          { intros j Hj. apply H3. lia. }
          split; [rewrite A; exact H1|]. split; [rewrite B; exact H2|]. intros j Hj. rewrite C by lia. reflexivity. }
      destruct (Hinv k (le_n k)) as (H1 & _ & H3). split; auto.
    Qed.
  End Pure.

  (* ---------- __make_design_matrix ---------- *)
  (* the chain of `left_knot_idx` values: hint 0 = spline_degree, hint (i+1) = interval found for x[i] *)
  Fixpoint hint (x knots : list F) (k nb : nat) (i : nat) : nat :=
    match i with
    | O => k
    | S i' => find_interval N knots k (g x i') (hint x knots k nb i') nb
    end.

  Lemma hint_bounds x knots k nb i : k < nb -> k <= hint x knots k nb (S i) < nb.
  Proof. intros. cbn [hint]. apply find_interval_bounds; auto. Qed.

  Lemma dm_run_spec x knots k nb n :
    nb = length knots - (k + 1) ->
    k < nb -> n <= length x ->
    let s := dm_run N x knots k n in
    dm_left N s = hint x knots k nb n /\ dm_idx N s = n * (k + 1) /\ length (dm_work N s) = 2 * (k + 1) /\
    length (dm_data N s) = length x * (k + 1) /\ length (dm_row N s) = length x * (k + 1) /\
    length (dm_col N s) = length x * (k + 1) /\
    forall i j, i < n -> j <= k ->
      g (dm_data N s) (i * (k + 1) + j) = W knots (g x i) (hint x knots k nb (S i)) k j /\
      nth (i * (k + 1) + j) (dm_row N s) 0 = i /\
      nth (i * (k + 1) + j) (dm_col N s) 0 = hint x knots k nb (S i) - k + j.
  Proof.
    intros Hnb Hk. induction n; intros Hn s.
    - unfold s, dm_run, dm_init. cbn [for_ dm_left dm_idx dm_work dm_data dm_row dm_col hint].
      rewrite !repeat_length. repeat split; try lia.
    - specialize (IHn ltac:(lia)). cbn zeta in IHn.
      destruct IHn as (H1 & H2 & H3 & H4 & H5 & H6 & H7).
      unfold s, dm_run. cbn [for_]. fold (dm_run N x knots k n). rewrite <- Hnb.
      remember (dm_run N x knots k n) as s0 eqn:Hs0. clear Hs0 s.
      unfold dm_body. cbn [dm_left dm_idx dm_work dm_data dm_row dm_col].
      rewrite H1. change (find_interval N knots k (g x n) (hint x knots k nb n) nb) with (hint x knots k nb (S n)).
      pose proof (hint_bounds x knots k nb n Hk) as Hb.
      remember (hint x knots k nb (S n)) as left eqn:Hleft.
      destruct (de_boor_spec knots (g x n) left k (dm_work N s0) ltac:(lia)) as (D1 & D2).
      remember (de_boor N knots (g x n) k left (dm_work N s0)) as work eqn:Hwork. clear Hwork.
      assert (Hord : n * (k + 1) + (k + 1) <= length x * (k + 1)) by nia.
      split; [reflexivity|]. split; [lia|]. split; [lia|].
      split; [rewrite set_slice_length; auto|]. split; [rewrite set_slice_length; auto|].
      split; [rewrite set_slice_length; auto|].
      assert (Hfl : length (firstn (k + 1) work) = k + 1) by (rewrite firstn_length; lia).
      replace (Nat.min (left + 1) nb - (left - k)) with (k + 1) by lia.
      intros i j Hi Hj.
      unfold g, Model.g.
      rewrite !nth_set_slice by (rewrite ?Hfl, ?repeat_length, ?seq_length; lia).
      rewrite Hfl, repeat_length, seq_length. rewrite H2.
      destruct (Nat.eq_dec i n) as [->|Hne].
      + destruct (Nat.leb_spec (n * (k + 1)) (n * (k + 1) + j)); [|lia].
        destruct (Nat.ltb_spec (n * (k + 1) + j) (n * (k + 1) + (k + 1))); [|lia]. cbn [andb].
        replace (n * (k + 1) + j - n * (k + 1)) with j by lia.
        split; [|split].
        * rewrite <- Hleft. change (nth n x (zero N)) with (g x n). rewrite <- (D2 j Hj). unfold g, Model.g.
          rewrite <- (firstn_skipn (k + 1) work) at 2. rewrite app_nth1 by lia. reflexivity.
        * rewrite nth_indep with (d' := n) by (rewrite repeat_length; lia). apply nth_repeat.
        * rewrite seq_nth by lia. rewrite <- Hleft. lia.
      + assert (i < n) by lia.
        destruct (Nat.leb_spec (n * (k + 1)) (i * (k + 1) + j)); [nia|]. cbn [andb].
        apply H7; auto.
  Qed.
End Refine.
