(* _numba_btb_bty accumulates exactly the lower bands of B'WB and the vector B'Wy, over ANY
   commutative semiring (in particular any commutative ring: Z, Q, R, Z/n ...), for every weight
   vector.  Equality is an arbitrary congruence [req] so that Q with Qeq is an instance. *)
From Coq Require Import List Arith Bool Lia Setoid Morphisms Ring.
From PB Require Import C12.Num C12.LArr C12.Model C12.Refine.
Import ListNotations.

Section Btb.
  Variable N : Num.
  Notation F := (T N).
  Notation g := (Model.g N).
  Variable req : F -> F -> Prop.
  Hypothesis req_equiv : Equivalence req.
  Hypothesis add_proper : Proper (req ==> req ==> req) (add N).
  Hypothesis mul_proper : Proper (req ==> req ==> req) (mul N).
  Hypothesis SRth : semi_ring_theory (zero N) (one N) (add N) (mul N) req.

  Add Ring NumSR : SRth (setoid req_equiv (@mk_seqe F (add N) (mul N) req add_proper mul_proper)).

  Infix "==" := req (at level 70, no associativity).
  Notation zr := (zero N).
  Notation "a [+] b" := (add N a b) (at level 50, left associativity).
  Notation "a [*] b" := (mul N a b) (at level 40, left associativity).

  Fixpoint sumR (n : nat) (f : nat -> F) : F :=
    match n with
    | O => zr
    | S m => sumR m f [+] f m
    end.

  Lemma sumR_ext n f h : (forall m, m < n -> f m == h m) -> sumR n f == sumR n h.
  Proof.
    induction n; cbn [sumR]; intros H; [reflexivity|].
    rewrite IHn by (intros; apply H; lia). rewrite (H n) by lia. reflexivity.
  Qed.

  Lemma sumR_zero n f : (forall m, m < n -> f m == zr) -> sumR n f == zr.
  Proof.
    induction n; cbn [sumR]; intros H; [reflexivity|].
    rewrite IHn by (intros; apply H; lia). rewrite (H n) by lia. ring.
  Qed.

  Lemma sumR_single n f a : a < n -> (forall m, m < n -> m <> a -> f m == zr) -> sumR n f == f a.
  Proof.
    induction n; cbn [sumR]; intros Ha H; [lia|].
    destruct (Nat.eq_dec a n) as [->|Hne].
    - rewrite sumR_zero by (intros; apply H; lia). ring.
    - rewrite IHn by (try lia; intros; apply H; lia). rewrite (H n) by lia. ring.
  Qed.

  (* generic accumulation: if every pass adds d m to the observed cell, the loop adds their sum *)
  Lemma accum {S} (rd : S -> F) (ok : nat -> S -> Prop) n (body : nat -> S -> S) (d : nat -> F) s :
    ok 0 s ->
    (forall m t, m < n -> ok m t -> ok (Datatypes.S m) (body m t) /\ rd (body m t) == rd t [+] d m) ->
    ok n (for_ n body s) /\ rd (for_ n body s) == rd s [+] sumR n d.
  Proof.
    intros H0 Hs. induction n; cbn [for_ sumR].
    - split; auto. ring.
    - destruct IHn as (A & B); [intros; apply Hs; auto|].
      destruct (Hs n _ (Nat.lt_succ_diag_r n) A) as (C & D).
      split; auto. rewrite D, B. ring.
  Qed.

  (* ---- arrays ---- *)
  Definition shape (ab : list (list F)) (rows cols : nat) : Prop :=
    length ab = rows /\ forall r, r < rows -> length (nth r ab []) = cols.

  Lemma g_add_at l i v j : i < length l ->
    g (add_at N l i v) j = if Nat.eqb i j then g l j [+] v else g l j.
  Proof.
    intros H. unfold add_at, Model.g. rewrite nth_set.
    destruct (Nat.eqb_spec i j) as [->|]; cbn [andb]; auto.
    destruct (Nat.ltb_spec j (length l)); auto; lia.
  Qed.

  Lemma add_at_length l i v : length (add_at N l i v) = length l.
  Proof. apply set_length. Qed.

  Lemma add_at2_shape ab r c v rows cols : shape ab rows cols -> shape (add_at2 N ab r c v) rows cols.
  Proof.
    intros (H1 & H2). unfold add_at2. split; [rewrite set_length; auto|].
    intros r' Hr'. rewrite nth_set. destruct (Nat.eqb_spec r r') as [->|]; cbn [andb]; auto.
    destruct (Nat.ltb_spec r' (length ab)); auto. rewrite add_at_length. auto.
  Qed.

  Lemma get2_add_at2 ab r c v rows cols r' c' : shape ab rows cols -> r < rows -> c < cols ->
    get2 N (add_at2 N ab r c v) r' c' =
    if Nat.eqb r r' && Nat.eqb c c' then get2 N ab r' c' [+] v else get2 N ab r' c'.
  Proof.
    intros (H1 & H2) Hr Hc. unfold get2, add_at2. rewrite nth_set.
    destruct (Nat.eqb_spec r r') as [->|]; cbn [andb]; auto.
    destruct (Nat.ltb_spec r' (length ab)); [|lia].
    rewrite g_add_at by (rewrite H2; auto). reflexivity.
  Qed.

  (* ---- one data point ---- *)
  Section Row.
    Variables (k left nb : nat) (work : list F) (w y : F).
    Hypothesis Hleft : k <= left < nb.

    Definition ind1 (dd c j kk : nat) : F :=
      if Nat.eqb (j - kk) dd && Nat.eqb (left - k + kk) c then (g work j [*] g work kk) [*] w else zr.

    Lemma inner_spec j ab dd c : j <= k -> shape ab (k + 1) nb ->
      shape (btb_inner N k left work w j ab) (k + 1) nb /\
      get2 N (btb_inner N k left work w j ab) dd c == get2 N ab dd c [+] sumR (j + 1) (ind1 dd c j).
    Proof.
      intros Hj Hs. unfold btb_inner.
      apply (accum (fun ab => get2 N ab dd c) (fun _ ab => shape ab (k + 1) nb)); auto.
      intros m t Hm Ht. split; [apply add_at2_shape; auto|].
      rewrite (get2_add_at2 t _ _ _ (k + 1) nb) by (auto; lia).
      unfold ind1. destruct (Nat.eqb (j - m) dd && Nat.eqb (left - k + m) c); [reflexivity|ring].
    Qed.

    Definition ind2 (r j : nat) : F := if Nat.eqb (left - k + j) r then (g work j [*] y) [*] w else zr.

    Lemma row_spec st dd c r : shape (fst st) (k + 1) nb -> length (snd st) = nb ->
      let st' := btb_row N k left work w y st in
      (shape (fst st') (k + 1) nb /\ length (snd st') = nb) /\
      get2 N (fst st') dd c == get2 N (fst st) dd c [+] sumR (k + 1) (fun j => sumR (j + 1) (ind1 dd c j)) /\
      g (snd st') r == g (snd st) r [+] sumR (k + 1) (ind2 r).
    Proof.
      intros Hs Hl. cbn zeta. unfold btb_row.
      pose (ok := fun (_ : nat) (st : list (list F) * list F) => shape (fst st) (k + 1) nb /\ length (snd st) = nb).
      destruct (accum (fun st => get2 N (fst st) dd c) ok (k + 1)
        (fun j st => (btb_inner N k left work w j (fst st),
                      add_at N (snd st) (left - k + j) (g work j [*] y [*] w)))
        (fun j => sumR (j + 1) (ind1 dd c j)) st) as (A & B).
      { split; auto. }
      { intros m t Hm (Ht1 & Ht2). unfold ok. cbn [fst snd].
        destruct (inner_spec m (fst t) dd c ltac:(lia) Ht1) as (I1 & I2).
        split; [split; [exact I1|rewrite add_at_length; exact Ht2]|exact I2]. }
      destruct (accum (fun st => g (snd st) r) ok (k + 1)
        (fun j st => (btb_inner N k left work w j (fst st),
                      add_at N (snd st) (left - k + j) (g work j [*] y [*] w)))
        (ind2 r) st) as (_ & C).
      { split; auto. }
      { intros m t Hm (Ht1 & Ht2). unfold ok. cbn [fst snd].
        destruct (inner_spec m (fst t) 0 0 ltac:(lia) Ht1) as (I1 & _).
        split; [split; [exact I1|rewrite add_at_length; exact Ht2]|].
        rewrite g_add_at by lia. unfold ind2.
        destruct (Nat.eqb (left - k + m) r); [reflexivity|ring]. }
      split; [exact A|]. split; [exact B|exact C].
    Qed.

    (* the value of column c of the row of B stored in `work` *)
    Definition Brow (c : nat) : F :=
      if Nat.leb (left - k) c && Nat.leb c left then g work (c - (left - k)) else zr.

    Lemma ind1_closed dd c : dd <= k ->
      sumR (k + 1) (fun j => sumR (j + 1) (ind1 dd c j)) == (w [*] Brow (c + dd)) [*] Brow c.
    Proof.
      intros Hd. unfold Brow.
      destruct (Nat.leb_spec (left - k) c); cbn [andb].
      2:{ rewrite sumR_zero; [ring|]. intros j Hj. apply sumR_zero. intros kk Hkk. unfold ind1.
          destruct (Nat.eqb_spec (j - kk) dd), (Nat.eqb_spec (left - k + kk) c); cbn [andb]; try reflexivity; lia. }
      destruct (Nat.leb_spec c left); cbn [andb].
      2:{ rewrite sumR_zero; [ring|]. intros j Hj. apply sumR_zero. intros kk Hkk. unfold ind1.
          destruct (Nat.eqb_spec (j - kk) dd), (Nat.eqb_spec (left - k + kk) c); cbn [andb]; try reflexivity; lia. }
      destruct (Nat.leb_spec (left - k) (c + dd)); [|lia]. cbn [andb].
      destruct (Nat.leb_spec (c + dd) left); cbn [andb].
      2:{ rewrite sumR_zero; [ring|]. intros j Hj. apply sumR_zero. intros kk Hkk. unfold ind1.
          destruct (Nat.eqb_spec (j - kk) dd), (Nat.eqb_spec (left - k + kk) c); cbn [andb]; try reflexivity; lia. }
      rewrite (sumR_single (k + 1) _ (c + dd - (left - k))); [|lia|].
      - rewrite (sumR_single _ _ (c - (left - k))); [|lia|].
        + unfold ind1.
          destruct (Nat.eqb_spec (c + dd - (left - k) - (c - (left - k))) dd); [|lia].
          destruct (Nat.eqb_spec (left - k + (c - (left - k))) c); [|lia]. cbn [andb]. ring.
        + intros kk Hkk Hne. unfold ind1.
          destruct (Nat.eqb_spec (c + dd - (left - k) - kk) dd), (Nat.eqb_spec (left - k + kk) c);
            cbn [andb]; try reflexivity; lia.
      - intros j Hj Hne. apply sumR_zero. intros kk Hkk. unfold ind1.
        destruct (Nat.eqb_spec (j - kk) dd), (Nat.eqb_spec (left - k + kk) c); cbn [andb]; try reflexivity; lia.
    Qed.

    Lemma ind2_closed r : sumR (k + 1) (ind2 r) == (w [*] Brow r) [*] y.
    Proof.
      unfold Brow.
      destruct (Nat.leb_spec (left - k) r); cbn [andb].
      2:{ rewrite sumR_zero; [ring|]. intros j Hj. unfold ind2.
          destruct (Nat.eqb_spec (left - k + j) r); try reflexivity; lia. }
      destruct (Nat.leb_spec r left); cbn [andb].
      2:{ rewrite sumR_zero; [ring|]. intros j Hj. unfold ind2.
          destruct (Nat.eqb_spec (left - k + j) r); try reflexivity; lia. }
      rewrite (sumR_single _ _ (r - (left - k))); [|lia|].
      - unfold ind2. destruct (Nat.eqb_spec (left - k + (r - (left - k))) r); [ring|lia].
      - intros j Hj Hne. unfold ind2. destruct (Nat.eqb_spec (left - k + j) r); try reflexivity; lia.
    Qed.
  End Row.

  (* ---- all data points ---- *)
  (* B[i, c] as denoted by the CSR `basis_data` and the interval the kernel itself finds for x[i] *)
  Definition Bmat (x knots : list F) (k : nat) (data : list F) (i c : nat) : F :=
    let left := hint N x knots k (length knots - (k + 1)) (S i) in
    if Nat.leb (left - k) c && Nat.leb c left then g data (i * (k + 1) + (c - (left - k))) else zr.

  Lemma Brow_Bmat x knots k data i c :
    let left := hint N x knots k (length knots - (k + 1)) (S i) in
    k <= left ->
    Brow k left (btb_work N data (i * (k + 1)) (k + 1)) c = Bmat x knots k data i c.
  Proof.
    intros left Hl. unfold Brow, Bmat. fold left.
    destruct (Nat.leb_spec (left - k) c), (Nat.leb_spec c left); cbn [andb]; auto.
    unfold btb_work, Model.g. rewrite app_nth1 by (rewrite map_length, seq_length; lia).
    rewrite nth_map_seq by lia. reflexivity.
  Qed.

  Theorem btb_exact x knots k y weights ab0 rhs0 data nb :
    nb = length knots - (k + 1) ->
    k < nb -> shape ab0 (k + 1) nb -> length rhs0 = nb ->
    let '(ab, rhs) := numba_btb_bty N x knots k y weights ab0 rhs0 data in
    shape ab (k + 1) nb /\ length rhs = nb /\
    (forall dd c, dd <= k ->
       get2 N ab dd c ==
       get2 N ab0 dd c [+]
       sumR (length x) (fun i => (g weights i [*] Bmat x knots k data i (c + dd)) [*] Bmat x knots k data i c)) /\
    (forall r,
       g rhs r == g rhs0 r [+] sumR (length x) (fun i => (g weights i [*] Bmat x knots k data i r) [*] g y i)).
  Proof.
    intros Hnb Hk Hs Hl. unfold numba_btb_bty, btb_run.
    remember {| bt_left := k; bt_idx := 0; bt_ab := ab0; bt_rhs := rhs0 |} as s0 eqn:Es0.
    pose (ok := fun (m : nat) (s : btb_state N) =>
      shape (bt_ab N s) (k + 1) nb /\ length (bt_rhs N s) = nb /\
      bt_left N s = hint N x knots k nb m /\ bt_idx N s = m * (k + 1)).
    assert (Hok0 : ok 0 s0) by (unfold ok; rewrite Es0; cbn; auto).
    assert (Hstep : forall dd c r m t, m < length x -> ok m t ->
      let t' := btb_body N x knots k y weights data m t in
      ok (S m) t' /\
      (dd <= k -> get2 N (bt_ab N t') dd c == get2 N (bt_ab N t) dd c [+]
         (g weights m [*] Bmat x knots k data m (c + dd)) [*] Bmat x knots k data m c) /\
      g (bt_rhs N t') r == g (bt_rhs N t) r [+] (g weights m [*] Bmat x knots k data m r) [*] g y m).
    { intros dd c r m t Hm (O1 & O2 & O3 & O4). cbn zeta. unfold btb_body. rewrite <- Hnb.
      rewrite O3. change (find_interval N knots k (g x m) (hint N x knots k nb m) nb) with (hint N x knots k nb (S m)).
      pose proof (hint_bounds N x knots k nb m Hk) as Hb.
      rewrite O4.
      destruct (row_spec k (hint N x knots k nb (S m)) nb (btb_work N data (m * (k + 1)) (k + 1))
                  (g weights m) (g y m) Hb (bt_ab N t, bt_rhs N t) dd c r O1 O2) as ((R1 & R2) & R3 & R4).
      cbn [bt_left bt_idx bt_ab bt_rhs fst snd] in *.
      split; [unfold ok; cbn [bt_left bt_idx bt_ab bt_rhs]; split; [exact R1|]; split; [exact R2|]; split; [reflexivity|lia]|].
      split.
      - intros Hd. rewrite R3. rewrite (ind1_closed k _ nb _ _ Hb) by exact Hd.
        rewrite Hnb in *. rewrite !Brow_Bmat by lia. reflexivity.
      - rewrite R4. rewrite (ind2_closed k _ nb _ _ _ Hb).
        rewrite Hnb in *. rewrite !Brow_Bmat by lia. reflexivity. }
    split; [|split; [|split]].
    - destruct (accum (fun _ => zr) ok (length x) (btb_body N x knots k y weights data) (fun _ => zr) s0 Hok0) as (A & _).
      { intros m t Hm Ht. destruct (Hstep 0 0 0 m t Hm Ht) as (P & _). split; [exact P|ring]. }
      subst s0. apply A.
    - destruct (accum (fun _ => zr) ok (length x) (btb_body N x knots k y weights data) (fun _ => zr) s0 Hok0) as (A & _).
      { intros m t Hm Ht. destruct (Hstep 0 0 0 m t Hm Ht) as (P & _). split; [exact P|ring]. }
      subst s0. apply A.
    - intros dd c Hd.
      destruct (accum (fun s => get2 N (bt_ab N s) dd c) ok (length x) (btb_body N x knots k y weights data)
        (fun i => (g weights i [*] Bmat x knots k data i (c + dd)) [*] Bmat x knots k data i c) s0 Hok0) as (_ & B).
      { intros m t Hm Ht. destruct (Hstep dd c 0 m t Hm Ht) as (P & Q & _). split; [exact P|exact (Q Hd)]. }
      subst s0. exact B.
    - intros r.
      destruct (accum (fun s => g (bt_rhs N s) r) ok (length x) (btb_body N x knots k y weights data)
        (fun i => (g weights i [*] Bmat x knots k data i r) [*] g y i) s0 Hok0) as (_ & B).
      { intros m t Hm Ht. destruct (Hstep 0 0 r m t Hm Ht) as (P & _ & Q). split; [exact P|exact Q]. }
      subst s0. exact B.
  Qed.
End Btb.
