(* Rational-number theorems about the kernel models: interval search, non-negativity and
   partition of unity of the de Boor weights, the design-matrix rows. *)
From Coq Require Import List Arith Bool Lia QArith Lqa.
From PB Require Import C12.Num C12.LArr C12.Model C12.Refine.
Import ListNotations.

Notation gQ := (Model.g Num_Q).

Lemma ltbQ_true a b : ltb Num_Q a b = true <-> (a < b)%Q.
Proof.
  cbn [ltb Num_Q]. rewrite negb_true_iff. split; intros H.
  - apply Qnot_le_lt. intros C. apply Qle_bool_iff in C. congruence.
  - destruct (Qle_bool b a) eqn:E; auto. apply Qle_bool_iff in E. exfalso. apply (Qlt_not_le _ _ H E).
Qed.
Lemma ltbQ_false a b : ltb Num_Q a b = false <-> (b <= a)%Q.
Proof.
  cbn [ltb Num_Q]. rewrite negb_false_iff. apply Qle_bool_iff.
Qed.
Lemma lebQ_true a b : leb Num_Q a b = true <-> (a <= b)%Q.
Proof. cbn [leb Num_Q]. apply Qle_bool_iff. Qed.
Lemma lebQ_false a b : leb Num_Q a b = false <-> (b < a)%Q.
Proof.
  cbn [leb Num_Q]. split; intros H.
  - apply Qnot_le_lt. intros C. apply Qle_bool_iff in C. congruence.
  - destruct (Qle_bool a b) eqn:E; auto. apply Qle_bool_iff in E. exfalso. apply (Qlt_not_le _ _ H E).
Qed.
Lemma eqbQ_true a b : eqb Num_Q a b = true <-> (a == b)%Q.
Proof. cbn [eqb Num_Q]. apply Qeq_bool_iff. Qed.
Lemma eqbQ_false a b : ~ (a == b)%Q -> eqb Num_Q a b = false.
Proof. intros H. destruct (eqb Num_Q a b) eqn:E; auto. apply eqbQ_true in E. contradiction. Qed.

(* knots non-decreasing (inside the array) *)
Definition sortedQ (knots : list Q) : Prop :=
  forall a b, (a <= b)%nat -> (b < length knots)%nat -> (gQ knots a <= gQ knots b)%Q.

Section Interval.
  Variables (knots : list Q) (k nb : nat) (x : Q).

  Lemma fi_down_spec left : (k <= left)%nat ->
    let r := fi_down Num_Q knots k x left in (gQ knots r <= x)%Q \/ r = k.
  Proof.
    induction left; cbn [fi_down]; intros H.
    - right. lia.
    - destruct (ltb Num_Q x (gQ knots (S left))) eqn:E1; cbn [andb].
      + destruct (Nat.eqb_spec (S left) k); cbn [negb].
        * right; auto.
        * apply IHleft. lia.
      + left. apply ltbQ_false in E1. exact E1.
  Qed.

  Lemma fi_up_spec fuel left : (left <= nb)%nat -> (nb - left <= fuel)%nat ->
    let r := fi_up Num_Q knots nb x fuel left in
    (forall m, (left <= m < r)%nat -> (gQ knots m <= x)%Q) /\ ((x < gQ knots r)%Q \/ r = nb).
  Proof.
    revert left; induction fuel; cbn [fi_up]; intros left H1 H2.
    - split; [intros; lia|]. right; lia.
    - destruct (leb Num_Q (gQ knots left) x) eqn:E1; cbn [andb].
      + destruct (Nat.eqb_spec left nb); cbn [negb].
        * split; [intros; lia|]. right; auto.
        * destruct (IHfuel (S left) ltac:(lia) ltac:(lia)) as (A & B).
          split; auto. intros m Hm. destruct (Nat.eq_dec m left) as [->|].
          -- apply lebQ_true; auto.
          -- apply A. lia.
      + split; [intros; lia|]. left. apply lebQ_false; auto.
  Qed.

  Theorem find_interval_spec last_left :
    (k < nb)%nat -> (nb <= length knots)%nat -> (gQ knots k <= x)%Q ->
    let l := find_interval Num_Q knots k x last_left nb in
    (k <= l < nb)%nat /\ (gQ knots l <= x)%Q /\
    ((x < gQ knots (l + 1))%Q \/ ((l + 1 = nb)%nat /\ (gQ knots nb <= x)%Q)).
  Proof.
    intros Hk Hlen Hx. cbn zeta.
    pose proof (find_interval_bounds Num_Q knots k x last_left nb Hk) as Hb.
    split; [exact Hb|]. clear Hb.
    unfold find_interval. cbv zeta. cbn [T Num_Q]. fold (start_left k last_left nb).
    pose proof (start_left_bounds k last_left nb Hk) as Hs.
    remember (start_left k last_left nb) as s0 eqn:Es0. clear Es0.
    pose proof (fi_down_bounds Num_Q knots k x s0 (proj1 Hs)) as Hdb.
    pose proof (fi_down_spec s0 (proj1 Hs)) as Hd. cbn zeta in Hd.
    remember (fi_down Num_Q knots k x s0) as d eqn:Ed. clear Ed.
    assert (Hdx : (gQ knots d <= x)%Q) by (destruct Hd as [Hd|Hd]; [exact Hd|rewrite Hd; exact Hx]).
    pose proof (fi_up_bounds Num_Q knots nb x (length knots) (d + 1) ltac:(lia)) as Hub.
    destruct (fi_up_spec (length knots) (d + 1) ltac:(lia) ltac:(lia)) as (A & B).
    remember (fi_up Num_Q knots nb x (length knots) (d + 1)) as u eqn:Eu. clear Eu.
    split.
    - destruct (Nat.eq_dec u (d + 1)) as [->|].
      + replace (d + 1 - 1)%nat with d by lia. exact Hdx.
      + apply A. lia.
    - replace (u - 1 + 1)%nat with u by lia.
      destruct B as [B|B]; [left; exact B|].
      destruct (Qlt_le_dec x (gQ knots u)) as [C|C]; [left; exact C|].
      right. subst u. split; [lia|exact C].
  Qed.

  Lemma interval_unique l l' : sortedQ knots -> (nb < length knots)%nat ->
    (k <= l < nb)%nat -> (gQ knots l <= x)%Q ->
    ((x < gQ knots (l + 1))%Q \/ ((l + 1 = nb)%nat /\ (gQ knots nb <= x)%Q)) ->
    (k <= l' < nb)%nat -> (gQ knots l' <= x)%Q -> (x < gQ knots (l' + 1))%Q -> l' = l.
  Proof.
    intros Hs Hlen Hl H1 H2 Hl' H1' H2'.
    destruct (Nat.lt_trichotomy l' l) as [C|[C|C]]; auto; exfalso.
    - pose proof (Hs (l' + 1)%nat l ltac:(lia) ltac:(lia)). lra.
    - destruct H2 as [H2|[H2 _]]; [|lia].
      pose proof (Hs (l + 1)%nat l' ltac:(lia) ltac:(lia)). lra.
  Qed.
End Interval.

(* ---------- de Boor weights over Q ---------- *)
Fixpoint sumQ (n : nat) (f : nat -> Q) : Q :=
  match n with
  | O => 0
  | S m => sumQ m f + f m
  end.

Lemma sumQ_ext n f h : (forall j, (j < n)%nat -> f j == h j) -> sumQ n f == sumQ n h.
Proof.
  induction n; cbn [sumQ]; intros H; [reflexivity|].
  rewrite IHn by (intros; apply H; lia). rewrite (H n) by lia. reflexivity.
Qed.

Section DeBoorQ.
  Variables (knots : list Q) (x : Q) (ell k : nat).
  Hypothesis Hsorted : sortedQ knots.
  Hypothesis Hlen : (ell + k < length knots)%nat.
  Hypothesis Hlo : (gQ knots ell <= x)%Q.
  Hypothesis Hhi : (x <= gQ knots (ell + 1))%Q.
  Hypothesis Hpos : (gQ knots ell < gQ knots (ell + 1))%Q.

  Notation Lk := (Refine.Lk Num_Q knots ell).
  Notation Rk := (Refine.Rk Num_Q knots ell).
  Notation Wq := (Refine.W Num_Q knots x ell).

  Lemma Lk_le i j : (1 <= j <= i)%nat -> (i <= k)%nat -> (Lk i j <= gQ knots ell)%Q.
  Proof. intros. unfold Refine.Lk. apply Hsorted; lia. Qed.
  Lemma Rk_ge j : (1 <= j <= k)%nat -> (gQ knots (ell + 1) <= Rk j)%Q.
  Proof. intros. unfold Refine.Rk. apply Hsorted; lia. Qed.

  Lemma nondegen i j : (1 <= j <= i)%nat -> (i <= k)%nat -> degen Num_Q knots ell i j = false.
  Proof.
    intros H1 H2. unfold degen. apply eqbQ_false.
    pose proof (Lk_le i j H1 H2). pose proof (Rk_ge j ltac:(lia)). lra.
  Qed.

  (* the two contributions a parent weight p sends to its children, and their sum *)
  Definition up_term (i : nat) (p : Q) (j : nat) : Q := p / (Rk j - Lk i j) * (x - Lk i j).
  Definition down_term (i : nat) (p : Q) (j : nat) : Q := p / (Rk j - Lk i j) * (Rk j - x).

  Lemma wnext_last i p : (1 <= i <= k)%nat -> wnext Num_Q knots x ell i p i = up_term i (p (i - 1)%nat) i.
  Proof.
    intros H. unfold wnext. destruct (Nat.ltb_spec i i); [lia|].
    unfold aterm. destruct (Nat.eqb_spec i 0); [lia|]. rewrite nondegen by lia. reflexivity.
  Qed.
  Lemma wnext_first i p : (1 <= i <= k)%nat -> wnext Num_Q knots x ell i p 0 = (0 + down_term i (p 0%nat) 1)%Q.
  Proof.
    intros H. unfold wnext. destruct (Nat.ltb_spec 0 i); [|lia].
    rewrite nondegen by lia. unfold aterm. cbn [Nat.eqb]. reflexivity.
  Qed.
  Lemma wnext_mid i p j : (1 <= j < i)%nat -> (i <= k)%nat ->
    wnext Num_Q knots x ell i p j = (up_term i (p (j - 1)%nat) j + down_term i (p j) (S j))%Q.
  Proof.
    intros H1 H2. unfold wnext. destruct (Nat.ltb_spec j i); [|lia].
    rewrite nondegen by lia. unfold aterm. destruct (Nat.eqb_spec j 0); [lia|].
    rewrite nondegen by lia. unfold up_term, down_term, fac. cbn [add mul div sub Num_Q].
    replace (S j - 1)%nat with j by lia. reflexivity.
  Qed.

  Lemma up_term_nonneg i p j : (1 <= j <= i)%nat -> (i <= k)%nat -> (0 <= p)%Q -> (0 <= up_term i p j)%Q.
  Proof.
    intros H1 H2 Hp. unfold up_term.
    pose proof (Lk_le i j H1 H2). pose proof (Rk_ge j ltac:(lia)).
    apply Qmult_le_0_compat; [|lra].
    apply Qle_shift_div_l; lra.
  Qed.
  Lemma down_term_nonneg i p j : (1 <= j <= i)%nat -> (i <= k)%nat -> (0 <= p)%Q -> (0 <= down_term i p j)%Q.
  Proof.
    intros H1 H2 Hp. unfold down_term.
    pose proof (Lk_le i j H1 H2). pose proof (Rk_ge j ltac:(lia)).
    apply Qmult_le_0_compat; [|lra].
    apply Qle_shift_div_l; lra.
  Qed.
  Lemma up_down i p j : (1 <= j <= i)%nat -> (i <= k)%nat -> up_term i p j + down_term i p j == p.
  Proof.
    intros H1 H2. unfold up_term, down_term.
    pose proof (Lk_le i j H1 H2). pose proof (Rk_ge j ltac:(lia)).
    field. lra.
  Qed.

  Theorem W_nonneg i : (i <= k)%nat -> forall j, (j <= i)%nat -> (0 <= Wq i j)%Q.
  Proof.
    induction i; intros Hi j Hj.
    - cbn [Refine.W one Num_Q]. lra.
    - cbn [Refine.W]. specialize (IHi ltac:(lia)).
      destruct (Nat.eq_dec j (S i)) as [->|].
      + rewrite wnext_last by lia. apply up_term_nonneg; try lia. apply IHi. lia.
      + destruct (Nat.eq_dec j 0) as [->|].
        * rewrite wnext_first by lia.
          pose proof (down_term_nonneg (S i) (Wq i 0%nat) 1 ltac:(lia) Hi (IHi 0%nat ltac:(lia))). lra.
        * rewrite wnext_mid by lia.
          pose proof (up_term_nonneg (S i) (Wq i (j - 1)%nat) j ltac:(lia) Hi (IHi (j - 1)%nat ltac:(lia))).
          pose proof (down_term_nonneg (S i) (Wq i j) (S j) ltac:(lia) Hi (IHi j ltac:(lia))). lra.
  Qed.

  (* one sweep redistributes the mass of the parents: sum of children = sum of parents *)
  Lemma sweep_mass i p : (1 <= i <= k)%nat ->
    sumQ (i + 1) (wnext Num_Q knots x ell i p) == sumQ i p.
  Proof.
    intros Hi.
    assert (Hm : forall m, (m < i)%nat ->
      sumQ (S m) (wnext Num_Q knots x ell i p) == sumQ (S m) p - up_term i (p m) (S m)).
    { induction m; intros Hm.
      - cbn [sumQ]. rewrite wnext_first by lia.
        rewrite <- (up_down i (p 0%nat) 1) at 2 by lia. ring.
      - cbn [sumQ] in *. rewrite IHm by lia. rewrite wnext_mid by lia.
        replace (S m - 1)%nat with m by lia.
        rewrite <- (up_down i (p (S m)) (S (S m))) at 2 by lia. ring. }
    replace (i + 1)%nat with (S i) by lia. cbn [sumQ].
    destruct i as [|i']; [lia|]. rewrite Hm by lia. rewrite wnext_last by lia.
    replace (S i' - 1)%nat with i' by lia. ring.
  Qed.

  Theorem W_sum_one i : (i <= k)%nat -> sumQ (i + 1) (Wq i) == 1.
  Proof.
    induction i; intros Hi.
    - cbn [sumQ Nat.add Refine.W one Num_Q]. ring.
    - replace (sumQ (S i + 1) (Wq (S i))) with (sumQ (S i + 1) (wnext Num_Q knots x ell (S i) (Wq i))) by reflexivity.
      rewrite sweep_mass by lia. replace (S i) with (i + 1)%nat by lia. apply IHi. lia.
  Qed.
End DeBoorQ.

(* ---------- design matrix rows ---------- *)
Definition knots_ok (knots : list Q) (k : nat) : Prop :=
  let nb := (length knots - (k + 1))%nat in
  (k < nb)%nat /\ sortedQ knots /\ (gQ knots (nb - 1) < gQ knots nb)%Q.
Definition x_ok (x knots : list Q) (k : nat) : Prop :=
  let nb := (length knots - (k + 1))%nat in
  forall i, (i < length x)%nat -> (gQ knots k <= gQ x i <= gQ knots nb)%Q.

Section Design.
  Variables (x knots : list Q) (k : nat).
  Hypothesis Hknots : knots_ok knots k.
  Hypothesis Hx : x_ok x knots k.
  Let nb := (length knots - (k + 1))%nat.
  Let ell (i : nat) := hint Num_Q x knots k nb (S i).

  Lemma ell_spec i : (i < length x)%nat ->
    (k <= ell i < nb)%nat /\ (gQ knots (ell i) <= gQ x i)%Q /\ (gQ x i <= gQ knots (ell i + 1))%Q /\
    (gQ knots (ell i) < gQ knots (ell i + 1))%Q /\
    ((gQ x i < gQ knots (ell i + 1))%Q \/ ((ell i + 1 = nb)%nat /\ gQ x i == gQ knots nb)) /\
    forall l', (k <= l' < nb)%nat -> (gQ knots l' <= gQ x i < gQ knots (l' + 1))%Q -> l' = ell i.
  Proof.
    intros Hi. destruct Hknots as (Hk & Hs & Hend). fold nb in Hk, Hend.
    destruct (Hx i Hi) as (Hx1 & Hx2). fold nb in Hx2.
    unfold ell. cbn [hint].
    destruct (find_interval_spec knots k nb (gQ x i) (hint Num_Q x knots k nb i) Hk ltac:(unfold nb; lia) Hx1)
      as (A & B & C).
    remember (find_interval Num_Q knots k (gQ x i) (hint Num_Q x knots k nb i) nb) as l eqn:El. clear El.
    split; [exact A|]. split; [exact B|].
    assert (Hnbl : (nb < length knots)%nat) by (unfold nb in *; lia).
    split; [|split; [|split]].
    - destruct C as [C|[C1 C2]]; [lra|]. rewrite C1. exact Hx2.
    - destruct C as [C|[C1 C2]]; [lra|]. rewrite C1. replace l with (nb - 1)%nat by lia. exact Hend.
    - destruct C as [C|[C1 C2]]; [left; exact C|]. right. split; [exact C1|]. lra.
    - intros l' Hl' Hin. eapply interval_unique; eauto; try lra; tauto.
  Qed.

  Theorem design_rows :
    let '(data, row, col) := make_design_matrix Num_Q x knots k in
    length data = (length x * (k + 1))%nat /\ length row = (length x * (k + 1))%nat /\
    length col = (length x * (k + 1))%nat /\
    forall i, (i < length x)%nat ->
      (forall j, (j <= k)%nat ->
         nth (i * (k + 1) + j) row 0%nat = i /\ nth (i * (k + 1) + j) col 0%nat = (ell i - k + j)%nat /\
         (0 <= gQ data (i * (k + 1) + j))%Q /\
         gQ data (i * (k + 1) + j) = Refine.W Num_Q knots (gQ x i) (ell i) k j) /\
      sumQ (k + 1) (fun j => gQ data (i * (k + 1) + j)%nat) == 1.
  Proof.
    unfold make_design_matrix.
    destruct Hknots as (Hk & Hs & Hend). fold nb in Hk, Hend.
    destruct (dm_run_spec Num_Q x knots k nb (length x) eq_refl Hk (le_n _)) as (_ & _ & _ & L1 & L2 & L3 & H).
    cbn [T Num_Q] in *.
    remember (dm_run Num_Q x knots k (length x)) as s eqn:Es. clear Es.
    split; [exact L1|]. split; [exact L2|]. split; [exact L3|].
    intros i Hi. destruct (ell_spec i Hi) as (A & B & C & D & _).
    assert (Hlen : (ell i + k < length knots)%nat) by (unfold nb in *; lia).
    split.
    - intros j Hj. destruct (H i j Hi Hj) as (H1 & H2 & H3). fold (ell i) in H1, H3.
      split; [exact H2|]. split; [exact H3|]. split; [|exact H1].
      rewrite H1. apply (W_nonneg knots (gQ x i) (ell i) k Hs Hlen B C D k (le_n _) j Hj).
    - rewrite <- (W_sum_one knots (gQ x i) (ell i) k Hs Hlen D k (le_n _)).
      apply sumQ_ext. intros j Hj. destruct (H i j Hi ltac:(lia)) as (H1 & _). fold (ell i) in H1.
      rewrite H1. reflexivity.
  Qed.
End Design.
