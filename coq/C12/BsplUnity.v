(* The Cox-de Boor functions of C12/CoxDeBoor.v themselves (independently of the design-matrix code) are
   non-negative and form a partition of unity on [t_k, t_nb], for every degree. *)
From Coq Require Import List Arith Bool Lia QArith Lqa.
From PB Require Import C12.Num C12.LArr C12.Model C12.Refine C12.ProofsQ C12.CoxDeBoor.
Import ListNotations.

Lemma sumQ_zero n f : (forall j, (j < n)%nat -> f j == 0) -> sumQ n f == 0.
Proof.
  induction n; cbn [sumQ]; intros H; [reflexivity|].
  rewrite IHn by (intros; apply H; lia). rewrite (H n) by lia. ring.
Qed.

Lemma sumQ_split a b f : sumQ (a + b) f == sumQ a f + sumQ b (fun j => f (a + j)%nat).
Proof.
  induction b.
  - replace (a + 0)%nat with a by lia. cbn [sumQ]. ring.
  - replace (a + S b)%nat with (S (a + b)) by lia. cbn [sumQ]. rewrite IHb. ring.
Qed.

Lemma sumQ_window n lo w f : (lo + w <= n)%nat ->
  (forall c, (c < n)%nat -> (c < lo \/ lo + w <= c)%nat -> f c == 0) ->
  sumQ n f == sumQ w (fun j => f (lo + j)%nat).
Proof.
  intros Hn Hz.
  assert (E : sumQ (lo + (w + (n - lo - w))) f ==
              sumQ lo f + (sumQ w (fun j => f (lo + j)%nat) + sumQ (n - lo - w) (fun j => f (lo + (w + j))%nat))).
  { rewrite sumQ_split. apply Qplus_comp; [reflexivity|]. rewrite sumQ_split. reflexivity. }
  replace (lo + (w + (n - lo - w)))%nat with n in E by lia. rewrite E.
  assert (Z1 : sumQ lo f == 0) by (apply sumQ_zero; intros j Hj; apply Hz; lia).
  assert (Z2 : sumQ (n - lo - w) (fun j => f (lo + (w + j))%nat) == 0) by (apply sumQ_zero; intros j Hj; apply Hz; lia).
  rewrite Z1, Z2. ring.
Qed.

Section Unity.
  Variables (knots : list Q) (k : nat) (x : Q).
  Let nb := (length knots - (k + 1))%nat.
  Hypothesis Hknots : knots_ok knots k.
  Hypothesis Hx : (gQ knots k <= x <= gQ knots nb)%Q.

  Lemma unity_core :
    exists l, (k <= l < nb)%nat /\
      (forall j, (j <= k)%nat -> bspl knots nb x k (l - k + j) == W Num_Q knots x l k j) /\
      (forall c, (c + k + 1 < length knots)%nat -> (c + k < l \/ l < c)%nat -> bspl knots nb x k c == 0) /\
      (forall j, (j <= k)%nat -> 0 <= W Num_Q knots x l k j) /\
      sumQ (k + 1) (W Num_Q knots x l k) == 1.
  Proof.
    destruct Hknots as (Hk & Hs & Hend). fold nb in Hk, Hend.
    assert (Hnbl : (nb < length knots)%nat) by (unfold nb in *; lia).
    assert (Hlen : (nb + k < length knots)%nat) by (unfold nb in *; lia).
    destruct (find_interval_spec knots k nb x k Hk ltac:(lia) (proj1 Hx)) as (A & B & C).
    remember (find_interval Num_Q knots k x k nb) as l eqn:El. clear El.
    assert (C' : (x < gQ knots (l + 1))%Q \/ ((l + 1 = nb)%nat /\ x == gQ knots nb)).
    { destruct C as [C|[C1 C2]]; [left; exact C|]. right. split; [exact C1|]. destruct Hx. lra. }
    assert (D : (gQ knots l < gQ knots (l + 1))%Q).
    { destruct C as [C|[C1 C2]]; [lra|]. rewrite C1. replace l with (nb - 1)%nat by lia. exact Hend. }
    assert (Hhi : (x <= gQ knots (l + 1))%Q).
    { destruct C' as [C1|[C1 C2]]; [lra|]. rewrite C1. destruct Hx. lra. }
    assert (Hlen2 : (l + k < length knots)%nat) by lia.
    exists l. split; [exact A|]. split; [|split; [|split]].
    - intros j Hj. symmetry. apply (W_is_bspl knots nb k l x Hs Hlen A B C' D k (le_n _) j Hj).
    - intros c Hc Hout. apply (bspl_support knots nb k l x Hs Hlen A B C' k c Hc Hout).
    - intros j Hj. apply (W_nonneg knots x l k Hs Hlen2 B Hhi D k (le_n _) j Hj).
    - apply (W_sum_one knots x l k Hs Hlen2 D k (le_n _)).
  Qed.

  Theorem bspl_nonneg c : (c < nb)%nat -> 0 <= bspl knots nb x k c.
  Proof.
    intros Hc. destruct unity_core as (l & A & E & Z & P & _).
    destruct (Nat.lt_ge_cases c (l - k)) as [C1|C1].
    - rewrite Z by (unfold nb in *; lia). lra.
    - destruct (Nat.lt_ge_cases l c) as [C2|C2].
      + rewrite Z by (unfold nb in *; lia). lra.
      + replace c with (l - k + (c - (l - k)))%nat by lia. rewrite E by lia. apply P. lia.
  Qed.

  Theorem bspl_partition_of_unity : sumQ nb (bspl knots nb x k) == 1.
  Proof.
    destruct unity_core as (l & A & E & Z & _ & S1).
    rewrite (sumQ_window nb (l - k) (k + 1) (bspl knots nb x k)).
    - rewrite <- S1. apply sumQ_ext. intros j Hj. apply E. lia.
    - lia.
    - intros c Hc Hout. apply Z; unfold nb in *; lia.
  Qed.
End Unity.
