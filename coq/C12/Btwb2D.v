(* 2-D normal matrix of the tensor-product spline: SplineBasis2D._make_btwb
   (pybaselines/two_d/_spline_utils.py) and _face_splitting (pybaselines/two_d/_whittaker_utils.py):

     G_r = kron(B_r, ones).multiply(kron(ones, B_r))            G_r[i, a*P+b] = B_r[i,a] * B_r[i,b]
     T   = G_r.T @ W @ G_c                                      shape (P*P, Q*Q)
     F   = T.reshape(P,P,Q,Q).transpose([0,2,1,3]).reshape(P*Q, P*Q)

   modelled over the abstract number record with matrices as index functions and the reshapes as the
   div/mod maps of C-ordered data.  Theorems (any commutative semiring, every weight matrix):
     F[a*Q+c, b*Q+d] = sum_j sum_i W[i,j] * (B_r[i,a] B_c[j,c]) * (B_r[i,b] B_c[j,d])   = ((B_r (x) B_c)' W (B_r (x) B_c))
   and, for separable weights W[i,j] = u_i v_j (in particular CONSTANT weights w: u = w, v = 1),
     F[a*Q+c, b*Q+d] = (sum_i u_i B_r[i,a] B_r[i,b]) * (sum_j v_j B_c[j,c] B_c[j,d])
   i.e. the Kronecker product of the two 1-D matrices B'WB of C12_btb_exact -- the weight does not drop out. *)
From Coq Require Import List Arith Bool Lia Setoid Morphisms Ring.
From PB Require Import C12.Num C12.LArr C12.Model C12.Btb.
Import ListNotations.

Section Model2D.
  Variable N : Num.
  Notation F := (T N).
  Notation "a [+] b" := (add N a b) (at level 50, left associativity).
  Notation "a [*] b" := (mul N a b) (at level 40, left associativity).
  Definition mat := nat -> nat -> F.

  (* _face_splitting(basis): column q = a*P + b holds basis[i,a] * basis[i,b] *)
  Definition face (P : nat) (B : mat) : mat := fun i q => B i (q / P) [*] B i (q mod P).

  (* (G_r.T @ weights) @ G_c, M x Nn data *)
  Definition gwg (M Nn P Q : nat) (Br W Bc : mat) : mat :=
    fun q s => sumR N Nn (fun j => sumR N M (fun i => face P Br i q [*] W i j) [*] face Q Bc j s).

  (* .reshape((P, P, Q, Q)) of a C-ordered (P*P, Q*Q) array, np.transpose(.., [0, 2, 1, 3]),
     .reshape((P*Q, P*Q)): entry (r, s) of the result *)
  Definition reshape_transpose (P Q : nat) (Tm : mat) : mat :=
    fun r s =>
      let flat := r * (P * Q) + s in          (* position in the C-ordered (P, Q, P, Q) array *)
      let d := flat mod Q in
      let b := (flat / Q) mod P in
      let c := (flat / (Q * P)) mod Q in
      let a := flat / (Q * P * Q) in
      (* transposed[a, c, b, d] = reshaped[a, b, c, d] = T[a*P + b, c*Q + d] *)
      Tm (a * P + b) (c * Q + d).

  Definition make_btwb (M Nn P Q : nat) (Br W Bc : mat) : mat :=
    reshape_transpose P Q (gwg M Nn P Q Br W Bc).
End Model2D.

Section Proofs2D.
  Variable N : Num.
  Notation F := (T N).
  Variable req : F -> F -> Prop.
  Hypothesis req_equiv : Equivalence req.
  Hypothesis add_proper : Proper (req ==> req ==> req) (add N).
  Hypothesis mul_proper : Proper (req ==> req ==> req) (mul N).
  Hypothesis SRth : semi_ring_theory (zero N) (one N) (add N) (mul N) req.

  Add Ring NumSR2 : SRth (setoid req_equiv (@mk_seqe F (add N) (mul N) req add_proper mul_proper)).

  Infix "==" := req (at level 70, no associativity).
  Notation "a [+] b" := (add N a b) (at level 50, left associativity).
  Notation "a [*] b" := (mul N a b) (at level 40, left associativity).
  Notation sumR := (sumR N).

  Lemma sumR_ext' n f h : (forall m, m < n -> f m == h m) -> sumR n f == sumR n h.
  Proof. apply (sumR_ext N req req_equiv add_proper). Qed.

  Lemma sumR_scale_r n f c : sumR n f [*] c == sumR n (fun i => f i [*] c).
  Proof.
    induction n; cbn [Btb.sumR]; [ring|]. rewrite <- IHn. ring.
  Qed.

  Lemma sumR_scale_l n f c : c [*] sumR n f == sumR n (fun i => c [*] f i).
  Proof.
    induction n; cbn [Btb.sumR]; [ring|]. rewrite <- IHn. ring.
  Qed.

  Lemma decode P Q a b c d : a < P -> b < P -> c < Q -> d < Q ->
    let flat := (a * Q + c) * (P * Q) + (b * Q + d) in
    flat mod Q = d /\ (flat / Q) mod P = b /\ (flat / (Q * P)) mod Q = c /\ flat / (Q * P * Q) = a.
  Proof.
    intros Ha Hb Hc Hd flat.
    assert (E1 : flat = ((a * Q + c) * P + b) * Q + d) by (unfold flat; lia).
    assert (D1 : flat / Q = (a * Q + c) * P + b).
    { rewrite E1. symmetry. apply (Nat.div_unique _ Q _ d); [lia|lia]. }
    assert (D2 : flat / (Q * P) = a * Q + c).
    { rewrite <- Nat.div_div by lia. rewrite D1. symmetry. apply (Nat.div_unique _ P _ b); [lia|lia]. }
    assert (D3 : flat / (Q * P * Q) = a).
    { rewrite <- Nat.div_div by nia. rewrite D2. symmetry. apply (Nat.div_unique _ Q _ c); [lia|lia]. }
    split; [|split; [|split]].
    - rewrite E1. symmetry. apply (Nat.mod_unique _ Q ((a * Q + c) * P + b) d); [lia|lia].
    - rewrite D1. symmetry. apply (Nat.mod_unique _ P (a * Q + c) b); [lia|lia].
    - rewrite D2. symmetry. apply (Nat.mod_unique _ Q a c); [lia|lia].
    - exact D3.
  Qed.

  Lemma face_at P B i a b : b < P -> face N P B i (a * P + b) = B i a [*] B i b.
  Proof.
    intros Hb. unfold face.
    replace ((a * P + b) / P) with a by (apply (Nat.div_unique _ P a b); [lia|lia]).
    replace ((a * P + b) mod P) with b by (apply (Nat.mod_unique _ P a b); [lia|lia]).
    reflexivity.
  Qed.

  (* every entry of F is the entry of (B_r (x) B_c)' diag(vec W) (B_r (x) B_c) *)
  Theorem make_btwb_kron M Nn P Q (Br W Bc : mat N) a b c d :
    a < P -> b < P -> c < Q -> d < Q ->
    make_btwb N M Nn P Q Br W Bc (a * Q + c) (b * Q + d) ==
    sumR Nn (fun j => sumR M (fun i => (W i j [*] (Br i a [*] Bc j c)) [*] (Br i b [*] Bc j d))).
  Proof.
    intros Ha Hb Hc Hd. unfold make_btwb, reshape_transpose.
    destruct (decode P Q a b c d Ha Hb Hc Hd) as (E1 & E2 & E3 & E4). cbv zeta in E1, E2, E3, E4.
    rewrite E1, E2, E3, E4. unfold gwg.
    apply sumR_ext'. intros j Hj.
    rewrite sumR_scale_r. apply sumR_ext'. intros i Hi. rewrite !face_at by assumption. ring.
  Qed.

  (* separable weights: the 2-D matrix is the Kronecker product of the two weighted 1-D matrices;
     constant weights w are the case u = w, v = 1: F = w * (B_r'B_r (x) B_c'B_c), NOT B_r'B_r (x) B_c'B_c *)
  Theorem make_btwb_separable M Nn P Q (Br W Bc : mat N) (u v : nat -> F) a b c d :
    a < P -> b < P -> c < Q -> d < Q ->
    (forall i j, i < M -> j < Nn -> W i j == u i [*] v j) ->
    make_btwb N M Nn P Q Br W Bc (a * Q + c) (b * Q + d) ==
    sumR M (fun i => (u i [*] Br i a) [*] Br i b) [*] sumR Nn (fun j => (v j [*] Bc j c) [*] Bc j d).
  Proof.
    intros Ha Hb Hc Hd HW. rewrite make_btwb_kron by assumption.
    rewrite sumR_scale_l. apply sumR_ext'. intros j Hj.
    rewrite sumR_scale_r. apply sumR_ext'. intros i Hi. rewrite (HW i j Hi Hj). ring.
  Qed.
End Proofs2D.

(* integer matrices from row lists, for the exact correspondence with the implementation *)
From Coq Require Import ZArith.
Definition of_rows (rows : list (list Z)) : mat Num_Z := fun i j => nth j (nth i rows []) 0%Z.
Definition tab2 (n m : nat) (A : mat Num_Z) : list (list Z) :=
  map (fun r => map (fun s => A r s) (seq 0 m)) (seq 0 n).
