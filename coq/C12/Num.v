(* Abstract number interface for the spline kernels of pybaselines/_spline_utils.py (device 1:
   ONE Gallina model, several arithmetics).  [Num_F] = primitive binary64 floats (evaluated bit-for-bit
   against the implementation), [Num_Q] = rationals (what the order/field theorems are proved about),
   [Num_Z] = integers (non-vacuity of the commutative-ring theorem). *)
From Coq Require Import PrimFloat QArith ZArith List Bool.
From Coq Require Uint63.

Record Num := {
  T : Type;
  add : T -> T -> T; sub : T -> T -> T; mul : T -> T -> T; div : T -> T -> T;
  ltb : T -> T -> bool;      (* a < b  *)
  leb : T -> T -> bool;      (* a <= b *)
  eqb : T -> T -> bool;      (* a == b *)
  zero : T; one : T;
  of_nat : nat -> T          (* int -> float conversion (only used for the garbage that
                                `temp = work + spline_degree + 1` initially holds) *)
}.

Definition Num_F : Num := {|
  T := float;
  add := PrimFloat.add; sub := PrimFloat.sub; mul := PrimFloat.mul; div := PrimFloat.div;
  ltb := PrimFloat.ltb; leb := PrimFloat.leb; eqb := PrimFloat.eqb;
  zero := 0%float; one := 1%float;
  of_nat := fun n => PrimFloat.of_uint63 (Uint63.of_Z (Z.of_nat n))
|}.

Definition Num_Q : Num := {|
  T := Q;
  add := Qplus; sub := Qminus; mul := Qmult; div := Qdiv;
  ltb := fun a b => negb (Qle_bool b a); leb := Qle_bool; eqb := Qeq_bool;
  zero := 0%Q; one := 1%Q;
  of_nat := fun n => inject_Z (Z.of_nat n)
|}.

Definition Num_Z : Num := {|
  T := Z;
  add := Z.add; sub := Z.sub; mul := Z.mul; div := Z.div;
  ltb := Z.ltb; leb := Z.leb; eqb := Z.eqb;
  zero := 0%Z; one := 1%Z;
  of_nat := Z.of_nat
|}.

(* bit equality of floats: distinguishes +0/-0, identifies NaNs *)
Definition feqb (x y : float) : bool :=
  match PrimFloat.compare x y with
  | FEq => if PrimFloat.eqb x 0%float
           then Bool.eqb (PrimFloat.ltb (PrimFloat.div 1%float x) 0%float) (PrimFloat.ltb (PrimFloat.div 1%float y) 0%float)
           else true
  | FNotComparable => negb (PrimFloat.eqb x x) && negb (PrimFloat.eqb y y)
  | _ => false
  end.

Fixpoint fl_eqb (x y : list float) : bool :=
  match x, y with
  | nil, nil => true
  | cons a x', cons b y' => feqb a b && fl_eqb x' y'
  | _, _ => false
  end.

Fixpoint nl_eqb (x y : list nat) : bool :=
  match x, y with
  | nil, nil => true
  | cons a x', cons b y' => Nat.eqb a b && nl_eqb x' y'
  | _, _ => false
  end.

Fixpoint fll_eqb (x y : list (list float)) : bool :=
  match x, y with
  | nil, nil => true
  | cons a x', cons b y' => fl_eqb a b && fll_eqb x' y'
  | _, _ => false
  end.
