(* The Python iteration loop of a registered method, parameterised by the SYNTACTIC facts that
   tools/gen_loops.py extracts from the source (coq/gen/GenLoops.v):

       tol_history = np.empty(max_iter + l_alloc)
       for i in range(l_start, max_iter + l_stop):
           baseline = solve(...); new_weights, exit_early = reweight(...)
           [if exit_early: i -= l_decr; break]                 (present iff l_early)
           tol_history[i + l_store] = diff(...)
           if diff < tol: break
           weights = new_weights
       return baseline, weights, tol_history[:i + l_slice]

   with NumPy semantics for the scalar store (IndexError outside -n <= idx < n, negative indices
   wrap) and Python semantics for the prefix slice (clamped).  Entries of np.empty that were never
   written are [None] (garbage).  An empty range leaves `i` unbound: [None] (UnboundLocalError).
   Models only; the refinement to lib/Loop.v is proved in C01/PyLoopProofs.v. *)
From Coq Require Import ZArith List Bool.
From PB Require Import lib.PySlice lib.Loop.
Import ListNotations.
Open Scope Z_scope.

Record ldesc := { l_start : Z; l_stop : Z; l_alloc : Z; l_store : Z; l_slice : Z;
                  l_early : bool; l_decr : Z }.

Fixpoint upd {A : Type} (l : list A) (n : nat) (v : A) : list A :=
  match l, n with
  | [], _ => []
  | _ :: t, O => v :: t
  | x :: t, S n' => x :: upd t n' v
  end.

Section Py.
  Variables (W B D : Type).
  Variable solve : nat -> W -> B.
  Variable reweight : nat -> B -> W -> W * bool.
  Variable diff : nat -> W -> W -> B -> D.
  Variable below : D -> bool.
  Variable l : ldesc.
  Variable m : Z.                                   (* max_iter *)

  Definition alloc_len : nat := Z.to_nat (m + l_alloc l).
  Definition budget : nat := Z.to_nat (m + l_stop l - l_start l).

  (* tol_history[idx] = v *)
  Definition store (a : list (option D)) (idx : Z) (v : D) : option (list (option D)) :=
    let n := Z.of_nat (length a) in
    if idx_ok n idx then Some (upd a (Z.to_nat (pos n idx)) (Some v)) else None.

  (* tol_history[:stop] *)
  Definition prefix (a : list (option D)) (stop : Z) : list (option D) :=
    firstn (Z.to_nat (clamp (Z.of_nat (length a)) stop)) a.

  Record pyres := { p_base : B; p_state : W; p_i : Z; p_arr : list (option D); p_reason : reason }.

  (* pass number k (0-based) runs with the loop variable i = l_start + k *)
  Fixpoint pygo (fuel k : nat) (w : W) (a : list (option D)) : option pyres :=
    match fuel with
    | O => None
    | S f =>
        let i := l_start l + Z.of_nat k in
        let b := solve k w in
        let '(w', e) := reweight k b w in
        if l_early l && e
        then Some {| p_base := b; p_state := w; p_i := i - l_decr l; p_arr := a; p_reason := EarlyExit |}
        else
          let d := diff k w w' b in
          match store a (i + l_store l) d with
          | None => None                                           (* IndexError *)
          | Some a' =>
              if below d
              then Some {| p_base := b; p_state := w; p_i := i; p_arr := a'; p_reason := Converged |}
              else match f with
                   | O => Some {| p_base := b; p_state := w'; p_i := i; p_arr := a'; p_reason := Exhausted |}
                   | S _ => pygo f (S k) w' a'
                   end
          end
    end.

  (* what the method returns: (baseline, weights, params['tol_history'], why it stopped) *)
  Definition pyloop (w0 : W) : option (B * W * list (option D) * reason) :=
    match pygo budget 0 w0 (repeat None alloc_len) with
    | None => None
    | Some r => Some (p_base r, p_state r, prefix (p_arr r) (p_i r + l_slice l), p_reason r)
    end.
End Py.

(* the syntactic conditions under which the Python loop IS the skeleton of lib/Loop.v *)
Definition loop_ok (l : ldesc) : bool :=
  (0 <=? l_start l)
  && (l_start l + l_store l =? 0)            (* first pass writes entry 0, consecutive afterwards *)
  && (l_slice l =? l_store l + 1)            (* the returned prefix ends at the last written entry *)
  && (l_stop l - l_start l <=? l_alloc l)    (* every store is inside the allocation *)
  && (negb (l_early l) || (l_decr l =? 1)).  (* early exit discards the unfinished pass *)

(* "at most max_iter + 1 entries" *)
Definition bound_ok (l : ldesc) : bool := l_stop l - l_start l <=? 1.

From Coq Require Import String.
(* methods whose record is two-dimensional (nested loops): not instances of this skeleton *)
Definition expected_nested : list string :=
  ["whittaker.brpls"; "spline.pspline_brpls"; "polynomial.goldindec";
   "two_d.whittaker.brpls"; "two_d.spline.pspline_brpls"]%string.
