(* Proofs about C01/AxisOrder.v: rebuilding the caller's axis values with the INVERTED order is right
   for every axis; rebuilding with the FORWARD order is right exactly when the sorting permutation is
   an involution (sorted, fully reversed, ... axes), and then the inner fitters sort the data by the
   inverse of the right permutation. *)
From Coq Require Import ZArith List Bool Arith Lia Permutation Sorted.
From PB Require Import lib.Perm lib.PermProofs C01.AxisOrder.
Import ListNotations.

(* stored[inverted_order] is the user's array, for every permutation and every array *)
Lemma rebuild_inverted_is_user {A} (d : A) (x : list A) (s : list nat) (n : nat) :
  is_perm s n -> length x = n -> gather d (gather d x s) (inverted_sort s) = x.
Proof. intros Hs L. apply gather_inverse with n; auto. Qed.

(* composing two index arrays *)
Lemma forward_as_square {A} (d : A) (x : list A) (s : list nat) (n : nat) :
  is_perm s n -> gather d (gather d x s) s = gather d x (gather 0 s s).
Proof.
  intro Hs. apply gather_gather. intros i Hi.
  rewrite (is_perm_length _ _ Hs). eapply is_perm_lt; eauto.
Qed.

(* stored[sort_order] is the user's array iff sort_order is its own inverse (distinct values) *)
Lemma rebuild_forward_iff_involution {A} (d : A) (x : list A) (s : list nat) (n : nat) :
  NoDup x -> is_perm s n -> length x = n ->
  (gather d (gather d x s) s = x <-> gather 0 s s = seq 0 n).
Proof.
  intros ND Hs L. rewrite (forward_as_square d x s n Hs). split.
  - intro E. rewrite <- (gather_seq d x) in E at 2. rewrite L in E. unfold gather at 1 3 in E.
    apply map_inj_in in E; auto.
    intros a b Ha Hb Hab. rewrite (NoDup_nth x d) in ND. apply ND; auto.
    + rewrite L. eapply is_perm_lt; [apply (gather_perm s s n Hs Hs)|]; auto.
    + apply in_seq in Hb. lia.
  - intro E. rewrite E, <- L. apply gather_seq.
Qed.

Lemma rebuild_forward_wrong {A} (d : A) (x : list A) (s : list nat) (n : nat) :
  NoDup x -> is_perm s n -> length x = n -> gather 0 s s <> seq 0 n ->
  gather d (gather d x s) s <> x.
Proof. intros ND Hs L Hn E. apply Hn. apply (rebuild_forward_iff_involution d x s n); auto. Qed.

(* ---- the model of individual_axes *)
Lemma axis_values_inverted x : axis_values_with (rebuild_inverted 0%Z) x = x.
Proof.
  unfold axis_values_with, stored_axis, determine_sorts.
  destruct (incr (argsort x)); auto.
  unfold rebuild_inverted. apply rebuild_inverted_is_user with (length x); auto. apply argsort_perm.
Qed.

(* for ALL axis values (any length, ties allowed) the inner fitters get the caller's x and z *)
Lemma individual_axes_values_user x z : exists b, individual_axes_values x z = (x, z, b).
Proof.
  unfold individual_axes_values, axes_with. rewrite !axis_values_inverted. eexists; reflexivity.
Qed.

(* assume_sorted=True is passed only when both axes are sorted (their stable argsort is the identity) *)
Lemma individual_axes_assume_sorted x z :
  snd (individual_axes_values x z) = true -> argsort x = seq 0 (length x) /\ argsort z = seq 0 (length z).
Proof.
  unfold individual_axes_values, axes_with, determine_sorts. cbn [snd].
  destruct (incr (argsort x)) eqn:Ix, (incr (argsort z)) eqn:Iz; try discriminate. intros _.
  split; apply incr_identity; auto; apply argsort_perm.
Qed.

(* hence the inner fitter sorts the user-ordered rows/columns by the same permutation the 2-D
   wrapper would have used *)
Lemma inner_order_inverted x z :
  inner_sort_order (fst (fst (individual_axes_values x z))) = argsort x /\
  inner_sort_order (snd (fst (individual_axes_values x z))) = argsort z.
Proof. destruct (individual_axes_values_user x z) as [b ->]. split; reflexivity. Qed.

(* ---- the forward variant *)
Lemma NoDup_gather_perm x s : NoDup x -> is_perm s (length x) -> NoDup (gather 0%Z x s).
Proof.
  intros ND Hs. apply (Permutation_NoDup (l := x)); auto.
  rewrite <- (gather_seq 0%Z x) at 1. unfold gather. apply Permutation_map. apply Permutation_sym. exact Hs.
Qed.

Lemma argsort_of_sorted x : NoDup x -> argsort (gather 0%Z x (argsort x)) = seq 0 (length x).
Proof.
  intro ND. set (xs := gather 0%Z x (argsort x)).
  assert (Lxs : length xs = length x).
  { unfold xs. rewrite gather_length. apply is_perm_length. apply argsort_perm. }
  symmetry. rewrite <- Lxs. apply argsort_unique.
  - apply NoDup_gather_perm; auto. apply argsort_perm.
  - apply Permutation_refl.
  - rewrite gather_seq. apply argsort_sorted.
Qed.

(* with the forward rebuild the inner fitter sorts the user-ordered data by the INVERSE of the
   sorting permutation:  argsort(x_sorted[sort_order]) = inverted_order  (distinct values) *)
Lemma inner_order_forward x : NoDup x ->
  inner_sort_order (gather 0%Z (gather 0%Z x (argsort x)) (argsort x)) = inverted_sort (argsort x).
Proof.
  intro ND. unfold inner_sort_order.
  set (s := argsort x). set (xs := gather 0%Z x s). set (n := length x).
  assert (Hs : is_perm s n) by apply argsort_perm.
  assert (Lxs : length xs = n). { unfold xs. rewrite gather_length. eapply is_perm_length; eauto. }
  assert (NDxs : NoDup xs) by (apply NoDup_gather_perm; auto).
  set (q := argsort (gather 0%Z xs s)).
  assert (Hq : is_perm q n).
  { unfold q. replace n with (length (gather 0%Z xs s)); [apply argsort_perm|].
    rewrite gather_length. eapply is_perm_length; eauto. }
  assert (E : gather 0 s q = seq 0 n).
  { unfold q. rewrite (argsort_equivariant xs s NDxs); [|rewrite Lxs; auto].
    unfold xs, s, n. apply argsort_of_sorted; auto. }
  assert (Es : s = inverted_sort q).
  { apply inverse_unique with n; auto; [eapply is_perm_length; eauto|].
    intros k Hk. pose proof (is_perm_length _ _ Hq) as Lq.
    rewrite <- (nth_gather 0 s q k) by lia. rewrite E. rewrite seq_nth; auto. }
  rewrite Es. rewrite (inverted_sort_involutive q n); auto.
Qed.

(* concrete witness: an axis rotated by one position (3 values) *)
Lemma forward_differs_example :
  individual_axes_values_forward [2; 3; 1]%Z [1; 2]%Z = ([3; 1; 2]%Z, [1; 2]%Z, false) /\
  individual_axes_values [2; 3; 1]%Z [1; 2]%Z = ([2; 3; 1]%Z, [1; 2]%Z, false).
Proof. vm_compute. split; reflexivity. Qed.
