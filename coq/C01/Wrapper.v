(* Shape decisions of pybaselines._validation._check_array as used by the 1-D and 2-D wrappers
   (_Algorithm._register.inner: ensure_1d=True;  _Algorithm2D._register.inner: two_d=True, ensure_2d=True). *)
From Coq Require Import ZArith List Bool Lia ZifyBool.
Import ListNotations.
Open Scope Z_scope.

Inductive res := Ok (s : list Z) | TypeErr | ValueErr.

Definition has1 (s : list Z) : bool := existsb (Z.eqb 1) s.

(* ensure_1d=True *)
Definition check_array_1d (s : list Z) : res :=
  match s with
  | [] => TypeErr
  | [_] => Ok s
  | [a; b] => if has1 s then Ok [a * b] else ValueErr
  | _ => ValueErr
  end.

(* ensure_1d=False, two_d=True, ensure_2d=True *)
Definition check_array_2d (s : list Z) : res :=
  match s with
  | [] => TypeErr
  | [_] => ValueErr
  | [_; _] => if has1 s then ValueErr else Ok s
  | [_; _; _] => if has1 s then Ok (filter (fun d => negb (d =? 1)) s) else ValueErr
  | _ => ValueErr
  end.

(* ensure_1d=False, two_d=True, ensure_2d=False : stacks for collab_pls keep their shape *)
Definition check_array_2d_stack (s : list Z) : res :=
  match s with
  | [] => TypeErr
  | [_] => ValueErr
  | [_; _] => if has1 s then ValueErr else Ok s
  | _ => Ok s
  end.

(* _check_sized_array(..., axis=-1) on the 1-D result *)
Definition sized_1d (s : list Z) (len : Z) : res :=
  match check_array_1d s with
  | Ok [n] => if n =? len then Ok [n] else ValueErr
  | r => r
  end.
