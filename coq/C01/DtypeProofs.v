(* Proofs about C01/Dtype.v: the wrappers return the documented dtype for every flag combination and
   every entry path. *)
From Coq Require Import List Bool.
From PB Require Import C01.Dtype.
Import ListNotations.

Lemma dt_eqb_eq a b : dt_eqb a b = true <-> a = b.
Proof. split; [destruct a, b; simpl; intro H; try reflexivity; discriminate | intros ->; destruct b; reflexivity]. Qed.

(* the raising condition as one boolean *)
Definition raises (f : flags) (i : input) : bool :=
  match i with NoData => two_d f || generates (entry f) | _ => false end.

Lemma inner_gen_raises c h f out i bd pd : inner_gen c h f out i bd pd = None <-> raises f i = true.
Proof.
  unfold inner_gen, raises.
  destruct i; rewrite ?andb_false_r; cbn [orb]; try (split; discriminate).
  rewrite !andb_true_r. destruct (two_d f), (generates (entry f)); cbn; split; try discriminate; auto.
Qed.

(* data=None raises in 2-D, and in 1-D when the object has no x yet *)
Lemma inner_raises f out i bd pd :
  inner f out i bd pd = None <-> (i = NoData /\ (two_d f = true \/ generates (entry f) = true)).
Proof.
  unfold inner. rewrite inner_gen_raises. unfold raises. destruct i; try (split; [discriminate | intros [? _]; discriminate]).
  rewrite orb_true_iff. tauto.
Qed.

(* the returned dtype is the documented one; the method body always gets float64; params keep their dtype *)
Lemma inner_rule f out i bd pd r :
  inner f out i bd pd = Some r ->
  r_ret r = documented (eff_out (entry f) out) i bd /\ r_received r = F64 /\ r_params r = pd.
Proof.
  unfold inner, inner_gen, documented, asarray, fancy_index, reshape.
  match goal with |- (if ?c then _ else _) = _ -> _ => destruct c end; [discriminate|].
  intros [= <-]. cbn [r_ret r_received r_params andb].
  split; [|split].
  - destruct (eff_out (entry f) out); [reflexivity|].
    destruct (infer i); cbn [option_map];
      destruct (flat_layout f), (skip_sorting f), (unsorted f), (reshape_out f); reflexivity.
  - reflexivity.
  - destruct (reshape_out f), (unsorted f); reflexivity.
Qed.

(* the result does not depend on sortedness, skip_sorting, layout, stacking, reshape flags, check_finite or
   the entry path -- beyond whether data=None is accepted and which output_dtype is in force *)
Lemma inner_flag_independent f g out out' i bd pd :
  raises f i = raises g i -> eff_out (entry f) out = eff_out (entry g) out' ->
  inner f out i bd pd = inner g out' i bd pd.
Proof.
  intros E O. destruct (inner f out i bd pd) as [r|] eqn:Hf, (inner g out' i bd pd) as [s|] eqn:Hg.
  - destruct (inner_rule _ _ _ _ _ _ Hf) as (A & B & C), (inner_rule _ _ _ _ _ _ Hg) as (A' & B' & C').
    destruct r, s; cbn in *. rewrite O in A. congruence.
  - unfold inner in Hg. rewrite inner_gen_raises in Hg. rewrite <- E in Hg.
    rewrite <- (inner_gen_raises false false f out i bd pd) in Hg. unfold inner in Hf. congruence.
  - unfold inner in Hf. rewrite inner_gen_raises in Hf. rewrite E in Hf.
    rewrite <- (inner_gen_raises false false g out' i bd pd) in Hf. unfold inner in Hg. congruence.
  - reflexivity.
Qed.

(* in particular: with data given, the same output_dtype and the class interface, the entry path (object with axes,
   first call without axes, later call) is irrelevant; and every entry path agrees when output_dtype is None *)
Lemma inner_entry_independent f g i bd pd :
  i <> NoData -> inner f None i bd pd = inner g None i bd pd.
Proof.
  intro Hi. apply inner_flag_independent.
  - unfold raises. destruct i; congruence.
  - destruct (entry f), (entry g); reflexivity.
Qed.

(* casting to float before the dtype is recorded returns float64 whenever no output_dtype is in force *)
Lemma cast_first_rule f out i bd pd r :
  inner_cast_first f out i bd pd = Some r -> eff_out (entry f) out = None -> i <> NoData -> r_ret r = F64.
Proof.
  unfold inner_cast_first, inner_gen, asarray.
  match goal with |- (if ?c then _ else _) = _ -> _ => destruct c end; [discriminate|].
  intros [= <-] -> Hi. cbn [r_ret andb]. destruct i; try congruence; reflexivity.
Qed.

Lemma cast_first_differs f d bd pd :
  d <> F64 -> exists r s, inner f None (Arr d) bd pd = Some r /\ inner_cast_first f None (Arr d) bd pd = Some s /\
                          r_ret r = d /\ r_ret s = F64.
Proof.
  intro Hd.
  destruct (inner f None (Arr d) bd pd) as [r|] eqn:Hr.
  2:{ apply inner_raises in Hr. destruct Hr; discriminate. }
  destruct (inner_cast_first f None (Arr d) bd pd) as [s|] eqn:Hs.
  2:{ unfold inner_cast_first in Hs. rewrite inner_gen_raises in Hs. discriminate. }
  exists r, s. repeat split; auto.
  - apply inner_rule in Hr. destruct Hr as [-> _]. destruct (entry f); reflexivity.
  - apply (cast_first_rule f None (Arr d) bd pd); auto; [destruct (entry f); reflexivity | discriminate].
Qed.

(* the axis-generating helper casting y to float64: wrong exactly on the paths where the helper generates the
   axes (first call of an object without axes, functional call without x_data) ... *)
Lemma helper_casts_differs f d bd pd :
  generates (entry f) = true -> d <> F64 ->
  exists r s, inner f None (Arr d) bd pd = Some r /\ inner_helper_casts f None (Arr d) bd pd = Some s /\
              r_ret r = d /\ r_ret s = F64.
Proof.
  intros G Hd.
  destruct (inner f None (Arr d) bd pd) as [r|] eqn:Hr.
  2:{ apply inner_raises in Hr. destruct Hr; discriminate. }
  exists r. unfold inner_helper_casts, inner_gen. rewrite G. cbn [andb orb option_map infer].
  rewrite !andb_false_r. cbn [orb]. eexists. split; [reflexivity|split; [reflexivity|]].
  split.
  - apply inner_rule in Hr. destruct Hr as [-> _]. destruct (entry f); reflexivity.
  - cbn [r_ret]. destruct (entry f); try discriminate; cbn [eff_out asarray];
      destruct (flat_layout f), (skip_sorting f), (unsorted f), (reshape_out f); reflexivity.
Qed.

(* ... and invisible on every other path (object with axes, later calls, functional call with x_data) *)
Lemma helper_casts_same f out i bd pd :
  generates (entry f) = false -> inner_helper_casts f out i bd pd = inner f out i bd pd.
Proof. intro G. unfold inner_helper_casts, inner, inner_gen. rewrite G. reflexivity. Qed.
