From Coq Require Import ZArith List Bool Lia ZifyBool.
From PB Require Import C01.Wrapper.
Import ListNotations.
Open Scope Z_scope.

Lemma shape_1d s s' : check_array_1d s = Ok s' ->
  exists n, s' = [n] /\ (s = [n] \/ s = [n; 1] \/ s = [1; n]).
Proof.
  destruct s as [|a [|b [|c l]]]; cbn [check_array_1d]; try discriminate.
  - intros [= <-]. exists a. tauto.
  - unfold has1; cbn [existsb]. destruct (1 =? a) eqn:Ha, (1 =? b) eqn:Hb; cbn [orb]; try discriminate;
      intros [= <-]; exists (a * b); (split; [reflexivity|]).
    + right; right. f_equal; [lia|f_equal; lia].
    + right; right. f_equal; [lia|f_equal; lia].
    + right; left. f_equal; [lia|f_equal; lia].
Qed.

Lemma shape_1d_accepts n : 0 <= n ->
  check_array_1d [n] = Ok [n] /\ check_array_1d [n; 1] = Ok [n] /\ check_array_1d [1; n] = Ok [n].
Proof.
  intros Hn. cbn [check_array_1d]. unfold has1; cbn [existsb].
  rewrite Z.eqb_refl, orb_true_r. cbn [orb]. repeat split; f_equal; f_equal; lia.
Qed.

Lemma sized_1d_ok s len s' : sized_1d s len = Ok s' -> s' = [len].
Proof.
  unfold sized_1d. destruct (check_array_1d s) as [r| |] eqn:Hc; try discriminate.
  destruct (shape_1d _ _ Hc) as (n & -> & _). destruct (n =? len) eqn:Hn; [|discriminate].
  intros [= <-]. f_equal. lia.
Qed.

(* accepted 2-D inputs: an (M,N) array without unit axes comes back unchanged; a 3-D array with
   EXACTLY ONE unit axis -- (M,N,1), (M,1,N), (1,M,N) -- comes back as (M,N) *)
Lemma shape_2d s s' : check_array_2d s = Ok s' ->
  (exists m n, s = [m; n] /\ s' = [m; n] /\ m <> 1 /\ n <> 1) \/
  (exists a b c, s = [a; b; c] /\ s' = filter (fun d => negb (d =? 1)) s /\ (a = 1 \/ b = 1 \/ c = 1)).
Proof.
  destruct s as [|a [|b [|c [|d l]]]]; cbn [check_array_2d]; try discriminate.
  - unfold has1; cbn [existsb]. destruct (1 =? a) eqn:?, (1 =? b) eqn:?; cbn [orb]; try discriminate.
    intros [= <-]. left. exists a, b. repeat split; lia.
  - unfold has1; cbn [existsb]. destruct (1 =? a) eqn:?, (1 =? b) eqn:?, (1 =? c) eqn:?; cbn [orb];
      try discriminate; intros [= <-]; right; exists a, b, c; (split; [reflexivity|split; [reflexivity|lia]]).
Qed.

Lemma shape_2d_one_unit_axis m n : m <> 1 -> n <> 1 ->
  check_array_2d [m; n; 1] = Ok [m; n] /\ check_array_2d [m; 1; n] = Ok [m; n] /\
  check_array_2d [1; m; n] = Ok [m; n] /\ check_array_2d [m; n] = Ok [m; n].
Proof.
  intros Hm Hn. cbn [check_array_2d]. unfold has1; cbn [existsb filter].
  replace (1 =? m) with false by lia. replace (1 =? n) with false by lia.
  replace (m =? 1) with false by lia. replace (n =? 1) with false by lia.
  rewrite !Z.eqb_refl. cbn [orb negb]. repeat split.
Qed.
