(* Proofs about the two-level loop of C01/Nested.v, for ALL max_iter, max_iter_2, ALL oracles and
   every descriptor that passes [nested_ok]: no store is out of bounds (the only way to fail is an
   empty range), the returned record is at most (max_iter_2 + n_arows) x (max(max_iter, max_iter_2)
   + n_acols), the slice is never clamped and cuts off no recorded value, and every returned cell
   is written or zero-initialised. *)
From Coq Require Import ZArith List Bool Lia ZifyBool.
From PB Require Import lib.PySlice C01.Nested.
Import ListNotations.
Open Scope Z_scope.

Section Proofs.
  Variables (St D : Type).
  Variable istep : nat -> nat -> St -> St * ires D.
  Variable ostep : nat -> St -> bool -> list D * bool * St.
  Variable n : ndesc.
  Variables m m2 : Z.
  Hypothesis Hok : nested_ok n = true.
  (* a method without the early-exit block never reports an early exit *)
  Hypothesis Hearly : n_early n = false -> forall i j s, snd (istep i j s) <> IEarly.

  Notation rows := (rows n m2).
  Notation cols := (cols n m m2).
  Notation obudget := (obudget n m2).
  Notation ibudget := (ibudget n m).
  Notation inner := (inner St D istep n m m2).
  Notation outer := (outer St D istep ostep n m m2).
  Notation store := (store D n m m2).
  Notation store_col := (store_col D n m m2).

  Definition er (e : Z * Z * D) : Z := fst (fst e).
  Definition ec (e : Z * Z * D) : Z := snd (fst e).

  Lemma ok_facts :
    1 <= Z.of_nat (n_orows n) /\ Z.of_nat (n_orows n) <= n_irow n /\ n_ostop n + n_irow n <= n_arows n /\
    n_istop n <= n_acols n /\ n_ostop n <= n_acols n /\ n_srow n = n_irow n + 1 /\ n_scol n = 1 /\
    (n_early n = true -> n_decr n = 1) /\ (n_early n = true -> n_force n = true) /\ n_zeros n = true.
  Proof.
    clear Hearly. unfold nested_ok in Hok.
    repeat (apply andb_true_iff in Hok; destruct Hok as [Hok ?]).
    repeat split; try lia.
  Qed.

  Lemma obudget_lt i : (i < obudget)%nat -> Z.of_nat i <= m2 + n_ostop n - 1.
  Proof. unfold Nested.obudget. lia. Qed.
  Lemma ibudget_lt j : (j < ibudget)%nat -> Z.of_nat j <= m + n_istop n - 1.
  Proof. unfold Nested.ibudget. lia. Qed.

  (* a store at an inner cell of a legal pass is in bounds *)
  Lemma store_inner_ok t i j v : (i < obudget)%nat -> (j < ibudget)%nat ->
    store t (Z.of_nat i + n_irow n) (Z.of_nat j) v = Some ((Z.of_nat i + n_irow n, Z.of_nat j, v) :: t).
  Proof.
    intros Hi Hj. pose proof ok_facts as (F1&F2&F3&F4&F5&_). apply obudget_lt in Hi. apply ibudget_lt in Hj.
    unfold Nested.store, Nested.rows, Nested.cols, idx_ok, pos.
    replace ((- (m2 + n_arows n) <=? Z.of_nat i + n_irow n) && (Z.of_nat i + n_irow n <? m2 + n_arows n)) with true by lia.
    replace ((- (Z.max m m2 + n_acols n) <=? Z.of_nat j) && (Z.of_nat j <? Z.max m m2 + n_acols n)) with true by lia.
    cbn [andb]. replace (Z.of_nat i + n_irow n <? 0) with false by lia. replace (Z.of_nat j <? 0) with false by lia.
    reflexivity.
  Qed.

  Lemma store_outer_ok t i k v : (i < obudget)%nat -> 0 <= k < Z.of_nat (n_orows n) ->
    store t k (Z.of_nat i) v = Some ((k, Z.of_nat i, v) :: t).
  Proof.
    intros Hi Hk. pose proof ok_facts as (F1&F2&F3&F4&F5&_). apply obudget_lt in Hi.
    unfold Nested.store, Nested.rows, Nested.cols, idx_ok, pos.
    replace ((- (m2 + n_arows n) <=? k) && (k <? m2 + n_arows n)) with true by lia.
    replace ((- (Z.max m m2 + n_acols n) <=? Z.of_nat i) && (Z.of_nat i <? Z.max m m2 + n_acols n)) with true by lia.
    cbn [andb]. replace (k <? 0) with false by lia. replace (Z.of_nat i <? 0) with false by lia.
    reflexivity.
  Qed.

  (* ---- the inner loop ---- *)
  Lemma inner_spec : forall fuel j i s t, (0 < fuel)%nat -> (j + fuel <= ibudget)%nat -> (i < obudget)%nat ->
    exists s' jf early new, inner fuel j i s t = Some (s', jf, early, new ++ t) /\
      Z.of_nat j - 1 <= jf <= Z.of_nat (j + fuel) - 1 /\
      Forall (fun e => er e = Z.of_nat i + n_irow n /\ Z.of_nat j <= ec e <= jf) new.
  Proof.
    induction fuel as [|f IH]; intros j i s t Hf Hj Hi; [lia|].
    cbn [Nested.inner]. destruct (istep i j s) as [s' r] eqn:Es. destruct r as [|d stop].
    - destruct (n_early n) eqn:He.
      + pose proof ok_facts as (_&_&_&_&_&_&_&Hd&_&_). specialize (Hd He).
        exists s', (Z.of_nat j - n_decr n), true, []. split; [reflexivity|]. split; [lia|constructor].
      + exfalso. apply (Hearly eq_refl i j s). rewrite Es. reflexivity.
    - rewrite store_inner_ok by lia.
      assert (Hnew : Forall (fun e => er e = Z.of_nat i + n_irow n /\ Z.of_nat j <= ec e <= Z.of_nat j)
                            [(Z.of_nat i + n_irow n, Z.of_nat j, d)])
        by (constructor; [unfold er, ec; cbn [fst snd]; lia|constructor]).
      destruct stop.
      + exists s', (Z.of_nat j), false, [(Z.of_nat i + n_irow n, Z.of_nat j, d)].
        split; [reflexivity|]. split; [lia|exact Hnew].
      + destruct f as [|f'].
        * exists s', (Z.of_nat j), false, [(Z.of_nat i + n_irow n, Z.of_nat j, d)].
          split; [reflexivity|]. split; [lia|exact Hnew].
        * destruct (IH (S j) i s' ((Z.of_nat i + n_irow n, Z.of_nat j, d) :: t) ltac:(lia) ltac:(lia) Hi)
            as (s2 & jf & early & new & E & Hb & Hn).
          exists s2, jf, early, (new ++ [(Z.of_nat i + n_irow n, Z.of_nat j, d)]).
          split; [rewrite <- app_assoc; exact E|]. split; [lia|].
          apply Forall_app. split.
          -- eapply Forall_impl; [|exact Hn]. intros e (A & B). split; [exact A|lia].
          -- constructor; [unfold er, ec; cbn [fst snd]; lia|constructor].
  Qed.

  Lemma inner_empty j i s t : inner 0 j i s t = None.
  Proof. reflexivity. Qed.

  (* ---- the stores of the outer part ---- *)
  Lemma store_col_spec i : (i < obudget)%nat -> forall vs k t, 0 <= k -> k + Z.of_nat (length vs) <= Z.of_nat (n_orows n) ->
    exists new, store_col t k vs (Z.of_nat i) = Some (new ++ t) /\
      Forall (fun e => k <= er e < k + Z.of_nat (length vs) /\ ec e = Z.of_nat i) new.
  Proof.
    intros Hi. induction vs as [|v vs IH]; intros k t Hk Hl.
    - exists []. split; [reflexivity|constructor].
    - cbn [Nested.store_col length] in *. rewrite store_outer_ok by lia.
      destruct (IH (k + 1) ((k, Z.of_nat i, v) :: t) ltac:(lia) ltac:(lia)) as (new & E & Hn).
      exists (new ++ [(k, Z.of_nat i, v)]). split; [rewrite <- app_assoc; exact E|].
      apply Forall_app. split.
      + eapply Forall_impl; [|exact Hn]. intros e (A & B). split; [lia|exact B].
      + constructor; [unfold er, ec; cbn [fst snd]; lia|constructor].
  Qed.

  (* ---- the outer loop ---- *)
  (* cells written before outer pass i *)
  Definition cell_before (i : nat) (jmax : Z) (e : Z * Z * D) : Prop :=
    (0 <= er e < Z.of_nat (n_orows n) /\ 0 <= ec e < Z.of_nat i) \/
    (n_irow n <= er e < Z.of_nat i + n_irow n /\ 0 <= ec e <= jmax).
  (* cells written when the loop ended in outer pass i *)
  Definition cell_final (i : nat) (jmax : Z) (e : Z * Z * D) : Prop :=
    (0 <= er e < Z.of_nat (n_orows n) /\ 0 <= ec e <= Z.of_nat i) \/
    (n_irow n <= er e <= Z.of_nat i + n_irow n /\ 0 <= ec e <= jmax).

  Definition FInv (x : nres St D) : Prop :=
    (x_i x < obudget)%nat /\ 0 <= x_jmax x <= Z.of_nat ibudget - 1 /\ x_passes x = S (x_i x) /\
    Forall (cell_final (x_i x) (x_jmax x)) (x_tab x).

  Lemma outer_spec : forall fuel i s jmax t, (0 < fuel)%nat -> (i + fuel <= obudget)%nat -> (0 < ibudget)%nat ->
    0 <= jmax <= Z.of_nat ibudget - 1 -> Forall (cell_before i jmax) t ->
    exists x, outer fuel i s jmax t = Some x /\ FInv x /\ (i <= x_i x < i + fuel)%nat.
  Proof.
    induction fuel as [|f IH]; intros i s jmax t Hf Hi HI Hj Ht; [lia|].
    cbn [Nested.outer].
    destruct (inner_spec ibudget 0 i s t HI ltac:(lia) ltac:(lia)) as (s1 & jf & early & new & E & Hb & Hn).
    rewrite E. destruct (ostep i s1 early) as [[recs stop0] s2]. set (stop := stop0 || (n_force n && early)). clearbody stop.
    assert (Hlen : Z.of_nat (length (firstn (n_orows n) recs)) <= Z.of_nat (n_orows n))
      by (pose proof (firstn_le_length (n_orows n) recs); lia).
    destruct (store_col_spec i ltac:(lia) (firstn (n_orows n) recs) 0 (new ++ t) ltac:(lia) ltac:(lia))
      as (onew & Eo & Ho).
    rewrite Eo. set (jmax' := Z.max jf jmax).
    pose proof ok_facts as (F1&F2&_).
    assert (Hcells : Forall (cell_final i jmax') (onew ++ new ++ t)).
    { apply Forall_app. split; [|apply Forall_app; split].
      - eapply Forall_impl; [|exact Ho]. intros e (A & B). left. lia.
      - eapply Forall_impl; [|exact Hn]. intros e (A & B). right. unfold jmax'. lia.
      - eapply Forall_impl; [|exact Ht]. intros e [(A & B)|(A & B)]; [left|right]; unfold jmax'; lia. }
    assert (Hjm : 0 <= jmax' <= Z.of_nat ibudget - 1) by (unfold jmax'; lia).
    assert (Hfin : FInv {| x_state := s2; x_i := i; x_jmax := jmax'; x_tab := onew ++ new ++ t; x_passes := S i |}).
    { unfold FInv; cbn [x_i x_jmax x_tab x_passes]. repeat split; try lia. exact Hcells. }
    destruct stop.
    - eexists. split; [reflexivity|]. split; [exact Hfin|cbn [x_i]; lia].
    - destruct f as [|f'].
      + eexists. split; [reflexivity|]. split; [exact Hfin|cbn [x_i]; lia].
      + destruct (IH (S i) s2 jmax' (onew ++ new ++ t) ltac:(lia) ltac:(lia) HI Hjm) as (x & Ex & Fx & Hx).
        * eapply Forall_impl; [|exact Hcells]. intros e [(A & B)|(A & B)]; [left|right]; lia.
        * exists x. split; [exact Ex|]. split; [exact Fx|lia].
  Qed.

  (* an inner early exit ends the outer loop in that very pass (tol_2 is forced to inf) *)
  Lemma early_ends_outer fuel i s jmax t s1 j t1 : n_early n = true -> (i < obudget)%nat ->
    inner ibudget 0 i s t = Some (s1, j, true, t1) ->
    exists x, outer (S fuel) i s jmax t = Some x /\ x_i x = i.
  Proof.
    intros He Hi E. cbn [Nested.outer]. rewrite E.
    pose proof ok_facts as (_&_&_&_&_&_&_&_&Hf&_). rewrite (Hf He).
    destruct (ostep i s1 true) as [[recs stop0] s2].
    assert (Hlen : Z.of_nat (length (firstn (n_orows n) recs)) <= Z.of_nat (n_orows n))
      by (pose proof (firstn_le_length (n_orows n) recs); lia).
    destruct (store_col_spec i Hi (firstn (n_orows n) recs) 0 t1 ltac:(lia) ltac:(lia)) as (onew & Eo & _).
    rewrite Eo. rewrite orb_true_r. eexists. split; [reflexivity|reflexivity].
  Qed.

  (* ---- the theorems ---- *)

  (* the call fails (UnboundLocalError) exactly when one of the two ranges is empty: no IndexError *)
  Theorem nested_none_iff s0 :
    nested St D istep ostep n m m2 s0 = None <-> (obudget = 0 \/ ibudget = 0)%nat.
  Proof.
    unfold nested. split.
    - intros H. destruct obudget as [|ob] eqn:Eo; [left; reflexivity|].
      destruct ibudget as [|ib] eqn:Ei; [right; reflexivity|]. exfalso.
      destruct (outer_spec (S ob) 0 s0 0 [] ltac:(lia) ltac:(rewrite Eo; lia) ltac:(rewrite Ei; lia)
                           ltac:(rewrite Ei; lia) ltac:(constructor)) as (x & Ex & _).
      try rewrite Eo in *. try rewrite Ei in *. congruence.
    - intros [H|H].
      + rewrite H. reflexivity.
      + destruct obudget; [reflexivity|]. cbn [Nested.outer]. rewrite H. reflexivity.
  Qed.

  Theorem nested_record s0 x : nested St D istep ostep n m m2 s0 = Some x ->
    (* the slice is not clamped *)
    ret_rows St D n m2 x = Z.of_nat (x_i x) + n_srow n /\
    ret_cols St D n m m2 x = Z.max (Z.of_nat (x_i x)) (x_jmax x) + n_scol n /\
    (* size bounds *)
    1 <= ret_rows St D n m2 x <= m2 + n_arows n /\ 1 <= ret_cols St D n m m2 x <= Z.max m m2 + n_acols n /\
    (x_passes x <= obudget)%nat /\
    (* every recorded value is inside the returned slice *)
    Forall (fun e => 0 <= er e < ret_rows St D n m2 x /\ 0 <= ec e < ret_cols St D n m m2 x) (x_tab x) /\
    (* every returned cell is a recorded value or a zero of np.zeros *)
    (forall r c, ret_cell St D n x r c <> Garbage).
  Proof.
    unfold nested. intros H.
    destruct obudget as [|ob] eqn:Eo; [discriminate|].
    destruct ibudget as [|ib] eqn:Ei; [cbn [Nested.outer] in H; rewrite Ei in H; discriminate|].
    destruct (outer_spec (S ob) 0 s0 0 [] ltac:(lia) ltac:(rewrite Eo; lia) ltac:(rewrite Ei; lia)
                         ltac:(rewrite Ei; lia) ltac:(constructor)) as (x' & Ex & Fx & Hx).
    try rewrite Eo in Ex. try rewrite Ei in Ex. rewrite Ex in H. injection H as <-.
    destruct Fx as (Hi & Hj & Hp & Hc).
    pose proof ok_facts as (F1&F2&F3&F4&F5&F6&F7&_&_&F9).
    pose proof (obudget_lt _ Hi) as Hi'.
    assert (Hjb : x_jmax x' <= m + n_istop n - 1) by (unfold Nested.ibudget in *; lia).
    assert (Hr : ret_rows St D n m2 x' = Z.of_nat (x_i x') + n_srow n).
    { unfold ret_rows, clamp, Nested.rows. destruct (Z.of_nat (x_i x') + n_srow n <? 0) eqn:?; lia. }
    assert (Hcl : ret_cols St D n m m2 x' = Z.max (Z.of_nat (x_i x')) (x_jmax x') + n_scol n).
    { unfold ret_cols, clamp, Nested.cols. destruct (Z.max (Z.of_nat (x_i x')) (x_jmax x') + n_scol n <? 0) eqn:?; lia. }
    rewrite Hr, Hcl. repeat split; try lia.
    - eapply Forall_impl; [|exact Hc]. intros e [(A & B)|(A & B)]; lia.
    - intros r c. unfold ret_cell. destruct (lookup D (x_tab x') r c); [discriminate|]. rewrite F9. discriminate.
  Qed.
End Proofs.
