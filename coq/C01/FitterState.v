(* A fitter object (Baseline / Baseline2D) as CONFIGURATION + lazily set state, and method calls as scripts.
   Models only; proofs in C01/FitterStateProofs.v.

   Configuration (written by __init__ and the property setters only -- tools/gen_c01_config.py refuses every
   other store in the package, coq/gen/GenC01Config.v lists the sites): output dtype `_dtype`, `_check_finite`,
   the banded / pentapy solver choice, the sort orders.  State (x / z / shape on the first call of an object built
   without them, validation flags, polynomial / spline caches) is not modelled beyond "something else".

   A call runs the method's script.  Scripts are built from
     Work k          a computation that may raise (validation up front, an inner fit, LAPACK ...): whether it
                     raises is decided by an arbitrary oracle  o : nat -> bool  -- the model quantifies over ALL
                     outcomes: returned, raised up front, raised deep inside an inner fit, raised after partial work
     Write a v       self.<a> = v
     Save a k / Restore a k      tmp_k = self.<a>  /  self.<a> = tmp_k
     Seq, Try body finally       sequencing (a raise skips the rest) and try/finally
   A raise propagates to the caller; the object keeps whatever was written before. *)
From Coq Require Import List Bool Arith.
From PB Require Import C01.Dtype.
Import ListNotations.

Inductive attr := ADtype | ACheckFinite | ABandedSolver | APentapySolver | ASortOrder | AInvertedOrder.

Definition attr_eqb (a b : attr) : bool :=
  match a, b with
  | ADtype, ADtype | ACheckFinite, ACheckFinite | ABandedSolver, ABandedSolver | APentapySolver, APentapySolver
  | ASortOrder, ASortOrder | AInvertedOrder, AInvertedOrder => true
  | _, _ => false
  end.

Inductive cval := VDt (d : option dt) | VBool (b : bool) | VNat (n : nat).

Definition config := attr -> cval.
Definition upd (c : config) (a : attr) (v : cval) : config := fun b => if attr_eqb a b then v else c b.

(* the object: its configuration and the method's local slots (only meaningful inside one call) *)
Record obj := { cfg : config; slots : nat -> attr -> cval }.

Inductive script :=
  | Skip
  | Work (k : nat)
  | Write (a : attr) (v : cval)
  | Save (a : attr) (k : nat)
  | Restore (a : attr) (k : nat)
  | Seq (s1 s2 : script)
  | Try (body fin : script).

(* (object afterwards, raised?) *)
Fixpoint exec (s : script) (o : nat -> bool) (st : obj) : obj * bool :=
  match s with
  | Skip => (st, false)
  | Work k => (st, o k)
  | Write a v => ({| cfg := upd (cfg st) a v; slots := slots st |}, false)
  | Save a k => ({| cfg := cfg st; slots := fun j b => if Nat.eqb j k && attr_eqb a b then cfg st a else slots st j b |}, false)
  | Restore a k => ({| cfg := upd (cfg st) a (slots st k a); slots := slots st |}, false)
  | Seq s1 s2 => let (st1, r) := exec s1 o st in if r then (st1, true) else exec s2 o st1
  | Try b f => let (st1, r) := exec b o st in let (st2, r2) := exec f o st1 in (st2, r || r2)
  end.

(* does the script store to the configuration at all?  (what the translator refuses for method bodies) *)
Fixpoint writes_config (s : script) : bool :=
  match s with
  | Write _ _ | Restore _ _ => true
  | Seq a b | Try a b => writes_config a || writes_config b
  | _ => false
  end.

(* a history: each call = (script of the method, outcome oracle of that call) *)
Definition call := (script * (nat -> bool))%type.
Fixpoint run (st : obj) (h : list call) : obj :=
  match h with
  | [] => st
  | (s, o) :: h' => run (fst (exec s o st)) h'
  end.

Definition out_of (c : config) : option dt := match c ADtype with VDt d => d | _ => None end.

(* the dtype clause for a call made on the object in its current condition: C01/Dtype.v with the object's _dtype *)
Definition later_call (st : obj) (f : flags) (i : input) (bd pd : dt) : option result :=
  inner f (out_of (cfg st)) i bd pd.

(* ---- two ways of changing an attribute temporarily around a computation *)
(* tmp = self.a; self.a = v; <body>; self.a = tmp                 (plain statements) *)
Definition unprotected (a : attr) (v : cval) (body : script) : script :=
  Seq (Save a 0) (Seq (Write a v) (Seq body (Restore a 0))).
(* tmp = self.a; try: self.a = v; <body>  finally: self.a = tmp *)
Definition protected (a : attr) (v : cval) (body : script) : script :=
  Seq (Save a 0) (Try (Seq (Write a v) body) (Restore a 0)).

(* does a script touch slot 0 or the configuration?  (bodies of the two patterns above must not) *)
Fixpoint inert (s : script) : bool :=
  match s with
  | Skip | Work _ => true
  | Write _ _ | Restore _ _ | Save _ _ => false
  | Seq a b | Try a b => inert a && inert b
  end.
