(* The two-level iteration loop of the methods with a NESTED convergence record (brpls,
   pspline_brpls in 1-D and 2-D, goldindec), parameterised by the SYNTACTIC facts that
   tools/gen_loops.py extracts from the source (coq/gen/GenNested.v):

       tol_history = np.zeros((max_iter_2 + n_arows, max(max_iter, max_iter_2) + n_acols))
       j_max = 0
       for i in range(max_iter_2 + n_ostop):
           for j in range(max_iter + n_istop):
               ...  one inner pass ...
               [if exit_early: j -= n_decr; [tol_2 = np.inf;] break]   (present iff n_early; the assignment iff n_force)
               tol_history[i + n_irow, j] = <difference>
               if <difference> < tol: break
           j_max = max(j, j_max)
           tol_history[0, i] = <outer value> [; possibly break; tol_history[1, i] = ...]   (<= n_orows rows)
           if <outer stop>: break
       return ..., tol_history[:i + n_srow, :max(i, j_max) + n_scol]

   over ABSTRACT oracles: [istep i j s] is one inner pass on the whole carried state s (weights,
   baselines, beta, thresholds ...), [ostep i s early] the outer part of pass i, which returns the
   values it stores in rows 0, 1, .. of column i (in program order, at most n_orows are stored),
   whether the outer loop stops, and the new state; [early] tells it that the inner loop left through
   the early exit.  With n_force the early-exit block sets tol_2 = inf, so the outer test
   `value < tol_2` succeeds for the (finite: the weights of an early exit are zeros, the value is
   |beta - 1|) outer value and the outer loop stops in that pass whatever the oracle says.
   The record is a table of NumPy semantics: scalar stores raise IndexError outside -n <= idx < n
   and wrap negative indices, the final slice is clamped.  It is kept as the log of stores, so that a
   cell that was never written is distinguishable: zero for np.zeros, garbage for np.empty.
   An empty range leaves i / j unbound (UnboundLocalError): [None].
   Models only; proofs in C01/NestedProofs.v. *)
From Coq Require Import ZArith List Bool.
From PB Require Import lib.PySlice.
Import ListNotations.
Open Scope Z_scope.

Record ndesc := { n_ostop : Z; n_istop : Z; n_arows : Z; n_acols : Z; n_irow : Z; n_orows : nat;
                  n_srow : Z; n_scol : Z; n_early : bool; n_decr : Z; n_force : bool; n_zeros : bool }.

Inductive ires (D : Type) := IEarly | IRec (d : D) (stop : bool).
Arguments IEarly {D}.
Arguments IRec {D}.

Inductive cell (D : Type) := Written (d : D) | Zero | Garbage.
Arguments Written {D}.
Arguments Zero {D}.
Arguments Garbage {D}.

Section Nested.
  Variables (St D : Type).
  Variable istep : nat -> nat -> St -> St * ires D.
  Variable ostep : nat -> St -> bool -> list D * bool * St.
  Variable n : ndesc.
  Variables m m2 : Z.                              (* max_iter, max_iter_2 *)

  Definition rows : Z := m2 + n_arows n.
  Definition cols : Z := Z.max m m2 + n_acols n.
  Definition obudget : nat := Z.to_nat (m2 + n_ostop n).
  Definition ibudget : nat := Z.to_nat (m + n_istop n).

  (* the log of stores, most recent first, with normalised (non-negative) indices *)
  Definition table := list (Z * Z * D).

  (* tol_history[r, c] = v *)
  Definition store (t : table) (r c : Z) (v : D) : option table :=
    if idx_ok rows r && idx_ok cols c then Some ((pos rows r, pos cols c, v) :: t) else None.

  (* tol_history[0, i] = v0; tol_history[1, i] = v1; ... *)
  Fixpoint store_col (t : table) (k : Z) (vs : list D) (c : Z) : option table :=
    match vs with
    | [] => Some t
    | v :: vs' => match store t k c v with
                  | None => None
                  | Some t' => store_col t' (k + 1) vs' c
                  end
    end.

  (* the inner loop of outer pass i, next inner pass j; returns (state, final value of the Python
     variable j, left through the early exit?, table) *)
  Fixpoint inner (fuel j i : nat) (s : St) (t : table) : option (St * Z * bool * table) :=
    match fuel with
    | O => None
    | S f =>
        let '(s', r) := istep i j s in
        match r with
        | IEarly =>
            if n_early n then Some (s', Z.of_nat j - n_decr n, true, t)
            else None                               (* no such exit in this method *)
        | IRec d stop =>
            match store t (Z.of_nat i + n_irow n) (Z.of_nat j) d with
            | None => None                          (* IndexError *)
            | Some t' =>
                if stop then Some (s', Z.of_nat j, false, t')
                else match f with
                     | O => Some (s', Z.of_nat j, false, t')
                     | S _ => inner f (S j) i s' t'
                     end
            end
        end
    end.

  Record nres := { x_state : St; x_i : nat; x_jmax : Z; x_tab : table; x_passes : nat }.

  Fixpoint outer (fuel i : nat) (s : St) (jmax : Z) (t : table) : option nres :=
    match fuel with
    | O => None
    | S f =>
        match inner ibudget 0 i s t with
        | None => None
        | Some (s1, j, early, t1) =>
            let jmax' := Z.max j jmax in
            let '(recs, stop0, s2) := ostep i s1 early in
            let stop := stop0 || (n_force n && early) in
            match store_col t1 0 (firstn (n_orows n) recs) (Z.of_nat i) with
            | None => None
            | Some t2 =>
                let res := {| x_state := s2; x_i := i; x_jmax := jmax'; x_tab := t2; x_passes := S i |} in
                if stop then Some res
                else match f with
                     | O => Some res
                     | S _ => outer f (S i) s2 jmax' t2
                     end
            end
        end
    end.

  Definition nested (s0 : St) : option nres := outer obudget 0 s0 0 [].

  (* the returned record: tol_history[:i + n_srow, :max(i, j_max) + n_scol] *)
  Definition ret_rows (r : nres) : Z := clamp rows (Z.of_nat (x_i r) + n_srow n).
  Definition ret_cols (r : nres) : Z := clamp cols (Z.max (Z.of_nat (x_i r)) (x_jmax r) + n_scol n).

  Fixpoint lookup (t : table) (r c : Z) : option D :=
    match t with
    | [] => None
    | (r', c', v) :: t' => if (r' =? r) && (c' =? c) then Some v else lookup t' r c
    end.

  Definition ret_cell (x : nres) (r c : Z) : cell D :=
    match lookup (x_tab x) r c with
    | Some v => Written v
    | None => if n_zeros n then Zero else Garbage
    end.

  (* the returned record as a list of rows (for the trace validation) *)
  Definition ret_table (x : nres) : list (list (cell D)) :=
    map (fun r => map (fun c => ret_cell x (Z.of_nat r) (Z.of_nat c)) (seq 0 (Z.to_nat (ret_cols x))))
        (seq 0 (Z.to_nat (ret_rows x))).
End Nested.

Arguments x_state {St D}.
Arguments x_i {St D}.
Arguments x_jmax {St D}.
Arguments x_tab {St D}.
Arguments x_passes {St D}.

(* the syntactic conditions under which the record bookkeeping is sound *)
Definition nested_ok (n : ndesc) : bool :=
  (1 <=? Z.of_nat (n_orows n))
  && (Z.of_nat (n_orows n) <=? n_irow n)          (* inner rows start below the outer rows *)
  && (n_ostop n + n_irow n <=? n_arows n)         (* the last outer pass still has its row *)
  && (n_istop n <=? n_acols n)                    (* the last inner pass still has its column *)
  && (n_ostop n <=? n_acols n)                    (* column i of the outer rows exists *)
  && (n_srow n =? n_irow n + 1)                   (* the slice ends at the row of the last outer pass *)
  && (n_scol n =? 1)                              (* ... and at the largest written column *)
  && (negb (n_early n) || (n_decr n =? 1))        (* early exit discards the unfinished inner pass *)
  && (negb (n_early n) || n_force n)              (* ... and ends the outer loop (tol_2 = inf) *)
  && n_zeros n.                                   (* cells never written are zeros, not garbage *)
