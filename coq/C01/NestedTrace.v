(* The two-level skeleton of C01/Nested.v instantiated with RECORDED oracles (trace validation): the
   carried state is the position in the flat log of inner-pass events of a real run (each call of the
   reweighting rule with its exit_early flag, each recorded difference), the outer values are the ones
   the run recorded, and the stop tests are the IEEE comparisons the code performs.  The skeleton must
   then consume the log exactly and reproduce the returned record bit-for-bit. *)
From Coq Require Import ZArith List Bool PrimFloat.
From PB Require Import C01.Nested.
Import ListNotations.

Definition ev : Type := (bool * float)%type.      (* (exit_early, recorded difference) of one inner pass *)

Definition istep_log (evs : list ev) (tol : float) (i j : nat) (s : nat) : nat * ires float :=
  match nth_error evs s with
  | None => (S s, IRec nan false)                 (* the skeleton asks for a pass the run never made *)
  | Some (true, _) => (S s, IEarly)
  | Some (false, d) => (S s, IRec d (ltb d tol))
  end.

(* brpls family: tol_history[0, i] = d2; if d2 < tol_2: break *)
Definition ostep_brpls (row0 : list float) (tol2 : float) (i : nat) (s : nat) (early : bool)
  : list float * bool * nat :=
  let d2 := nth i row0 nan in ([d2], ltb d2 tol2, s).

(* goldindec: tol_history[0, i] = d1; if d1 > tol_2 .. elif d1 < -tol_2 .. else break;
   tol_history[1, i] = d3 (one more recorded difference); if d3 < tol_3: break *)
Definition ostep_goldindec (evs : list ev) (row0 : list float) (tol2 tol3 : float) (i : nat) (s : nat)
    (early : bool) : list float * bool * nat :=
  let d1 := nth i row0 nan in
  if negb (ltb tol2 d1) && negb (ltb d1 (opp tol2)) then ([d1], true, s)
  else match nth_error evs s with
       | Some (_, d3) => ([d1; d3], ltb d3 tol3, S s)
       | None => ([d1; nan], true, S s)
       end.

Definition cell_val (c : cell float) : float :=
  match c with Written v => v | Zero => 0%float | Garbage => nan end.

Definition feq (a b : float) : bool := eqb a b || (negb (eqb a a) && negb (eqb b b)).

Fixpoint row_eqb (a b : list float) : bool :=
  match a, b with
  | [], [] => true
  | x :: a', y :: b' => feq x y && row_eqb a' b'
  | _, _ => false
  end.
Fixpoint tab_eqb (a b : list (list float)) : bool :=
  match a, b with
  | [], [] => true
  | x :: a', y :: b' => row_eqb x y && tab_eqb a' b'
  | _, _ => false
  end.

(* one validated call: descriptor, goldindec?, max_iter, max_iter_2, tol, tol_2, tol_3, event log, recorded
   outer values, and the observation: raised?, returned record *)
Definition check_run (n : ndesc) (gold : bool) (m m2 : Z) (tol tol2 tol3 : float) (evs : list ev)
    (row0 : list float) (raised : bool) (observed : list (list float)) : bool :=
  let ost := if gold then ostep_goldindec evs row0 tol2 tol3 else ostep_brpls row0 tol2 in
  match nested nat float (istep_log evs tol) ost n m m2 0%nat with
  | None => raised
  | Some x =>
      negb raised
      && Nat.eqb (x_state x) (length evs)                       (* the log is consumed exactly *)
      && tab_eqb (map (map cell_val) (ret_table nat float n m m2 x)) observed
  end.
