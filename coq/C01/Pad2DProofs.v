From Coq Require Import ZArith List Bool Lia ZifyBool.
From PB Require Import lib.PySlice C01.Pad2D.
Import ListNotations.
Open Scope Z_scope.

Lemma strip_pad n k : 0 <= n -> 0 < k -> strip_len (n + 2 * k) k = n.
Proof. intros Hn Hk. unfold strip_len. rewrite len_mid by lia. lia. Qed.

(* C01_pad2d_shape: pad_edges2d with a (rows, columns) pair, every mode: (M + 2 pr, N + 2 pc) *)
Lemma pad2d_pair_shape M N pr pc extrapolate : 0 < pr -> 0 < pc ->
  pad_edges2d_shape M N [pr; pc] extrapolate None = PadOk (M + 2 * pr) (N + 2 * pc).
Proof.
  intros Hr Hc. unfold pad_edges2d_shape. cbn [row_col_values].
  destruct extrapolate.
  - replace ((pr =? 0) || (pr =? 0) || (pc =? 0) || (pc =? 0)) with false by lia.
    replace ((pr <? 0) || (pr <? 0) || (pc <? 0) || (pc <? 0)) with false by lia.
    replace ((pr <=? 0) || (pr <=? 0) || (pc <=? 0) || (pc <=? 0)) with false by lia. reflexivity.
  - replace ((pr <? 0) || (pr <? 0) || (pc <? 0) || (pc <? 0)) with false by lia. f_equal; lia.
Qed.

(* C01_noise_median2d_shape: pad -> filter -> strip returns the data's shape for EVERY data shape,
   EVERY pair of half windows >= 1 (equal or not) and every padding mode / extrapolate window that
   the padding accepts *)
Theorem noise_median2d_shape_is_data M N hr hc extrapolate ew R C :
  0 <= M -> 0 <= N -> 0 < hr -> 0 < hc ->
  noise_median2d_shape M N hr hc extrapolate ew = PadOk R C -> R = M /\ C = N.
Proof.
  intros HM HN Hr Hc. unfold noise_median2d_shape, noise_median2d_shape_with, pad_edges2d_shape.
  cbn [row_col_values]. destruct extrapolate.
  - replace ((hr =? 0) || (hr =? 0) || (hc =? 0) || (hc =? 0)) with false by lia.
    replace ((hr <? 0) || (hr <? 0) || (hc <? 0) || (hc <? 0)) with false by lia.
    destruct (match ew with None => Some (hr, hr, hc, hc) | Some w => row_col_values w end) as [[[[wt wb] wl] wr]|];
      [|discriminate].
    destruct ((wt <=? 0) || (wb <=? 0) || (wl <=? 0) || (wr <=? 0)); [discriminate|].
    intros [= <- <-]. split; apply strip_pad; lia.
  - replace ((hr <? 0) || (hr <? 0) || (hc <? 0) || (hc <? 0)) with false by lia.
    intros [= <- <-]. split.
    + replace (M + hr + hr) with (M + 2 * hr) by lia. apply strip_pad; lia.
    + replace (N + hc + hc) with (N + 2 * hc) by lia. apply strip_pad; lia.
Qed.

Theorem noise_median2d_returns M N hr hc extrapolate :
  0 <= M -> 0 <= N -> 0 < hr -> 0 < hc ->
  noise_median2d_shape M N hr hc extrapolate None = PadOk M N.
Proof.
  intros HM HN Hr Hc. unfold noise_median2d_shape, noise_median2d_shape_with.
  rewrite pad2d_pair_shape by lia. f_equal; apply strip_pad; lia.
Qed.

(* with the (rows, columns) padding mixed up in the extrapolation the returned shape is
   (M, N + 2 (hr - hc)) -- when that is still non-negative -- i.e. wrong exactly for unequal pairs *)
Theorem noise_median2d_mixed_refuted M N hr hc :
  0 <= M -> 0 <= N -> 0 < hr -> 0 < hc -> 0 <= N + 2 * (hr - hc) ->
  noise_median2d_shape_with pad_edges2d_shape_mixed M N hr hc true None = PadOk M (N + 2 * (hr - hc)).
Proof.
  intros HM HN Hr Hc Hp. unfold noise_median2d_shape_with, pad_edges2d_shape_mixed.
  rewrite pad2d_pair_shape by lia. cbn [row_col_values]. f_equal.
  - apply strip_pad; lia.
  - unfold strip_len, sl_len, sl_start, sl_stop, clamp.
    destruct (hc <? 0) eqn:?, (- hc <? 0) eqn:?; lia.
Qed.
