(* Model of the axis values Baseline2D.individual_axes hands to the inner one-dimensional fitters
   (pybaselines/two_d/optimizers.py, "data is not sorted (skip_sorting=True), so have to reset the x
   and z ordering ...").  Models only; the proofs are in C01/AxisOrderProofs.v.

   _Algorithm2D.__init__ stores the SORTED axis values and both index arrays:
        sort, inv = _determine_sorts(x_user)         (None, None) when x_user is already sorted
        self.x = x_user[sort]
   individual_axes does not sort the data, so it rebuilds the caller's axis values
        self.x[self._inverted_order]                 (three branches: x only / z only / both)
   and builds  Baseline(axis_values[axis], assume_sorted=...)  for each requested axis.  The inner
   fitter then sorts by  argsort(axis values)  itself. *)
From Coq Require Import ZArith List Bool Arith.
From PB Require Import lib.Perm.
Import ListNotations.

(* what the 2-D object keeps of one axis: (stored values, Some (sort_order, inverted_order) | None) *)
Definition stored_axis (x : list Z) : list Z * option (list nat * list nat) :=
  match determine_sorts x with
  | None => (x, None)
  | Some (s, inv) => (gather 0%Z x s, Some (s, inv))
  end.

(* the rebuild as coded: stored[inverted_order] *)
Definition rebuild_inverted {A} (d : A) (stored : list A) (s inv : list nat) : list A := gather d stored inv.
(* the rebuild with the forward order: stored[sort_order]  (the defect the check must detect) *)
Definition rebuild_forward {A} (d : A) (stored : list A) (s inv : list nat) : list A := gather d stored s.

Definition axis_values_with (rb : list Z -> list nat -> list nat -> list Z) (x : list Z) : list Z :=
  match stored_axis x with
  | (xs, None) => xs
  | (xs, Some (s, inv)) => rb xs s inv
  end.

(* (axis_values[0], axis_values[1], assume_sorted) of individual_axes for a Baseline2D(x_user, z_user):
   assume_sorted is True only when NEITHER axis needed sorting (self._sort_order is None) *)
Definition axes_with (rb : list Z -> list nat -> list nat -> list Z) (x z : list Z) : list Z * list Z * bool :=
  (axis_values_with rb x, axis_values_with rb z,
   match determine_sorts x, determine_sorts z with None, None => true | _, _ => false end).

Definition individual_axes_values := axes_with (rebuild_inverted 0%Z).
Definition individual_axes_values_forward := axes_with (rebuild_forward 0%Z).

(* the order in which the inner 1-D fitter (assume_sorted=False) sorts the user-ordered rows/columns *)
Definition inner_sort_order (axis_values : list Z) : list nat := argsort axis_values.
