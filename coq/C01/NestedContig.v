(* Which cells of the nested record are written: in every inner row the written cells form an initial
   segment of columns (no unwritten gap before a recorded value), and the row of outer iteration i is
   row i + n_irow.  Complements C01/NestedProofs.v (bounds); same hypotheses. *)
From Coq Require Import ZArith List Bool Lia ZifyBool.
From PB Require Import lib.PySlice C01.Nested C01.NestedProofs.
Import ListNotations.
Open Scope Z_scope.

Section Contig.
  Variables (St D : Type).
  Variable istep : nat -> nat -> St -> St * ires D.
  Variable ostep : nat -> St -> bool -> list D * bool * St.
  Variable n : ndesc.
  Variables m m2 : Z.
  Hypothesis Hok : nested_ok n = true.
  Hypothesis Hearly : n_early n = false -> forall i j s, snd (istep i j s) <> IEarly.

  Notation inner := (inner St D istep n m m2).
  Notation outer := (outer St D istep ostep n m m2).
  Notation ibudget := (ibudget n m).
  Notation obudget := (obudget n m2).

  (* the cells the inner loop of outer iteration i writes: exactly columns j .. jf of row i + n_irow *)
  Lemma inner_cover : forall fuel j i s t, (0 < fuel)%nat -> (j + fuel <= ibudget)%nat -> (i < obudget)%nat ->
    exists s' jf early new, inner fuel j i s t = Some (s', jf, early, new ++ t) /\
      Z.of_nat j - 1 <= jf /\
      (forall e, In e new -> er D e = Z.of_nat i + n_irow n /\ Z.of_nat j <= ec D e <= jf) /\
      (forall c, Z.of_nat j <= c <= jf -> exists v, In (Z.of_nat i + n_irow n, c, v) new).
  Proof.
    induction fuel as [|f IH]; intros j i s t Hf Hj Hi; [lia|].
    cbn [Nested.inner]. destruct (istep i j s) as [s' r] eqn:Es. destruct r as [|d stop].
    - destruct (n_early n) eqn:He.
      + pose proof (ok_facts n Hok) as (_&_&_&_&_&_&_&Hd&_&_). specialize (Hd He).
        exists s', (Z.of_nat j - n_decr n), true, []. split; [reflexivity|]. split; [lia|]. split.
        * intros e [].
        * intros c Hc. lia.
      + exfalso. apply (Hearly eq_refl i j s). rewrite Es. reflexivity.
    - rewrite (store_inner_ok St D istep n m m2 Hok Hearly) by lia.
      set (e0 := (Z.of_nat i + n_irow n, Z.of_nat j, d)).
      assert (Hone : exists s'' jf early new, Some (s', Z.of_nat j, false, e0 :: t) = Some (s'', jf, early, new ++ t) /\
                Z.of_nat j - 1 <= jf /\
                (forall e, In e new -> er D e = Z.of_nat i + n_irow n /\ Z.of_nat j <= ec D e <= jf) /\
                (forall c, Z.of_nat j <= c <= jf -> exists v, In (Z.of_nat i + n_irow n, c, v) new)).
      { exists s', (Z.of_nat j), false, [e0]. split; [reflexivity|]. split; [lia|]. split.
        - intros e [<-|[]]. unfold er, ec, e0; cbn [fst snd]. lia.
        - intros c Hc. assert (c = Z.of_nat j) as -> by lia. exists d. left. reflexivity. }
      destruct stop; [exact Hone|]. destruct f as [|f']; [exact Hone|].
      destruct (IH (S j) i s' (e0 :: t) ltac:(lia) ltac:(lia) Hi) as (s2 & jf & early & new & E & Hb & Hn & Hc).
      exists s2, jf, early, (new ++ [e0]). split; [rewrite <- app_assoc; exact E|]. split; [lia|]. split.
      + intros e He. apply in_app_or in He. destruct He as [He|[<-|[]]].
        * destruct (Hn e He) as (A & B). split; [exact A|lia].
        * unfold er, ec, e0; cbn [fst snd]. lia.
      + intros c Hcr. destruct (Z.eq_dec c (Z.of_nat j)) as [->|Hne].
        * exists d. apply in_or_app. right. left. reflexivity.
        * destruct (Hc c ltac:(lia)) as (v & Hv). exists v. apply in_or_app. left. exact Hv.
  Qed.

  (* no gap: every column to the left of a written inner cell is written too *)
  Definition Contig (t : table D) : Prop :=
    forall e, In e t -> n_irow n <= er D e -> forall c, 0 <= c <= ec D e -> exists v, In (er D e, c, v) t.

  (* rows of later outer iterations are still empty *)
  Definition Below (i : nat) (t : table D) : Prop := forall e, In e t -> er D e < Z.of_nat i + n_irow n.

  Lemma store_col_rows i : (i < obudget)%nat -> forall vs k t, 0 <= k -> k + Z.of_nat (length vs) <= Z.of_nat (n_orows n) ->
    exists new, store_col D n m m2 t k vs (Z.of_nat i) = Some (new ++ t) /\
      forall e, In e new -> 0 <= er D e < Z.of_nat (n_orows n).
  Proof.
    intros Hi vs k t Hk Hl. destruct (store_col_spec St D istep n m m2 Hok Hearly i Hi vs k t Hk Hl) as (new & E & Hn).
    exists new. split; [exact E|]. intros e He. rewrite Forall_forall in Hn. destruct (Hn e He) as (A & _). lia.
  Qed.

  Lemma outer_contig : forall fuel i s jmax t, (0 < fuel)%nat -> (i + fuel <= obudget)%nat -> (0 < ibudget)%nat ->
    Contig t -> Below i t ->
    exists x, outer fuel i s jmax t = Some x /\ Contig (x_tab x).
  Proof.
    induction fuel as [|f IH]; intros i s jmax t Hf Hi HI Hc Hb; [lia|].
    cbn [Nested.outer].
    destruct (inner_cover ibudget 0 i s t HI ltac:(lia) ltac:(lia)) as (s1 & jf & early & new & E & Hjf & Hn & Hcov).
    rewrite E. destruct (ostep i s1 early) as [[recs stop0] s2].
    set (stop := stop0 || (n_force n && early)). clearbody stop.
    assert (Hlen : Z.of_nat (length (firstn (n_orows n) recs)) <= Z.of_nat (n_orows n))
      by (pose proof (firstn_le_length (n_orows n) recs); lia).
    destruct (store_col_rows i ltac:(lia) (firstn (n_orows n) recs) 0 (new ++ t) ltac:(lia) ltac:(lia)) as (onew & Eo & Ho).
    rewrite Eo. pose proof (ok_facts n Hok) as (F1&F2&_).
    assert (Hc' : Contig (onew ++ new ++ t)).
    { intros e He Hr c Hcr. apply in_app_or in He. destruct He as [He|He].
      - destruct (Ho e He). lia.
      - apply in_app_or in He. destruct He as [He|He].
        + destruct (Hn e He) as (A & B). destruct (Hcov c ltac:(lia)) as (v & Hv).
          exists v. rewrite A. apply in_or_app. right. apply in_or_app. left. exact Hv.
        + destruct (Hc e He Hr c Hcr) as (v & Hv). exists v. apply in_or_app. right. apply in_or_app. right. exact Hv. }
    assert (Hb' : Below (S i) (onew ++ new ++ t)).
    { intros e He. apply in_app_or in He. destruct He as [He|He].
      - destruct (Ho e He). lia.
      - apply in_app_or in He. destruct He as [He|He].
        + destruct (Hn e He) as (A & _). lia.
        + specialize (Hb e He). lia. }
    destruct stop.
    - eexists. split; [reflexivity|exact Hc'].
    - destruct f as [|f'].
      + eexists. split; [reflexivity|exact Hc'].
      + exact (IH (S i) s2 (Z.max jf jmax) (onew ++ new ++ t) ltac:(lia) ltac:(lia) HI Hc' Hb').
  Qed.

  (* C01_nested_rows_contiguous *)
  Theorem nested_rows_contiguous s0 x : nested St D istep ostep n m m2 s0 = Some x ->
    forall r c v, In (r, c, v) (x_tab x) -> n_irow n <= r -> forall c', 0 <= c' <= c -> exists v', In (r, c', v') (x_tab x).
  Proof.
    unfold nested. intros H r c v Hin Hr c' Hc'.
    destruct obudget as [|ob] eqn:Eo; [discriminate|].
    destruct ibudget as [|ib] eqn:Ei; [cbn [Nested.outer] in H; rewrite Ei in H; discriminate|].
    destruct (outer_contig (S ob) 0 s0 0 [] ltac:(lia) ltac:(rewrite Eo; lia) ltac:(rewrite Ei; lia)) as (x' & Ex & Cx).
    - intros e [].
    - intros e [].
    - try rewrite Eo in Ex. try rewrite Ei in Ex. rewrite Ex in H. injection H as <-.
      exact (Cx (r, c, v) Hin Hr c' Hc').
  Qed.
End Contig.
