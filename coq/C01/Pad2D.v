(* Shape algebra of pad -> filter -> strip in the padded two-dimensional smoothers
   (pybaselines/utils.py pad_edges2d / _extrapolate2d, _validation._get_row_col_values,
   two_d/_algorithm_setup._setup_smooth, two_d/smooth.noise_median).  Models only; proofs in
   C01/Pad2DProofs.v.

     total_padding = _get_row_col_values(pad_length).reshape((2, 2))    [[top, bottom], [left, right]]
     mode == 'extrapolate':  rejects a 0 (NotImplementedError) or negative (ValueError) entry, then
                             output = np.empty((M + 2 * top, N + 2 * left))
     otherwise:              np.pad(data, total_padding, mode)           (M + top + bottom, N + left + right)
     noise_median:           filters keep the shape;  baseline[hr:-hr, hc:-hc]  with Python slices *)
From Coq Require Import ZArith List Bool.
From PB Require Import lib.PySlice.
Import ListNotations.
Open Scope Z_scope.

Inductive pad_res := PadOk (rows cols : Z) | PadValueError | PadNotImplemented.

(* _get_row_col_values: a scalar a -> [a,a,a,a]; (a, b) -> [a,a,b,b]; four values as given;
   any other length raises *)
Definition row_col_values (v : list Z) : option (Z * Z * Z * Z) :=
  match v with
  | [a] => Some (a, a, a, a)
  | [a; b] => Some (a, a, b, b)
  | [a; b; c; d] => Some (a, b, c, d)
  | _ => None
  end.

(* pad_edges2d on data of shape (M, N); [extrapolate] = (mode == 'extrapolate'); ew = the
   extrapolate_window values (None = pad_length) *)
Definition pad_edges2d_shape (M N : Z) (pad_length : list Z) (extrapolate : bool) (ew : option (list Z)) : pad_res :=
  match row_col_values pad_length with
  | None => PadValueError
  | Some (t, b, l, r) =>
      if extrapolate then
        if (t =? 0) || (b =? 0) || (l =? 0) || (r =? 0) then PadNotImplemented
        else if (t <? 0) || (b <? 0) || (l <? 0) || (r <? 0) then PadValueError
        else
          let ews := match ew with None => Some (t, b, l, r) | Some w => row_col_values w end in
          match ews with
          | None => PadValueError
          | Some (wt, wb, wl, wr) =>
              if (wt <=? 0) || (wb <=? 0) || (wl <=? 0) || (wr <=? 0) then PadValueError
              else PadOk (M + 2 * t) (N + 2 * l)
          end
      else if (t <? 0) || (b <? 0) || (l <? 0) || (r <? 0) then PadValueError      (* np.pad *)
      else PadOk (M + t + b) (N + l + r)
  end.

(* the same with the (rows, columns) padding mixed up in the extrapolation: the column padding is
   replaced by the row padding (a defect the check must detect) *)
Definition pad_edges2d_shape_mixed (M N : Z) (pad_length : list Z) (extrapolate : bool) (ew : option (list Z)) : pad_res :=
  match pad_edges2d_shape M N pad_length extrapolate ew, row_col_values pad_length with
  | PadOk _ _, Some (t, b, l, r) => if extrapolate then PadOk (M + 2 * t) (N + 2 * t) else PadOk (M + t + b) (N + l + r)
  | res, _ => res
  end.

(* a[k:-k] along an axis of length n *)
Definition strip_len (n k : Z) : Z := sl_len n (Some k) (Some (- k)).

(* noise_median (2-D) with half_window = (hr, hc): shape of the returned baseline *)
Definition noise_median2d_shape_with (pad : Z -> Z -> list Z -> bool -> option (list Z) -> pad_res)
    (M N hr hc : Z) (extrapolate : bool) (ew : option (list Z)) : pad_res :=
  match pad M N [hr; hc] extrapolate ew with
  | PadOk R C => PadOk (strip_len R hr) (strip_len C hc)
  | e => e
  end.
Definition noise_median2d_shape := noise_median2d_shape_with pad_edges2d_shape.
