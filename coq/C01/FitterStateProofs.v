(* Proofs about C01/FitterState.v: calls that do not store to the configuration leave it alone whatever their
   outcome, so after ANY history the object answers with the constructor's output dtype; a temporary change
   restored by a plain statement is lost when the computation in between raises, try/finally keeps it. *)
From Coq Require Import List Bool Arith.
From PB Require Import C01.Dtype C01.DtypeProofs C01.FitterState.
Import ListNotations.

Lemma attr_eqb_refl a : attr_eqb a a = true.
Proof. destruct a; reflexivity. Qed.

Lemma attr_eqb_eq a b : attr_eqb a b = true -> a = b.
Proof. destruct a, b; simpl; intro H; try reflexivity; discriminate. Qed.

(* a script without a configuration store leaves the configuration alone -- for EVERY outcome oracle *)
Lemma exec_preserves_cfg s : writes_config s = false -> forall o st, cfg (fst (exec s o st)) = cfg st.
Proof.
  induction s; cbn [writes_config exec]; intros H o st; try discriminate; try reflexivity.
  - apply orb_false_iff in H. destruct H as [H1 H2].
    specialize (IHs1 H1 o st). destruct (exec s1 o st) as [st1 r] eqn:E1. cbn [fst] in IHs1.
    destruct r; cbn [fst]; [exact IHs1|]. rewrite (IHs2 H2 o st1). exact IHs1.
  - apply orb_false_iff in H. destruct H as [H1 H2].
    specialize (IHs1 H1 o st). destruct (exec s1 o st) as [st1 r] eqn:E1. cbn [fst] in IHs1.
    specialize (IHs2 H2 o st1). destruct (exec s2 o st1) as [st2 r2] eqn:E2. cbn [fst] in *. congruence.
Qed.

Definition pure_call (c : call) : Prop := writes_config (fst c) = false.

(* after ANY history of calls with ANY outcomes the configuration is the constructor's *)
Lemma run_preserves_cfg h : Forall pure_call h -> forall st, cfg (run st h) = cfg st.
Proof.
  induction 1 as [|[s o] h Hc Hh IH]; intro st; [reflexivity|].
  cbn [run]. rewrite IH. apply exec_preserves_cfg. exact Hc.
Qed.

(* hence a later call returns what a call on the freshly constructed object returns: the documented dtype for
   the CONSTRUCTOR's output_dtype *)
Lemma dtype_after_history h st f i bd pd :
  Forall pure_call h ->
  later_call (run st h) f i bd pd = later_call st f i bd pd /\
  forall r, later_call (run st h) f i bd pd = Some r ->
            r_ret r = documented (eff_out (entry f) (out_of (cfg st))) i bd /\ r_received r = F64 /\ r_params r = pd.
Proof.
  intro H. unfold later_call. rewrite (run_preserves_cfg h H st). split; [reflexivity|].
  intros r Hr. exact (inner_rule _ _ _ _ _ _ Hr).
Qed.

(* ---- temporary changes *)
Lemma inert_exec s : inert s = true -> forall o st, fst (exec s o st) = st.
Proof.
  induction s; cbn [inert exec]; intros H o st; try discriminate; try reflexivity.
  - apply andb_true_iff in H. destruct H as [H1 H2].
    specialize (IHs1 H1 o st). destruct (exec s1 o st) as [st1 r]. cbn [fst] in IHs1. subst st1.
    destruct r; [reflexivity|]. apply IHs2; auto.
  - apply andb_true_iff in H. destruct H as [H1 H2].
    specialize (IHs1 H1 o st). destruct (exec s1 o st) as [st1 r]. cbn [fst] in IHs1. subst st1.
    specialize (IHs2 H2 o st). destruct (exec s2 o st) as [st2 r2]. exact IHs2.
Qed.

Lemma exec_inert_pair s : inert s = true -> forall o st, exists r, exec s o st = (st, r).
Proof.
  intros H o st. exists (snd (exec s o st)). rewrite <- (inert_exec s H o st) at 2. apply surjective_pairing.
Qed.

Ltac run_body Hb :=
  match goal with |- context [exec ?body ?o ?X] =>
    let r := fresh "r" in let E := fresh "E" in
    destruct (exec_inert_pair body Hb o X) as [r E]; rewrite E in *; clear E end.

(* try/finally: the configuration is restored whether or not the body raises *)
Lemma protected_restores a v body : inert body = true ->
  forall o st b, cfg (fst (exec (protected a v body) o st)) b = cfg st b.
Proof.
  intros Hb o st b. unfold protected. cbn [exec]. run_body Hb.
  cbn [fst cfg slots]. unfold upd.
  destruct (attr_eqb a b) eqn:Eab; [|reflexivity].
  apply attr_eqb_eq in Eab. subst b. cbn [Nat.eqb andb]. rewrite attr_eqb_refl. reflexivity.
Qed.

(* plain statements: fine when nothing raises ... *)
Lemma unprotected_restores_if_no_raise a v body : inert body = true ->
  forall o st, snd (exec (unprotected a v body) o st) = false ->
  forall b, cfg (fst (exec (unprotected a v body) o st)) b = cfg st b.
Proof.
  intros Hb o st. unfold unprotected. cbn [exec]. run_body Hb.
  destruct r; cbn [fst snd]; [discriminate|]. intros _ b.
  cbn [fst cfg slots]. unfold upd.
  destruct (attr_eqb a b) eqn:Eab; [|reflexivity].
  apply attr_eqb_eq in Eab. subst b. cbn [Nat.eqb andb]. rewrite attr_eqb_refl. reflexivity.
Qed.

(* ... but when the computation in between raises the object keeps the temporary value *)
Lemma unprotected_keeps_temporary a v : forall st,
  cfg (fst (exec (unprotected a v (Work 0)) (fun _ => true) st)) a = v /\
  snd (exec (unprotected a v (Work 0)) (fun _ => true) st) = true.
Proof. intro st. cbn. unfold upd. rewrite attr_eqb_refl. split; reflexivity. Qed.

(* the held-out pattern: `_dtype` cleared around a preliminary fit and restored by a plain statement.  On an object
   constructed with output_dtype = d, ONE call whose preliminary fit raises makes every later call on data of
   another dtype d' return d' instead of d *)
Lemma unprotected_dtype_refuted st f d d' bd pd :
  out_of (cfg st) = Some d -> d' <> d ->
  eff_out (entry f) (Some d) = Some d ->           (* class interface *)
  let st' := run st [(unprotected ADtype (VDt None) (Work 0), fun _ => true)] in
  exists r r', later_call st f (Arr d') bd pd = Some r /\ later_call st' f (Arr d') bd pd = Some r' /\
               r_ret r = d /\ r_ret r' = d'.
Proof.
  intros Ho Hd He st'.
  assert (Ho' : out_of (cfg st') = None).
  { unfold st', out_of. cbn [run]. rewrite (proj1 (unprotected_keeps_temporary ADtype (VDt None) st)). reflexivity. }
  unfold later_call. rewrite Ho, Ho'.
  destruct (inner f (Some d) (Arr d') bd pd) as [r|] eqn:Hr.
  2:{ apply inner_raises in Hr. destruct Hr; discriminate. }
  destruct (inner f None (Arr d') bd pd) as [r'|] eqn:Hr'.
  2:{ apply inner_raises in Hr'. destruct Hr'; discriminate. }
  exists r, r'. repeat split; auto.
  - apply inner_rule in Hr. destruct Hr as [-> _]. rewrite He. reflexivity.
  - apply inner_rule in Hr'. destruct Hr' as [-> _]. destruct (entry f); reflexivity.
Qed.
