(* Refinement: under the syntactic conditions [loop_ok] (checked reflectively on the table that
   tools/gen_loops.py regenerates from the source on every run) the Python loop with its np.empty
   record, offset stores and prefix slice IS the skeleton of lib/Loop.v with
   budget = max_iter + l_stop - l_start, for every max_iter and every oracle. *)
From Coq Require Import ZArith List Bool Lia ZifyBool.
From PB Require Import lib.PySlice lib.Loop lib.LoopProofs C01.PyLoop.
Import ListNotations.
Open Scope Z_scope.

Lemma upd_app_len {A : Type} (l1 l2 : list A) (x v : A) :
  upd (l1 ++ x :: l2) (length l1) v = l1 ++ v :: l2.
Proof. induction l1 as [|y l1 IH]; cbn; [reflexivity | now rewrite IH]. Qed.

Lemma firstn_len_app {A : Type} (a b : list A) : firstn (length a) (a ++ b) = a.
Proof. induction a as [|x a IH]; cbn; [reflexivity | now rewrite IH]. Qed.

Section Refine.
  Variables (W B D : Type).
  Variable solve : nat -> W -> B.
  Variable reweight : nat -> B -> W -> W * bool.
  Variable diff : nat -> W -> W -> B -> D.
  Variable below : D -> bool.
  Variable l : ldesc.
  Variable m : Z.
  Hypothesis Hok : loop_ok l = true.
  (* a method without the early-exit block has a rule that never asks for it *)
  Hypothesis Hearly : l_early l = false -> forall k b w, snd (reweight k b w) = false.

  Let AL := alloc_len l m.
  Definition arr_of (h : list D) : list (option D) := map Some h ++ repeat None (AL - length h).
  Definition final_i (h : list D) : Z := Z.of_nat (length h) - l_slice l.
  Arguments arr_of : simpl never.
  Arguments final_i : simpl never.

  Lemma ok_facts : 0 <= l_start l /\ l_start l + l_store l = 0 /\ l_slice l = l_store l + 1 /\
                   l_stop l - l_start l <= l_alloc l /\ (l_early l = true -> l_decr l = 1).
  Proof.
    unfold loop_ok in Hok.
    repeat (apply andb_prop in Hok; destruct Hok as [Hok ?]).
    repeat split; try lia.
    all: intros He; rewrite He in *; cbn in *; lia.
  Qed.

  Lemma arr_len h : (length h <= AL)%nat -> length (arr_of h) = AL.
  Proof. intros. unfold arr_of. rewrite app_length, map_length, repeat_length. lia. Qed.

  Lemma store_next h d : (length h < AL)%nat ->
    store D (arr_of h) (l_start l + Z.of_nat (length h) + l_store l) d = Some (arr_of (h ++ [d])).
  Proof.
    intros Hlt. destruct ok_facts as (H0 & H1 & _).
    unfold store. rewrite arr_len by lia.
    replace (l_start l + Z.of_nat (length h) + l_store l) with (Z.of_nat (length h)) by lia.
    assert (Hi : idx_ok (Z.of_nat AL) (Z.of_nat (length h)) = true) by (unfold idx_ok; lia).
    rewrite Hi. f_equal.
    assert (Hp : pos (Z.of_nat AL) (Z.of_nat (length h)) = Z.of_nat (length h)).
    { unfold pos. destruct (Z.of_nat (length h) <? 0) eqn:E; lia. }
    rewrite Hp, Nat2Z.id. unfold arr_of.
    replace (AL - length h)%nat with (S (AL - length (h ++ [d])))%nat
      by (rewrite app_length; cbn [length]; lia).
    cbn [repeat].
    rewrite <- (map_length Some h) at 1.
    rewrite upd_app_len, map_app. cbn [map]. rewrite <- app_assoc. reflexivity.
  Qed.

  Lemma pygo_go : forall fuel k w h, length h = k -> (k + fuel <= AL)%nat ->
    pygo W B D solve reweight diff below l fuel k w (arr_of h) =
    match go W B D solve reweight diff below fuel k w h with
    | None => None
    | Some r => Some {| p_base := r_base r; p_state := r_state r; p_i := final_i (r_hist r);
                        p_arr := arr_of (r_hist r); p_reason := r_reason r |}
    end.
  Proof.
    destruct ok_facts as (H0 & H1 & H2 & H3 & H4).
    induction fuel as [|f IH]; intros k w h Hlen Hb; [reflexivity|].
    subst k. cbn [pygo go].
    destruct (reweight (length h) (solve (length h) w) w) as [w' e] eqn:Hr.
    assert (He : l_early l && e = e).
    { destruct (l_early l) eqn:El; [reflexivity|].
      specialize (Hearly eq_refl (length h) (solve (length h) w) w). rewrite Hr in Hearly. cbn in Hearly. subst e. reflexivity. }
    rewrite He. destruct e.
    - (* early exit *)
      cbn. f_equal. f_equal. unfold final_i.
      assert (l_early l = true) by (destruct (l_early l); [reflexivity | discriminate He]).
      specialize (H4 H). lia.
    - rewrite store_next by lia.
      destruct (below (diff (length h) w w' (solve (length h) w))) eqn:Eb.
      + cbn. f_equal. f_equal. unfold final_i. rewrite app_length. cbn [length]. lia.
      + destruct f as [|f'].
        * cbn. f_equal. f_equal. unfold final_i. rewrite app_length. cbn [length]. lia.
        * apply IH; [rewrite app_length; cbn [length]; lia | lia].
  Qed.

  Lemma prefix_arr h : prefix D (arr_of h) (final_i h + l_slice l) = map Some h.
  Proof.
    unfold prefix, final_i.
    replace (Z.of_nat (length h) - l_slice l + l_slice l) with (Z.of_nat (length h)) by lia.
    assert (Hc : clamp (Z.of_nat (length (arr_of h))) (Z.of_nat (length h)) = Z.of_nat (length h)).
    { unfold clamp, arr_of. rewrite app_length, map_length.
      destruct (Z.of_nat (length h) <? 0) eqn:E; lia. }
    rewrite Hc, Nat2Z.id. unfold arr_of.
    rewrite <- (map_length Some h) at 1. apply firstn_len_app.
  Qed.

  (* the method's loop = the skeleton, record included, for every max_iter *)
  Theorem pyloop_refines (w0 : W) :
    pyloop W B D solve reweight diff below l m w0 =
    match loop W B D solve reweight diff below (budget l m) w0 with
    | None => None
    | Some r => Some (r_base r, r_state r, map Some (r_hist r), r_reason r)
    end.
  Proof.
    destruct ok_facts as (H0 & H1 & H2 & H3 & H4).
    unfold pyloop, loop.
    assert (Hinit : repeat None (alloc_len l m) = arr_of (@nil D)).
    { unfold arr_of, AL. cbn. now rewrite Nat.sub_0_r. }
    rewrite Hinit, pygo_go; [| reflexivity | unfold AL, budget, alloc_len; lia].
    destruct (go W B D solve reweight diff below (budget l m) 0 w0 []) as [r|]; [|reflexivity].
    cbn. now rewrite prefix_arr.
  Qed.

  (* consequences for what the caller sees in params['tol_history'] *)
  Theorem pyloop_record (w0 : W) b w hist rsn :
    pyloop W B D solve reweight diff below l m w0 = Some (b, w, hist, rsn) ->
    exists h, hist = map Some h /\ (length h <= budget l m)%nat /\
      match rsn with
      | Converged => exists h' d, h = h' ++ [d] /\ below d = true /\ Forall (fun x => below x = false) h'
      | Exhausted => length h = budget l m /\ Forall (fun x => below x = false) h
      | EarlyExit => (length h < budget l m)%nat /\ Forall (fun x => below x = false) h
      end.
  Proof.
    rewrite pyloop_refines.
    destruct (loop W B D solve reweight diff below (budget l m) w0) as [r|] eqn:E; [|discriminate].
    intros Hr. inversion Hr; subst. exists (r_hist r). split; [reflexivity|].
    exact (loop_record W B D solve reweight diff below w0 (budget l m) r E).
  Qed.

  Theorem pyloop_at_most_max_iter_plus_1 (w0 : W) b w hist rsn :
    bound_ok l = true -> 0 <= m + 1 ->
    pyloop W B D solve reweight diff below l m w0 = Some (b, w, hist, rsn) ->
    Z.of_nat (length hist) <= m + 1 /\ Forall (fun e => e <> None) hist.
  Proof.
    intros Hb Hm Hp. destruct (pyloop_record w0 b w hist rsn Hp) as (h & -> & Hlen & _).
    rewrite map_length. split.
    - unfold bound_ok in Hb. unfold budget in Hlen. lia.
    - apply Forall_forall. intros e He. apply in_map_iff in He. destruct He as (x & <- & _). discriminate.
  Qed.

  (* an empty range is an error, never a default result *)
  Theorem pyloop_empty_range (w0 : W) : m + l_stop l - l_start l <= 0 ->
    pyloop W B D solve reweight diff below l m w0 = None.
  Proof using.
    clear Hok Hearly. intros H. unfold pyloop, budget. replace (Z.to_nat (m + l_stop l - l_start l)) with 0%nat by lia.
    reflexivity.
  Qed.
End Refine.
