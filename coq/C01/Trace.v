(* The loop skeleton instantiated with recorded oracles (trace validation): states and baselines are
   represented by their pass indices, the recorded differences are the floats the real run produced,
   and `below` is the IEEE comparison `d < tol` the code performs. *)
From Coq Require Import List Bool Arith PrimFloat.
From PB Require Import lib.Loop.
Import ListNotations.

Definition predict (budget : nat) (ds : list float) (early : list bool) (tol : float)
  : option (result nat nat float) :=
  loop nat nat float (fun i _ => i) (fun i _ _ => (S i, nth i early false))
       (fun i _ _ _ => nth i ds nan) (fun d => ltb d tol) budget 0.

Definition reason_code (r : reason) : nat :=
  match r with Converged => 0 | Exhausted => 1 | EarlyExit => 2 end.

(* observation of one real call: raised?, len(tol_history), for each k whether the returned
   baseline equals table entry k bit-for-bit, same for the returned state (weights) *)
Record obs := { o_raised : bool; o_len : nat; o_base_match : list bool; o_state_match : list bool }.

(* ret_state = true for methods that return the carried state as the baseline (imor) *)
Definition agrees (ret_state : bool) (check_state : bool) (p : option (result nat nat float)) (o : obs) : bool :=
  match p with
  | None => o_raised o
  | Some r =>
      negb (o_raised o)
      && Nat.eqb (length (r_hist r)) (o_len o)
      && nth (if ret_state then r_state r else r_base r) (o_base_match o) false
      && (if check_state then nth (r_state r) (o_state_match o) false else true)
  end.
