From Coq Require Import List Bool Arith Lia.
From PB Require Import lib.Loop.
Import ListNotations.

Section LoopProofs.
  Variables (W B D : Type).
  Variable solve : nat -> W -> B.
  Variable reweight : nat -> B -> W -> W * bool.
  Variable diff : nat -> W -> W -> B -> D.
  Variable below : D -> bool.
  Variable w0 : W.

  Notation go := (go W B D solve reweight diff below).
  Notation wseq := (wseq W B solve reweight w0).
  Notation bseq := (bseq W B solve reweight w0).
  Notation eseq := (eseq W B solve reweight w0).
  Notation dseq := (dseq W B D solve reweight diff w0).
  Notation stops := (stops W B D solve reweight diff below w0).
  Notation first_stop := (first_stop W B D solve reweight diff below w0).
  Notation hist_upto := (hist_upto W B D solve reweight diff w0).

  Lemma hist_upto_S k : hist_upto (S k) = hist_upto k ++ [dseq k].
  Proof. unfold Loop.hist_upto. rewrite seq_S, map_app. reflexivity. Qed.

  Lemma go_from (fuel : nat) : forall i, (0 < fuel)%nat ->
    go fuel i (wseq i) (hist_upto i) =
    match first_stop fuel i with
    | None => Some {| r_base := bseq (i + fuel - 1); r_state := wseq (i + fuel);
                      r_hist := hist_upto (i + fuel); r_reason := Exhausted |}
    | Some j =>
        if eseq j then Some {| r_base := bseq j; r_state := wseq j;
                               r_hist := hist_upto j; r_reason := EarlyExit |}
        else Some {| r_base := bseq j; r_state := wseq j;
                     r_hist := hist_upto (S j); r_reason := Converged |}
    end.
  Proof.
    induction fuel as [|f IH]; intros i Hf; [lia|].
    cbn [Loop.go Loop.first_stop]. unfold Loop.stops.
    change (solve i (wseq i)) with (bseq i).
    destruct (reweight i (bseq i) (wseq i)) as [w' early] eqn:Hrw.
    assert (He : eseq i = early) by (unfold Loop.eseq; rewrite Hrw; reflexivity).
    assert (Hw : wseq (S i) = w') by (cbn [Loop.wseq]; change (solve i (wseq i)) with (bseq i); rewrite Hrw; reflexivity).
    rewrite He. destruct early; cbn [orb].
    - rewrite He. reflexivity.
    - assert (Hd : diff i (wseq i) w' (bseq i) = dseq i) by (unfold Loop.dseq; rewrite Hw; reflexivity).
      rewrite Hd. destruct (below (dseq i)) eqn:Hb.
      + rewrite He, hist_upto_S. reflexivity.
      + destruct f as [|f'].
        * cbn [Loop.first_stop]. rewrite <- Hw, <- hist_upto_S.
          replace (i + 1 - 1) with i by lia. replace (i + 1) with (S i) by lia. reflexivity.
        * rewrite <- Hw, <- hist_upto_S. rewrite IH by lia.
          replace (S i + S f' - 1) with (i + S (S f') - 1) by lia.
          replace (S i + S f') with (i + S (S f')) by lia. reflexivity.
  Qed.

  Theorem loop_spec (budget : nat) :
    loop W B D solve reweight diff below budget w0 = spec W B D solve reweight diff below w0 budget.
  Proof.
    unfold loop, spec. destruct budget as [|b]; [reflexivity|].
    change (@nil D) with (hist_upto 0). change w0 with (wseq 0) at 1.
    rewrite go_from by lia. reflexivity.
  Qed.

  (* ---- consequences ---- *)
  Lemma first_stop_range fuel : forall i j, first_stop fuel i = Some j ->
    i <= j < i + fuel /\ stops j = true /\ forall k, i <= k < j -> stops k = false.
  Proof.
    induction fuel as [|f IH]; intros i j H; [discriminate|].
    cbn [Loop.first_stop] in H. destruct (stops i) eqn:Hs.
    - injection H as <-. repeat split; try lia; try assumption.
    - apply IH in H as (H1 & H2 & H3). repeat split; try lia; try assumption.
      intros k Hk. destruct (Nat.eq_dec k i) as [->|]; [assumption|apply H3; lia].
  Qed.

  Lemma first_stop_none fuel : forall i, first_stop fuel i = None ->
    forall k, i <= k < i + fuel -> stops k = false.
  Proof.
    induction fuel as [|f IH]; intros i H k Hk; [lia|].
    cbn [Loop.first_stop] in H. destruct (stops i) eqn:Hs; [discriminate|].
    destruct (Nat.eq_dec k i) as [->|]; [assumption|apply (IH (S i)); [assumption|lia]].
  Qed.

  Lemma hist_len k : length (hist_upto k) = k.
  Proof. unfold Loop.hist_upto. rewrite map_length, seq_length. reflexivity. Qed.

  Lemma hist_not_below k : (forall m, m < k -> stops m = false) ->
    Forall (fun d => below d = false) (hist_upto k).
  Proof.
    intros H. unfold Loop.hist_upto. apply Forall_forall. intros d Hd.
    apply in_map_iff in Hd as (m & <- & Hm). apply in_seq in Hm.
    specialize (H m ltac:(lia)). unfold Loop.stops in H. apply orb_false_iff in H. tauto.
  Qed.

  (* the record has at most `budget` entries; on convergence its last entry is the first one
     below tol; on exhaustion it has exactly `budget` entries none below tol; on early exit none
     is below tol and the pass that exited recorded nothing *)
  Theorem loop_record (budget : nat) r :
    loop W B D solve reweight diff below budget w0 = Some r ->
    length (r_hist r) <= budget /\
    match r_reason r with
    | Converged => exists h d, r_hist r = h ++ [d] /\ below d = true /\ Forall (fun x => below x = false) h
    | Exhausted => length (r_hist r) = budget /\ Forall (fun x => below x = false) (r_hist r)
    | EarlyExit => length (r_hist r) < budget /\ Forall (fun x => below x = false) (r_hist r)
    end.
  Proof.
    rewrite loop_spec. unfold spec. destruct budget as [|b]; [discriminate|].
    destruct (first_stop (S b) 0) as [j|] eqn:Hfs.
    - apply first_stop_range in Hfs as (Hj & Hsj & Hbefore).
      destruct (eseq j) eqn:He; intros [= <-]; cbn [r_hist r_reason]; rewrite ?hist_len.
      + split; [lia|]. split; [lia|]. apply hist_not_below. intros; apply Hbefore; lia.
      + split; [lia|]. exists (hist_upto j), (dseq j). rewrite hist_upto_S. split; [reflexivity|].
        unfold Loop.stops in Hsj. rewrite He in Hsj. cbn [orb] in Hsj. split; [exact Hsj|].
        apply hist_not_below. intros; apply Hbefore; lia.
    - intros [= <-]; cbn [r_hist r_reason]; rewrite ?hist_len. split; [lia|]. split; [reflexivity|].
      apply hist_not_below. intros m Hm. apply (first_stop_none _ _ Hfs). lia.
  Qed.

  (* the returned pair: on convergence / early exit the returned baseline is the solve of the
     returned state; on exhaustion the returned state is the reweighting of the returned baseline *)
  Theorem loop_returned_pair (budget : nat) r :
    loop W B D solve reweight diff below budget w0 = Some r ->
    match r_reason r with
    | Converged | EarlyExit => exists k, k < budget /\ r_base r = solve k (r_state r)
    | Exhausted => exists wprev, r_base r = solve (budget - 1) wprev /\
                                 r_state r = fst (reweight (budget - 1) (r_base r) wprev)
    end.
  Proof.
    rewrite loop_spec. unfold spec. destruct budget as [|b]; [discriminate|].
    destruct (first_stop (S b) 0) as [j|] eqn:Hfs.
    - apply first_stop_range in Hfs as (Hj & _ & _).
      destruct (eseq j); intros [= <-]; cbn [r_base r_state r_reason]; exists j; (split; [lia|reflexivity]).
    - intros [= <-]; cbn [r_base r_state r_reason]. exists (wseq b).
      replace (S b - 1) with b by lia. rewrite ?Nat.sub_0_r. split; reflexivity.
  Qed.
End LoopProofs.
