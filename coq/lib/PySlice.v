(* Python / NumPy index semantics for one axis of length n. *)
From Coq Require Import ZArith List Bool Lia ZifyBool.
Open Scope Z_scope.

(* scalar subscript a[c]: legal iff -n <= c < n *)
Definition idx_ok (n c : Z) : bool := (- n <=? c) && (c <? n).
Definition pos (n c : Z) : Z := if c <? 0 then n + c else c.

(* slice bound: a[c:...] / a[...:c] are clamped, never raise *)
Definition clamp (n c : Z) : Z := if c <? 0 then Z.max (n + c) 0 else Z.min c n.
Definition sl_start (n : Z) (a : option Z) : Z := match a with None => 0 | Some a => clamp n a end.
Definition sl_stop (n : Z) (b : option Z) : Z := match b with None => n | Some b => clamp n b end.
Definition sl_len (n : Z) (a b : option Z) : Z := Z.max 0 (sl_stop n b - sl_start n a).

(* column selectors of an assignment  out[row, <colspec>] = v *)
Inductive colspec := Idx (c : Z) | Slc (a b : option Z).

Definition sel (n : Z) (s : colspec) (j : Z) : bool :=
  match s with
  | Idx c => j =? pos n c
  | Slc a b => (sl_start n a <=? j) && (j <? sl_stop n b)
  end.

Definition opt_abs (a : option Z) : Z := match a with None => 0 | Some a => Z.abs a end.
Definition col_offset (s : colspec) : Z :=
  match s with Idx c => Z.abs c | Slc a b => Z.max (opt_abs a) (opt_abs b) end.

Lemma clamp_pos n c : Z.abs c <= n -> clamp n c = pos n c.
Proof. unfold clamp, pos. destruct (c <? 0) eqn:?; lia. Qed.

Lemma pos_range n c : idx_ok n c = true -> 0 <= pos n c < n.
Proof. unfold idx_ok, pos. destruct (c <? 0) eqn:?; lia. Qed.

(* a[k:-k] has length n-2k when 2k <= n, a[-k:] the last k, a[:-k] all but the last k *)
Lemma len_mid n k : 0 < k -> 2 * k <= n -> sl_len n (Some k) (Some (- k)) = n - 2 * k.
Proof. unfold sl_len, sl_start, sl_stop, clamp. intros.
  destruct (k <? 0) eqn:?, (- k <? 0) eqn:?; lia. Qed.
(* the "-0 = 0" pitfall: a[k:-k] with k = 0 is empty, not the whole array *)
Lemma len_mid_zero n : 0 <= n -> sl_len n (Some 0) (Some (- 0)) = 0.
Proof. unfold sl_len, sl_start, sl_stop, clamp. simpl. lia. Qed.
