(* 2-D integer arrays as shape + index function; executable through [tab]. *)
From Coq Require Import ZArith List Bool Lia ZifyBool.
Import ListNotations.
Open Scope Z_scope.

Record arr := mkarr { nr : Z; nc : Z; get : Z -> Z -> Z }.

Definition aeq (a b : arr) : Prop :=
  nr a = nr b /\ nc a = nc b /\
  forall r c, 0 <= r < nr a -> 0 <= c < nc a -> get a r c = get b r c.

Definition zrange (lo n : Z) : list Z := map (fun k => lo + Z.of_nat k) (seq 0 (Z.to_nat n)).

Lemma zrange_In lo n x : In x (zrange lo n) <-> lo <= x < lo + n.
Proof.
  unfold zrange. rewrite in_map_iff. split.
  - intros [k [<- Hk]]. apply in_seq in Hk. lia.
  - intros H. exists (Z.to_nat (x - lo)). split; [lia|]. apply in_seq. lia.
Qed.

Definition tab (a : arr) : list (list Z) :=
  map (fun r => map (fun c => get a r c) (zrange 0 (nc a))) (zrange 0 (nr a)).

Lemma aeq_refl a : aeq a a.
Proof. repeat split. Qed.
Lemma aeq_sym a b : aeq a b -> aeq b a.
Proof. intros (H1 & H2 & H3). repeat split; try congruence. intros. symmetry. apply H3; lia. Qed.
Lemma aeq_trans a b c : aeq a b -> aeq b c -> aeq a c.
Proof. intros (H1 & H2 & H3) (G1 & G2 & G3). repeat split; try congruence.
  intros. rewrite H3 by lia. apply G3; lia. Qed.

(* a[::-1] *)
Definition rev_rows (a : arr) : arr := mkarr (nr a) (nc a) (fun r c => get a (nr a - 1 - r) c).
(* a[k:]  for 0 <= k <= rows *)
Definition drop_rows (k : Z) (a : arr) : arr := mkarr (nr a - k) (nc a) (fun r c => get a (r + k) c).
Definition scale (l : Z) (a : arr) : arr := mkarr (nr a) (nc a) (fun r c => l * get a r c).

Lemma rev_rows_cong a b : aeq a b -> aeq (rev_rows a) (rev_rows b).
Proof. intros (H1 & H2 & H3). unfold rev_rows; repeat split; cbn; try congruence.
  intros. rewrite <- H1. apply H3; lia. Qed.
Lemma drop_rows_cong k a b : 0 <= k -> aeq a b -> aeq (drop_rows k a) (drop_rows k b).
Proof. intros Hk (H1 & H2 & H3). unfold drop_rows; repeat split; cbn in *; try congruence.
  intros. apply H3; lia. Qed.
Lemma scale_cong l a b : aeq a b -> aeq (scale l a) (scale l b).
Proof. intros (H1 & H2 & H3). unfold scale; repeat split; cbn in *; try congruence.
  intros. rewrite H3 by lia. reflexivity. Qed.
Lemma rev_rows_invol a : aeq (rev_rows (rev_rows a)) a.
Proof. unfold rev_rows; repeat split; cbn. intros. f_equal. lia. Qed.
