(* The iteration skeleton shared by every iteratively-reweighted / iterated method of pybaselines,
   as a total function over abstract oracles, and its complete functional specification:
   the loop stops exactly at the first iteration that exits early or records a value below tol,
   or when the budget is exhausted -- never earlier or later.

     for i in range(budget):                      # budget = max_iter + 1  (or max_iter, ...)
         baseline = solve(i, state)
         new_state, exit_early = reweight(i, baseline, state)
         if exit_early: i -= 1; break             # nothing recorded for this pass
         d = diff(i, state, new_state, baseline); tol_history[i] = d
         if d < tol: break                        # state NOT updated
         state = new_state
     return baseline, state, tol_history[:i + 1]

   An empty range leaves `i`/`baseline` unbound in Python (UnboundLocalError): [None] here. *)
From Coq Require Import List Bool Arith Lia.
Import ListNotations.

Inductive reason := Converged | Exhausted | EarlyExit.

Section Loop.
  Variables (W B D : Type).
  Variable solve : nat -> W -> B.
  Variable reweight : nat -> B -> W -> W * bool.
  Variable diff : nat -> W -> W -> B -> D.
  Variable below : D -> bool.

  Record result := { r_base : B; r_state : W; r_hist : list D; r_reason : reason }.

  (* [fuel] passes remain, the next pass has index [i] *)
  Fixpoint go (fuel i : nat) (w : W) (hist : list D) : option result :=
    match fuel with
    | O => None
    | S f =>
        let b := solve i w in
        let '(w', early) := reweight i b w in
        if early then Some {| r_base := b; r_state := w; r_hist := hist; r_reason := EarlyExit |}
        else
          let d := diff i w w' b in
          let hist' := hist ++ [d] in
          if below d then Some {| r_base := b; r_state := w; r_hist := hist'; r_reason := Converged |}
          else match f with
               | O => Some {| r_base := b; r_state := w'; r_hist := hist'; r_reason := Exhausted |}
               | S _ => go f (S i) w' hist'
               end
    end.

  Definition loop (budget : nat) (w0 : W) : option result := go budget 0 w0 [].

  (* the free-running sequences: what every pass would compute if nothing stopped the loop *)
  Variable w0 : W.
  Fixpoint wseq (k : nat) : W :=
    match k with
    | O => w0
    | S k' => fst (reweight k' (solve k' (wseq k')) (wseq k'))
    end.
  Definition bseq (k : nat) : B := solve k (wseq k).
  Definition eseq (k : nat) : bool := snd (reweight k (bseq k) (wseq k)).
  Definition dseq (k : nat) : D := diff k (wseq k) (wseq (S k)) (bseq k).
  Definition stops (k : nat) : bool := eseq k || below (dseq k).

  (* least k in [i, i + fuel) with stops k *)
  Fixpoint first_stop (fuel i : nat) : option nat :=
    match fuel with
    | O => None
    | S f => if stops i then Some i else first_stop f (S i)
    end.

  Definition hist_upto (k : nat) : list D := map dseq (seq 0 k).

  Definition spec (budget : nat) : option result :=
    match budget with
    | O => None
    | S _ =>
        match first_stop budget 0 with
        | None => Some {| r_base := bseq (budget - 1); r_state := wseq budget;
                          r_hist := hist_upto budget; r_reason := Exhausted |}
        | Some j =>
            if eseq j then Some {| r_base := bseq j; r_state := wseq j;
                                   r_hist := hist_upto j; r_reason := EarlyExit |}
            else Some {| r_base := bseq j; r_state := wseq j;
                         r_hist := hist_upto (S j); r_reason := Converged |}
        end
    end.
End Loop.

Arguments r_base {W B D}.
Arguments r_state {W B D}.
Arguments r_hist {W B D}.
Arguments r_reason {W B D}.
