(* Helpers for generated correspondence cases: compare inside Coq, print only counts/indices. *)
From Coq Require Import ZArith List Bool.
Import ListNotations.
Open Scope Z_scope.

Fixpoint zl_eqb (x y : list Z) : bool :=
  match x, y with
  | [], [] => true
  | a :: x', b :: y' => (a =? b) && zl_eqb x' y'
  | _, _ => false
  end.

Fixpoint zll_eqb (x y : list (list Z)) : bool :=
  match x, y with
  | [], [] => true
  | a :: x', b :: y' => zl_eqb a b && zll_eqb x' y'
  | _, _ => false
  end.

Fixpoint bl_eqb (x y : list bool) : bool :=
  match x, y with
  | [], [] => true
  | a :: x', b :: y' => Bool.eqb a b && bl_eqb x' y'
  | _, _ => false
  end.

(* (number of failing cases, indices of the first few) *)
Fixpoint bad_from {A} (f : A -> bool) (l : list A) (i : nat) (cnt : nat) (acc : list nat) : nat * list nat :=
  match l with
  | [] => (cnt, rev acc)
  | x :: l' =>
      if f x then bad_from f l' (S i) cnt acc
      else bad_from f l' (S i) (S cnt) (if Nat.ltb (length acc) 8 then i :: acc else acc)
  end.
Definition bad {A} (f : A -> bool) (l : list A) : nat * list nat := bad_from f l 0%nat 0%nat [].
