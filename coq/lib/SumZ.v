(* Finite sums of integers indexed by 0..n-1 and the lemmas used throughout. *)
From Coq Require Import ZArith List Bool Lia ZifyBool.
Open Scope Z_scope.

Fixpoint sumZ (n : nat) (f : Z -> Z) : Z :=
  match n with O => 0 | S n' => sumZ n' f + f (Z.of_nat n') end.

Lemma sumZ_S n f : sumZ (S n) f = sumZ n f + f (Z.of_nat n).
Proof. reflexivity. Qed.

Lemma sumZ_ext n f g :
  (forall k, 0 <= k < Z.of_nat n -> f k = g k) -> sumZ n f = sumZ n g.
Proof.
  induction n as [|n IH]; intros H; [reflexivity|].
  rewrite !sumZ_S. rewrite IH, (H (Z.of_nat n)) by (try (intros; apply H); lia). reflexivity.
Qed.

Lemma sumZ_zero n f : (forall k, 0 <= k < Z.of_nat n -> f k = 0) -> sumZ n f = 0.
Proof.
  induction n as [|n IH]; intros H; [reflexivity|].
  rewrite sumZ_S, IH, (H (Z.of_nat n)) by (try (intros; apply H); lia). reflexivity.
Qed.

Lemma sumZ_add n f g : sumZ n (fun k => f k + g k) = sumZ n f + sumZ n g.
Proof. induction n as [|n IH]; [reflexivity|]. rewrite !sumZ_S, IH. ring. Qed.

Lemma sumZ_scale n a f : sumZ n (fun k => a * f k) = a * sumZ n f.
Proof. induction n as [|n IH]; [simpl; ring|]. rewrite !sumZ_S, IH. ring. Qed.

Lemma sumZ_point n p v :
  sumZ n (fun m => if m =? p then v else 0)
  = if (0 <=? p) && (p <? Z.of_nat n) then v else 0.
Proof.
  induction n as [|n IH].
  - simpl. destruct (0 <=? p) eqn:?, (p <? 0) eqn:?; simpl; try reflexivity; lia.
  - rewrite sumZ_S, IH.
    destruct (Z.of_nat n =? p) eqn:?, (0 <=? p) eqn:?, (p <? Z.of_nat n) eqn:?,
             (p <? Z.of_nat (S n)) eqn:?; cbn [andb]; try lia.
Qed.

(* A sum whose summand vanishes outside the window j-d <= k <= j is a sum over
   the d+1 window positions. *)
Lemma sumZ_window (d n : nat) (j : Z) (g : Z -> Z) :
  (forall k, j - k < 0 \/ j - k > Z.of_nat d -> g k = 0) ->
  sumZ n g = sumZ (S d) (fun m => if (0 <=? j - m) && (j - m <? Z.of_nat n) then g (j - m) else 0).
Proof.
  intros Hg. induction n as [|n IH].
  - symmetry. apply sumZ_zero. intros k Hk.
    destruct (0 <=? j - k) eqn:?, (j - k <? Z.of_nat 0) eqn:?; cbn [andb]; try reflexivity; lia.
  - rewrite sumZ_S, IH.
    assert (E : g (Z.of_nat n) =
            sumZ (S d) (fun m => if m =? j - Z.of_nat n then g (Z.of_nat n) else 0)).
    { rewrite sumZ_point.
      destruct (0 <=? j - Z.of_nat n) eqn:?, (j - Z.of_nat n <? Z.of_nat (S d)) eqn:?;
        cbn [andb]; try reflexivity; apply Hg; lia. }
    rewrite E at 1. rewrite <- sumZ_add. apply sumZ_ext. intros k Hk.
    destruct (k =? j - Z.of_nat n) eqn:Hkn.
    + assert (j - k = Z.of_nat n) as -> by lia.
      destruct (0 <=? Z.of_nat n) eqn:?, (Z.of_nat n <? Z.of_nat n) eqn:?,
               (Z.of_nat n <? Z.of_nat (S n)) eqn:?; cbn [andb]; try lia.
    + destruct (0 <=? j - k) eqn:?, (j - k <? Z.of_nat n) eqn:?,
               (j - k <? Z.of_nat (S n)) eqn:?; cbn [andb]; try lia.
Qed.
