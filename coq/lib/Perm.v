(* Permutation plumbing of pybaselines.utils, as executable list functions (models only; the
   proofs are in lib/PermProofs.v).

   - an index array is a [list nat]; [gather d a p] is NumPy's [a[p]] (fancy indexing);
   - [inverted_sort] is utils._inverted_sort EXACTLY AS CODED:
         inverted_order = np.empty(n);  inverted_order[sort_order] = np.arange(n)
     i.e. the sequential scatter  inv[p[i]] := i  (last write wins), NOT an argsort;
   - [argsort] is data.argsort(kind='mergesort'): a stable sort; the result of any stable sort
     is the one insertion sort produces (insert index i after every earlier index whose key is
     <= key i);
   - [incr] is the test (sort_order[1:] > sort_order[:-1]).all() of utils._determine_sorts;
   - [determine_sorts] is utils._determine_sorts;  [sort_array] is utils._sort_array (1-D). *)
From Coq Require Import ZArith List Bool Arith.
Import ListNotations.

Definition gather {A} (d : A) (a : list A) (p : list nat) : list A :=
  map (fun i => nth i a d) p.

Fixpoint upd (l : list nat) (k v : nat) : list nat :=
  match l, k with
  | [], _ => []
  | _ :: t, O => v :: t
  | h :: t, S k' => h :: upd t k' v
  end.

(* inv[p[0]] := i; inv[p[1]] := i+1; ... *)
Fixpoint scatter (inv p : list nat) (i : nat) : list nat :=
  match p with
  | [] => inv
  | k :: p' => scatter (upd inv k i) p' (S i)
  end.

Definition inverted_sort (p : list nat) : list nat := scatter (repeat 0 (length p)) p 0.

(* stable insertion of index i (larger than every index already in s) *)
Fixpoint ins (x : list Z) (i : nat) (s : list nat) : list nat :=
  match s with
  | [] => [i]
  | j :: s' => if (nth i x 0 <? nth j x 0)%Z then i :: j :: s' else j :: ins x i s'
  end.

Fixpoint argsort_upto (x : list Z) (k : nat) : list nat :=
  match k with
  | O => []
  | S k' => ins x k' (argsort_upto x k')
  end.

Definition argsort (x : list Z) : list nat := argsort_upto x (length x).

(* (sort_order[1:] > sort_order[:-1]).all()   (True for length 0 and 1) *)
Fixpoint incr (s : list nat) : bool :=
  match s with
  | a :: ((b :: _) as t) => (a <? b) && incr t
  | _ => true
  end.

(* utils._determine_sorts: (None, None) iff the stable argsort is strictly increasing *)
Definition determine_sorts (x : list Z) : option (list nat * list nat) :=
  let s := argsort x in
  if incr s then None else Some (s, inverted_sort s).

(* utils._sort_array on a 1-D array / the [sort_order]-indexing of the wrappers *)
Definition sort_array {A} (d : A) (a : list A) (order : option (list nat)) : list A :=
  match order with
  | None => a
  | Some p => gather d a p
  end.

(* utils._sort_array on a 2-D array: array[:, sort_order] *)
Definition sort_array_rows {A} (d : A) (a : list (list A)) (order : option (list nat)) : list (list A) :=
  match order with
  | None => a
  | Some p => map (fun row => gather d row p) a
  end.
