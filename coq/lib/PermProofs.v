(* Proofs about lib/Perm.v: the inverse built by utils._inverted_sort, composition of index
   arrays, the stable argsort, uniqueness of the sorting permutation for distinct keys. *)
From Coq Require Import ZArith List Bool Arith Lia Permutation Sorted.
From PB Require Import lib.Perm.
Import ListNotations.

Definition is_perm (p : list nat) (n : nat) : Prop := Permutation p (seq 0 n).

Lemma is_perm_length p n : is_perm p n -> length p = n.
Proof. intro H. apply Permutation_length in H. now rewrite seq_length in H. Qed.

Lemma is_perm_lt p n i : is_perm p n -> In i p -> i < n.
Proof. intros H Hi. apply (Permutation_in _ H) in Hi. apply in_seq in Hi. lia. Qed.

Lemma is_perm_NoDup p n : is_perm p n -> NoDup p.
Proof. intro H. apply (Permutation_NoDup (Permutation_sym H)). apply seq_NoDup. Qed.

Lemma is_perm_surj p n j : is_perm p n -> j < n -> exists i, i < n /\ nth i p 0 = j.
Proof.
  intros H Hj.
  assert (Hin : In j p). { apply (Permutation_in _ (Permutation_sym H)). apply in_seq. lia. }
  destruct (In_nth _ _ 0 Hin) as [i [Hi E]]. exists i.
  rewrite (is_perm_length _ _ H) in Hi. auto.
Qed.

Lemma is_perm_intro p n : NoDup p -> length p = n -> (forall i, In i p -> i < n) -> is_perm p n.
Proof.
  intros ND L B. apply NoDup_Permutation_bis; auto.
  - rewrite seq_length. lia.
  - intros i Hi. apply in_seq. specialize (B i Hi). lia.
Qed.

Lemma is_perm_nth_lt p n k : is_perm p n -> k < n -> nth k p 0 < n.
Proof.
  intros H Hk. apply (is_perm_lt p n); auto. apply nth_In. rewrite (is_perm_length _ _ H); auto.
Qed.

(* ---------------------------------------------------------------- upd / scatter *)
Lemma upd_length l k v : length (upd l k v) = length l.
Proof. revert k; induction l; intros [|k]; simpl; auto. Qed.

Lemma nth_upd_same l k v : k < length l -> nth k (upd l k v) 0 = v.
Proof. revert k; induction l; intros [|k] H; simpl in *; try lia; auto. apply IHl; lia. Qed.

Lemma nth_upd_other l k v j : j <> k -> nth j (upd l k v) 0 = nth j l 0.
Proof.
  revert k j; induction l; intros [|k] [|j] H; simpl; auto; try congruence.
Qed.

Lemma scatter_length p : forall inv i, length (scatter inv p i) = length inv.
Proof. induction p; intros; simpl; auto. rewrite IHp, upd_length; auto. Qed.

Lemma scatter_notin p : forall inv i j, ~ In j p -> nth j (scatter inv p i) 0 = nth j inv 0.
Proof.
  induction p; intros inv i j H; simpl; auto. rewrite IHp.
  - apply nth_upd_other. intro; subst; apply H; left; auto.
  - intro; apply H; right; auto.
Qed.

Lemma scatter_in p : forall inv i k, NoDup p -> (forall q, In q p -> q < length inv) ->
  k < length p -> nth (nth k p 0) (scatter inv p i) 0 = i + k.
Proof.
  induction p; intros inv i k ND B Hk; simpl in Hk; [lia|].
  inversion ND; subst. destruct k; simpl.
  - rewrite scatter_notin; auto. rewrite nth_upd_same; [lia|]. apply B; left; auto.
  - rewrite IHp; auto; [lia| |lia]. intros q Hq. rewrite upd_length. apply B; right; auto.
Qed.

(* ---------------------------------------------------------------- inverted_sort *)
Lemma inverted_sort_length p : length (inverted_sort p) = length p.
Proof. unfold inverted_sort. rewrite scatter_length, repeat_length. auto. Qed.

(* inv[p[k]] = k *)
Lemma inverted_sort_spec p n k : is_perm p n -> k < n -> nth (nth k p 0) (inverted_sort p) 0 = k.
Proof.
  intros H Hk. unfold inverted_sort. rewrite scatter_in; auto.
  - eapply is_perm_NoDup; eauto.
  - intros q Hq. rewrite repeat_length, (is_perm_length _ _ H). eapply is_perm_lt; eauto.
  - rewrite (is_perm_length _ _ H); auto.
Qed.

(* p[inv[j]] = j *)
Lemma inverted_sort_spec_r p n j : is_perm p n -> j < n -> nth (nth j (inverted_sort p) 0) p 0 = j.
Proof.
  intros H Hj. destruct (is_perm_surj _ _ _ H Hj) as [i [Hi E]]. subst j.
  rewrite (inverted_sort_spec p n i); auto.
Qed.

Lemma inverted_sort_lt p n j : is_perm p n -> j < n -> nth j (inverted_sort p) 0 < n.
Proof.
  intros H Hj. destruct (is_perm_surj _ _ _ H Hj) as [i [Hi E]]. subst j.
  rewrite (inverted_sort_spec p n i); auto.
Qed.

Lemma inverted_sort_perm p n : is_perm p n -> is_perm (inverted_sort p) n.
Proof.
  intro H. pose proof (is_perm_length _ _ H) as L. apply is_perm_intro.
  - apply (NoDup_nth _ 0). intros i j Hi Hj E. rewrite inverted_sort_length, L in *.
    assert (E2 : nth (nth i (inverted_sort p) 0) p 0 = nth (nth j (inverted_sort p) 0) p 0)
      by (rewrite E; auto).
    rewrite !(inverted_sort_spec_r p n) in E2; auto.
  - rewrite inverted_sort_length; auto.
  - intros i Hi. destruct (In_nth _ _ 0 Hi) as [k [Hk E]]. subst i.
    rewrite inverted_sort_length, L in Hk. apply inverted_sort_lt; auto.
Qed.

Lemma inverse_unique p n q : is_perm p n -> length q = n ->
  (forall k, k < n -> nth (nth k p 0) q 0 = k) -> q = inverted_sort p.
Proof.
  intros H L S. apply nth_ext with 0 0.
  - rewrite inverted_sort_length, (is_perm_length _ _ H); auto.
  - intros j Hj. rewrite L in Hj. destruct (is_perm_surj _ _ _ H Hj) as [i [Hi E]]. subst j.
    rewrite S, (inverted_sort_spec p n); auto.
Qed.

Lemma inverted_sort_involutive p n : is_perm p n -> inverted_sort (inverted_sort p) = p.
Proof.
  intro H. symmetry. apply inverse_unique with n.
  - apply inverted_sort_perm; auto.
  - eapply is_perm_length; eauto.
  - intros k Hk. apply inverted_sort_spec_r with n; auto.
Qed.

(* ---------------------------------------------------------------- gather *)
Lemma gather_length {A} (d : A) a p : length (gather d a p) = length p.
Proof. unfold gather. apply map_length. Qed.

Lemma nth_gather {A} (d : A) a p k : k < length p -> nth k (gather d a p) d = nth (nth k p 0) a d.
Proof.
  intro H. unfold gather. rewrite (nth_indep _ d (nth 0 a d)).
  - apply (map_nth (fun i => nth i a d)).
  - rewrite map_length; auto.
Qed.

Lemma gather_gather {A} (d : A) a p q : (forall i, In i q -> i < length p) ->
  gather d (gather d a p) q = gather d a (gather 0 p q).
Proof.
  intro H.
  change (map (fun i => nth i (gather d a p) d) q = map (fun i => nth i a d) (map (fun i => nth i p 0) q)).
  rewrite map_map. apply map_ext_in. intros i Hi. apply nth_gather. auto.
Qed.

Lemma gather_seq {A} (d : A) a : gather d a (seq 0 (length a)) = a.
Proof.
  apply nth_ext with d d.
  - rewrite gather_length, seq_length; auto.
  - intros k Hk. rewrite gather_length, seq_length in Hk.
    rewrite nth_gather by (rewrite seq_length; auto). rewrite seq_nth; auto.
Qed.

Lemma gather_perm p q n : is_perm p n -> is_perm q n -> is_perm (gather 0 p q) n.
Proof.
  intros Hp Hq. unfold is_perm.
  apply perm_trans with (gather 0 p (seq 0 n)).
  - unfold gather. apply Permutation_map. exact Hq.
  - rewrite <- (is_perm_length _ _ Hp) at 1. rewrite gather_seq. exact Hp.
Qed.

Lemma compose_inverse_r p n : is_perm p n -> gather 0 p (inverted_sort p) = seq 0 n.
Proof.
  intro H. pose proof (is_perm_length _ _ H) as L. apply nth_ext with 0 0.
  - rewrite gather_length, seq_length, inverted_sort_length; auto.
  - intros k Hk. rewrite gather_length, inverted_sort_length, L in Hk.
    rewrite nth_gather by (rewrite inverted_sort_length; lia).
    rewrite seq_nth; auto. simpl. apply inverted_sort_spec_r with n; auto.
Qed.

Lemma compose_inverse_l p n : is_perm p n -> gather 0 (inverted_sort p) p = seq 0 n.
Proof.
  intro H. rewrite <- (inverted_sort_involutive p n H) at 2.
  apply compose_inverse_r. apply inverted_sort_perm; auto.
Qed.

(* a == a[sort_order][inverted_order]   (the docstring of utils._inverted_sort) *)
Lemma gather_inverse {A} (d : A) a p n : length a = n -> is_perm p n ->
  gather d (gather d a p) (inverted_sort p) = a.
Proof.
  intros L H. rewrite gather_gather.
  - rewrite (compose_inverse_r p n H). rewrite <- L. apply gather_seq.
  - intros i Hi. rewrite (is_perm_length _ _ H). eapply is_perm_lt; [apply inverted_sort_perm|]; eauto.
Qed.

(* a == a[inverted_order][sort_order] *)
Lemma gather_inverse' {A} (d : A) a p n : length a = n -> is_perm p n ->
  gather d (gather d a (inverted_sort p)) p = a.
Proof.
  intros L H. rewrite <- (inverted_sort_involutive p n H) at 2.
  apply gather_inverse with n; auto. apply inverted_sort_perm; auto.
Qed.

(* ---------------------------------------------------------------- stable argsort *)
Definition key (x : list Z) (i : nat) : Z := nth i x 0%Z.
Definition kle (x : list Z) (i j : nat) : Prop := (key x i <= key x j)%Z.

Lemma ins_perm x i s : Permutation (ins x i s) (i :: s).
Proof.
  induction s as [|j s IH]; simpl; auto.
  destruct (nth i x 0 <? nth j x 0)%Z; auto.
  apply perm_trans with (j :: i :: s); [apply perm_skip; exact IH | apply perm_swap].
Qed.

Lemma argsort_upto_perm x k : is_perm (argsort_upto x k) k.
Proof.
  unfold is_perm. induction k; [simpl; auto|]. cbn [argsort_upto].
  apply perm_trans with (k :: argsort_upto x k); [apply ins_perm|].
  rewrite seq_S. cbn [plus]. apply perm_trans with (k :: seq 0 k); [apply perm_skip; exact IHk|].
  apply Permutation_cons_append.
Qed.

Lemma argsort_perm x : is_perm (argsort x) (length x).
Proof. apply argsort_upto_perm. Qed.

Lemma ins_sorted x i s : StronglySorted (kle x) s -> StronglySorted (kle x) (ins x i s).
Proof.
  induction s as [|j s IH]; intro S; simpl.
  - constructor; constructor.
  - apply StronglySorted_inv in S. destruct S as [S F].
    destruct (nth i x 0 <? nth j x 0)%Z eqn:E.
    + constructor. { constructor; auto. }
      apply Z.ltb_lt in E. constructor. { unfold kle, key. lia. }
      eapply Forall_impl; [|exact F]. intros a Ha. unfold kle, key in *. lia.
    + apply Z.ltb_ge in E. constructor; auto.
      apply Forall_forall. intros a Ha. apply (Permutation_in _ (ins_perm x i s)) in Ha.
      destruct Ha as [<-|Ha]. { unfold kle, key; lia. }
      rewrite Forall_forall in F. auto.
Qed.

Lemma argsort_upto_sorted x k : StronglySorted (kle x) (argsort_upto x k).
Proof. induction k; simpl; [constructor | apply ins_sorted; auto]. Qed.

Lemma sorted_idx_val x s : StronglySorted (kle x) s -> StronglySorted Z.le (gather 0%Z x s).
Proof.
  induction s as [|a s IH]; intro S; simpl; [constructor|].
  apply StronglySorted_inv in S. destruct S as [S F]. constructor; auto.
  unfold gather. apply Forall_map. eapply Forall_impl; [|exact F]. intros b Hb. exact Hb.
Qed.

(* x[argsort x] is non-decreasing *)
Lemma argsort_sorted x : StronglySorted Z.le (gather 0%Z x (argsort x)).
Proof. apply sorted_idx_val. apply argsort_upto_sorted. Qed.

Lemma sorted_perm_unique {A} (R : A -> A -> Prop) : (forall a b, R a b -> R b a -> a = b) ->
  forall l1 l2, StronglySorted R l1 -> StronglySorted R l2 -> Permutation l1 l2 -> l1 = l2.
Proof.
  intros anti. induction l1 as [|a l1 IH]; intros l2 S1 S2 P.
  - apply Permutation_nil in P. auto.
  - destruct l2 as [|b l2]. { apply Permutation_sym, Permutation_nil in P. discriminate. }
    apply StronglySorted_inv in S1. destruct S1 as [S1 F1].
    apply StronglySorted_inv in S2. destruct S2 as [S2 F2].
    assert (E : a = b).
    { assert (Ha : In a (b :: l2)) by (apply (Permutation_in _ P); left; auto).
      assert (Hb : In b (a :: l1)) by (apply (Permutation_in _ (Permutation_sym P)); left; auto).
      destruct Ha as [->|Ha]; auto. destruct Hb as [->|Hb]; auto.
      rewrite Forall_forall in F1, F2. apply anti; auto. }
    subst b. f_equal. apply IH; auto. apply Permutation_cons_inv with a; auto.
Qed.

Lemma map_inj_in {A B} (f : A -> B) : forall l1 l2,
  (forall a b, In a l1 -> In b l2 -> f a = f b -> a = b) -> map f l1 = map f l2 -> l1 = l2.
Proof.
  induction l1 as [|a l1 IH]; destruct l2 as [|b l2]; simpl; intros H E; try discriminate; auto.
  injection E; intros E2 E1. f_equal; auto.
Qed.

(* For pairwise distinct keys the sorting permutation is unique. *)
Lemma argsort_unique x p : NoDup x -> is_perm p (length x) ->
  StronglySorted Z.le (gather 0%Z x p) -> p = argsort x.
Proof.
  intros ND Hp S.
  assert (E : gather 0%Z x p = gather 0%Z x (argsort x)).
  { apply (sorted_perm_unique Z.le); auto; [intros; lia | apply argsort_sorted |].
    unfold gather. apply Permutation_map.
    apply perm_trans with (seq 0 (length x)); [exact Hp | apply Permutation_sym, argsort_perm]. }
  unfold gather in E. apply map_inj_in in E; auto.
  intros a b Ha Hb Hab. rewrite (NoDup_nth x 0%Z) in ND. apply (ND a b); auto.
  - eapply is_perm_lt; eauto.
  - eapply is_perm_lt; [apply argsort_perm|]; eauto.
Qed.

(* KEY LEMMA: sorting the permuted keys and composing with the permutation is sorting the keys:
   pi[argsort (x[pi])] = argsort x   (distinct x, any permutation pi) *)
Lemma argsort_equivariant x pi : NoDup x -> is_perm pi (length x) ->
  gather 0 pi (argsort (gather 0%Z x pi)) = argsort x.
Proof.
  intros ND Hpi. pose proof (is_perm_length _ _ Hpi) as Lpi.
  assert (Lx' : length (gather 0%Z x pi) = length x) by (rewrite gather_length; auto).
  pose proof (argsort_perm (gather 0%Z x pi)) as Hs. rewrite Lx' in Hs.
  apply argsort_unique; auto.
  - apply gather_perm; auto.
  - rewrite <- gather_gather.
    + apply argsort_sorted.
    + intros i Hi. rewrite Lpi. eapply is_perm_lt; eauto.
Qed.

(* ---------------------------------------------------------------- the identity test *)
Lemma seq_ssorted a n : StronglySorted lt (seq a n).
Proof.
  revert a; induction n; intro a; simpl; constructor; auto.
  apply Forall_forall. intros i Hi. apply in_seq in Hi. lia.
Qed.

Lemma incr_sorted s : incr s = true -> Sorted lt s.
Proof.
  induction s as [|a s IH]; intro H; [constructor|].
  destruct s as [|b s]; [constructor; constructor|].
  change (((a <? b) && incr (b :: s)) = true) in H.
  apply andb_true_iff in H. destruct H as [H1 H2]. apply Nat.ltb_lt in H1.
  constructor; auto.
Qed.

(* (sort_order[1:] > sort_order[:-1]).all() holds of a permutation exactly when it is arange(n) *)
Lemma incr_identity s n : is_perm s n -> incr s = true -> s = seq 0 n.
Proof.
  intros H I. apply (sorted_perm_unique lt); auto.
  - intros; lia.
  - apply Sorted_StronglySorted; [intros a b c; lia | apply incr_sorted; auto].
  - apply seq_ssorted.
Qed.

Lemma incr_seq n : forall a, incr (seq a n) = true.
Proof.
  induction n; intro a; auto. destruct n; auto.
  change (((a <? S a) && incr (seq (S a) (S n))) = true).
  rewrite IHn. replace (a <? S a) with true; auto. symmetry. apply Nat.ltb_lt. lia.
Qed.
