(* binary64 instance of the number interface of C17/Model.v, evaluated by vm_compute on hex-float
   literals and compared bit-for-bit with the implementation (correspondence only; no theorem
   mentions this file). *)
From Coq Require Import ZArith List Bool PrimFloat Uint63 FloatOps SpecFloat.
From PB Require Import C17.Model.
Open Scope Z_scope.

Definition f_of_Z (z : Z) : float :=
  if z <? 0 then PrimFloat.opp (PrimFloat.of_uint63 (Uint63.of_Z (- z)))
  else PrimFloat.of_uint63 (Uint63.of_Z z).

(* signed mantissa and exponent: value = v * 2^e; non-finite values give None *)
Definition f_parts (f : float) : option (Z * Z) :=
  match Prim2SF f with
  | S754_zero _ => Some (0, 0)
  | S754_finite s m e => Some ((if s then Z.neg m else Z.pos m), e)
  | _ => None
  end.
Definition f_floor (f : float) : Z :=
  match f_parts f with
  | Some (v, e) => if 0 <=? e then v * 2 ^ e else v / 2 ^ (- e)
  | None => 0
  end.
Definition f_ceil (f : float) : Z :=
  match f_parts f with
  | Some (v, e) => if 0 <=? e then v * 2 ^ e else - ((- v) / 2 ^ (- e))
  | None => 0
  end.
Definition f_trunc (f : float) : Z := if PrimFloat.ltb f 0%float then f_ceil f else f_floor f.

Definition Num_F : NumI := {|
  T := float; of_Z := f_of_Z;
  add := PrimFloat.add; sub := PrimFloat.sub; mul := PrimFloat.mul; div := PrimFloat.div;
  floorZ := f_floor; ceilZ := f_ceil; truncZ := f_trunc;
  is0 := fun x => PrimFloat.eqb x 0%float; ltb := PrimFloat.ltb; leb := PrimFloat.leb; eqb := PrimFloat.eqb
|}.

(* bit equality: distinguishes +0/-0, identifies NaNs *)
Definition feqb (x y : float) : bool :=
  match PrimFloat.compare x y with
  | FEq => if PrimFloat.eqb x 0%float
           then Bool.eqb (PrimFloat.ltb (PrimFloat.div 1%float x) 0%float) (PrimFloat.ltb (PrimFloat.div 1%float y) 0%float)
           else true
  | FNotComparable => negb (PrimFloat.eqb x x) && negb (PrimFloat.eqb y y)
  | _ => false
  end.
Fixpoint fl_eqb (x y : list float) : bool :=
  match x, y with
  | nil, nil => true
  | cons a x', cons b y' => feqb a b && fl_eqb x' y'
  | _, _ => false
  end.

(* np.mean of exactly representable integers whose sum is exact: fl(sum / count), whatever the
   summation order; used with integer-valued x / y in the custom_bc correspondence *)
Definition f_mean_exact (l : list float) : float :=
  PrimFloat.div (fold_left PrimFloat.add l 0%float) (f_of_Z (Z.of_nat (length l))).

(* `d < tol` of the wrapped loops with the tol forced by collab_pls *)
Definition below_inf (d : float) : bool := PrimFloat.ltb d infinity.
