(* C17 -- exact (rational) instance of the number interface and the custom_bc / np.linspace /
   np.interp proofs. *)
From Coq Require Import ZArith List Bool Lia ZifyBool QArith Qround.
From PB Require Import lib.PySlice lib.Arr C17.Model.
Import ListNotations.
Open Scope Z_scope.

Definition Num_Q : NumI := {|
  T := Q; of_Z := inject_Z;
  add := Qplus; sub := Qminus; mul := Qmult; div := Qdiv;
  floorZ := Qfloor; ceilZ := Qceiling;
  truncZ := fun q => if Qnum q <? 0 then Qceiling q else Qfloor q;
  is0 := fun q => Qeq_bool q 0; ltb := fun x y => negb (Qle_bool y x); leb := Qle_bool; eqb := Qeq_bool
|}.

(* ---------------------------------------------------------------------------------------- *)
(** ** zrange *)
Lemma zrange_S lo (m : nat) : zrange lo (Z.of_nat (S m)) = lo :: zrange (lo + 1) (Z.of_nat m).
Proof.
  unfold zrange. rewrite !Nat2Z.id. cbn [seq map]. f_equal; [lia|].
  rewrite <- seq_shift, map_map. apply map_ext. intros. lia.
Qed.
Lemma zrange_0 lo : zrange lo 0 = [].
Proof. reflexivity. Qed.
Lemma zrange_snoc lo (m : nat) : zrange lo (Z.of_nat (S m)) = zrange lo (Z.of_nat m) ++ [lo + Z.of_nat m].
Proof. unfold zrange. rewrite !Nat2Z.id, seq_S, map_app. reflexivity. Qed.
Lemma zrange_length lo n : List.length (zrange lo n) = Z.to_nat n.
Proof. unfold zrange. rewrite map_length, seq_length. reflexivity. Qed.

(* ---------------------------------------------------------------------------------------- *)
(** ** np.linspace(start, stop, num, dtype=intp) in exact arithmetic *)
Lemma Qfloor_lin (k d v s : Z) : 0 < v ->
  Qfloor (inject_Z k * (inject_Z d / inject_Z v) + inject_Z s) = s + k * d / v.
Proof.
  intros Hv. destruct v as [|p|p]; try lia.
  assert (E : (inject_Z k * (inject_Z d / inject_Z (Z.pos p)) + inject_Z s == (k * d + s * Z.pos p) # p)%Q).
  { unfold Qeq, Qplus, Qmult, Qdiv, Qinv, inject_Z. cbn. rewrite ?Pos2Z.inj_mul. ring. }
  rewrite E. unfold Qfloor. rewrite Z.div_add by lia. lia.
Qed.
Lemma Qfloor_lin' (k d v s : Z) : 0 < v ->
  Qfloor (inject_Z k / inject_Z v * inject_Z d + inject_Z s) = s + k * d / v.
Proof.
  intros Hv. destruct v as [|p|p]; try lia.
  assert (E : (inject_Z k / inject_Z (Z.pos p) * inject_Z d + inject_Z s == (k * d + s * Z.pos p) # p)%Q).
  { unfold Qeq, Qplus, Qmult, Qdiv, Qinv, inject_Z. cbn. rewrite ?Pos2Z.inj_mul. ring. }
  rewrite E. unfold Qfloor. rewrite Z.div_add by lia. lia.
Qed.

(* the integer semantics of np.linspace(..., dtype=intp): floor of the exact affine map, with the
   end point written explicitly *)
Definition linspace_spec (start stop num : Z) : list Z :=
  map (fun k => if (1 <? num) && (k =? num - 1) then stop else start + k * (stop - start) / (num - 1))
      (zrange 0 num).

Theorem linspace_exact start stop num : 1 <= num ->
  linspace_intp Num_Q start stop num = linspace_spec start stop num.
Proof.
  intros Hn. unfold linspace_intp, linspace_spec. apply map_ext_in. intros k Hk.
  apply zrange_In in Hk. cbn [T of_Z add sub mul div floorZ is0 Num_Q].
  destruct ((1 <? num) && (k =? num - 1)) eqn:E; [reflexivity|].
  destruct (0 <? num - 1) eqn:Hd.
  - assert (Ed : (inject_Z stop - inject_Z start == inject_Z (stop - start))%Q).
    { unfold Qeq, Qminus, Qplus, Qopp, inject_Z. cbn. ring. }
    destruct (Qeq_bool _ 0).
    + rewrite Ed. apply Qfloor_lin'. lia.
    + rewrite Ed. apply Qfloor_lin. lia.
  - assert (num = 1) by lia. subst num. assert (k = 0) by lia. subst k.
    change (1 - 1) with 0. rewrite Z.mul_0_l. cbn [Z.div Z.add].
    assert (E0 : (inject_Z 0 * (inject_Z stop - inject_Z start) + inject_Z start == inject_Z start)%Q).
    { unfold Qeq, Qminus, Qplus, Qmult, Qopp, inject_Z. cbn. ring. }
    rewrite E0. rewrite Qfloor_Z, ?Zdiv_0_l. lia.
Qed.

(* one index per point: linspace(0, n, n + 1) = 0, 1, ..., n *)
Lemma linspace_unit n : 1 <= n -> linspace_intp Num_Q 0 n (n + 1) = zrange 0 (n + 1).
Proof.
  intros Hn. rewrite linspace_exact by lia. unfold linspace_spec.
  rewrite <- (map_id (zrange 0 (n + 1))) at 2. apply map_ext_in. intros k Hk. apply zrange_In in Hk.
  replace (n + 1 - 1) with n by lia. rewrite Z.sub_0_r.
  destruct ((1 <? n + 1) && (k =? n)) eqn:E; [lia|].
  rewrite Z.div_mul by lia. lia.
Qed.

(* ---------------------------------------------------------------------------------------- *)
(** ** custom_bc: one region covering everything, sampling = 1 *)
Lemma pairs_zrange lo (m : nat) :
  pairs (zrange lo (Z.of_nat (S m))) = map (fun k => (k, k + 1)) (zrange lo (Z.of_nat m)).
Proof.
  revert lo. induction m as [|m IH]; intros lo; [reflexivity|].
  rewrite zrange_S. specialize (IH (lo + 1)). rewrite zrange_S in IH |- *.
  cbn [pairs]. cbn [pairs] in IH. rewrite IH. rewrite (zrange_S lo m). reflexivity.
Qed.

Definition is01 (lr : Z * Z) : bool := (fst lr =? 0) && (snd lr =? 1).
Definition isend (n : Z) (lr : Z * Z) : bool := (snd lr =? n) && (fst lr =? n - 1).

Lemma fold_flags n prs : forall st,
  fold_left (flags_step n) prs st =
  (fst st && negb (existsb is01 prs), snd st && negb (existsb (fun lr => negb (is01 lr) && isend n lr) prs)).
Proof.
  induction prs as [|[l r] t IH]; intros [a b]; cbn [fold_left existsb].
  - cbn [fst snd negb]. rewrite !andb_true_r. reflexivity.
  - rewrite IH. unfold flags_step, is01, isend. cbn [fst snd].
    destruct ((l =? 0) && (r =? 1)); cbn [fst snd negb orb andb].
    + rewrite andb_false_r. reflexivity.
    + destruct ((r =? n) && (l =? n - 1)); cbn [fst snd negb orb andb]; rewrite ?andb_false_r; reflexivity.
Qed.

Lemma filter_none {A} (f : A -> bool) l : (forall x, In x l -> f x = false) -> filter f l = [].
Proof.
  induction l as [|a l IH]; intros H; [reflexivity|]. cbn [filter].
  rewrite (H a (or_introl eq_refl)). apply IH. intros; apply H; right; assumption.
Qed.

(* every point is its own section; no end point is added a second time *)
Theorem cb_sources_identity n : 2 <= n ->
  cb_sources Num_Q n [(None, None, 1)] = inl (map (fun k => Sec k (k + 1)) (zrange 0 n)).
Proof.
  intros Hn. unfold cb_sources, regions_loop, region_step, cb_init. cbn [cb_last cb_secs cb_mask cb_first cb_lastf].
  change (0 <? -1) with false. cbv iota.
  destruct ((0 <? 0) || (n <? 0)) eqn:E1; [lia|]. destruct (n <? n) eqn:E2; [lia|].
  rewrite Z.sub_0_r, Z.div_1_r. destruct (n =? 0) eqn:E3; [lia|]. destruct (n + 1 <? 0) eqn:E4; [lia|].
  rewrite linspace_unit by lia.
  replace (n + 1) with (Z.of_nat (S (Z.to_nat n))) by lia. rewrite pairs_zrange.
  replace (Z.of_nat (Z.to_nat n)) with n by lia.
  rewrite fold_flags. cbn [fst snd andb app].
  assert (X1 : existsb is01 (map (fun k => (k, k + 1)) (zrange 0 n)) = true).
  { apply existsb_exists. exists (0, 0 + 1). split; [|reflexivity].
    apply in_map_iff. exists 0. split; [reflexivity|]. apply zrange_In. lia. }
  assert (X2 : existsb (fun lr => negb (is01 lr) && isend n lr) (map (fun k => (k, k + 1)) (zrange 0 n)) = true).
  { apply existsb_exists. exists (n - 1, n - 1 + 1). split.
    - apply in_map_iff. exists (n - 1). split; [reflexivity|]. apply zrange_In. lia.
    - unfold is01, isend. cbn [fst snd]. lia. }
  rewrite X1, X2. cbn [negb cb_secs cb_mask cb_last cb_first cb_lastf]. rewrite map_map. cbn [fst snd].
  rewrite filter_none; [rewrite app_nil_r; reflexivity|].
  intros i Hi. apply zrange_In in Hi. unfold assign, sl_start, sl_stop, clamp.
  destruct (0 <? 0) eqn:?; [lia|]. destruct (n <? 0) eqn:?; [lia|].
  destruct ((Z.min 0 n <=? i) && (i <? Z.min n n)) eqn:?; [reflexivity|lia].
Qed.

(* a single data point: the `elif` is never reached, so the point is appended a second time *)
Theorem cb_sources_one_point : cb_sources Num_Q 1 [(None, None, 1)] = inl [Sec 0 1; Pt 0].
Proof. vm_compute. reflexivity. Qed.

(* ---------------------------------------------------------------------------------------- *)
(** ** x_fit = x, y_fit = y *)
Fixpoint nondecr (l : list Q) : Prop :=
  match l with [] => True | a :: t => (forall b, In b t -> Qle_bool a b = true) /\ nondecr t end.
Notation TQ := (T Num_Q).
Fixpoint nondecr_keys (l : list (TQ * TQ)) : Prop :=
  match l with [] => True | a :: t => (forall b, In b t -> Qle_bool (fst a) (fst b) = true) /\ nondecr_keys t end.

Lemma nondecr_combine (x : list TQ) : forall (y : list TQ), nondecr x -> nondecr_keys (combine x y).
Proof.
  induction x as [|a x IH]; intros [|b y] H; cbn [combine nondecr_keys]; try exact I.
  destruct H as [H1 H2]. split; [|apply IH; assumption].
  intros [c e] Hin. apply in_combine_l in Hin. cbn [fst]. apply H1. assumption.
Qed.

Lemma ins_last (e : TQ * TQ) (s : list (TQ * TQ)) :
  (forall h, In h s -> ltb Num_Q (fst e) (fst h) = false) -> ins Num_Q e s = s ++ [e].
Proof.
  induction s as [|h t IH]; intros H; [reflexivity|]. cbn [ins].
  rewrite (H h (or_introl eq_refl)). cbn [app]. f_equal. apply IH. intros; apply H; right; assumption.
Qed.

Lemma stable_sort_sorted_acc (l : list (TQ * TQ)) : forall acc : list (TQ * TQ),
  nondecr_keys l -> (forall h e, In h acc -> In e l -> Qle_bool (fst h) (fst e) = true) ->
  fold_left (fun s e => ins Num_Q e s) l acc = acc ++ l.
Proof.
  induction l as [|e t IH]; intros acc Hs Hacc; cbn [fold_left]; [symmetry; apply app_nil_r|].
  destruct Hs as [He Ht]. rewrite ins_last.
  - rewrite IH; [rewrite <- app_assoc; reflexivity|assumption|].
    intros h e' Hh He'. apply in_app_or in Hh as [Hh|[<-|[]]].
    + apply Hacc; [assumption|right; assumption].
    + apply He. assumption.
  - intros h Hh. cbn [ltb Num_Q]. rewrite (Hacc h e Hh (or_introl eq_refl)). reflexivity.
Qed.

(* np.argsort(kind='mergesort') of keys that are already in non-decreasing order is the identity *)
Lemma stable_sort_sorted (l : list (TQ * TQ)) : nondecr_keys l -> stable_sort Num_Q l = l.
Proof. intros H. unfold stable_sort. rewrite stable_sort_sorted_acc; [reflexivity|assumption|intros h e []]. Qed.

Lemma slice_one {A} (d : A) (a : list A) : forall k, (k < List.length a)%nat ->
  firstn 1 (skipn k a) = [nth k a d].
Proof.
  induction a as [|h t IH]; intros k Hk; [cbn in Hk; lia|].
  destruct k as [|k]; [reflexivity|]. cbn [skipn nth]. apply IH. cbn in Hk. lia.
Qed.

Lemma map_nth_combine {A B} (da : A) (db : B) (x : list A) : forall (y : list B),
  List.length y = List.length x ->
  map (fun k => (nth k x da, nth k y db)) (seq 0 (List.length x)) = combine x y.
Proof.
  induction x as [|a x IH]; intros [|b y] H; cbn in H; try lia; [reflexivity|].
  cbn [List.length seq map combine nth]. f_equal.
  rewrite <- seq_shift, map_map. apply IH. lia.
Qed.

Section CbFit.
  Variable mean : list TQ -> TQ.
  Hypothesis mean_single : forall v, mean [v] = v.     (* np.mean of one value *)

  Theorem cb_fit_identity n d (x y : list TQ) :
    2 <= n -> zlen x = n -> zlen y = n -> nondecr x ->
    cb_fit Num_Q n mean d x y [(None, None, 1)] = inl (combine x y).
  Proof.
    intros Hn Hx Hy Hs. unfold cb_fit. rewrite cb_sources_identity by assumption.
    rewrite map_map. unfold zrange. rewrite map_map.
    assert (E : map (fun k : nat => (src_val Num_Q mean d x (Sec (0 + Z.of_nat k) (0 + Z.of_nat k + 1)),
                                     src_val Num_Q mean d y (Sec (0 + Z.of_nat k) (0 + Z.of_nat k + 1))))
                    (seq 0 (Z.to_nat n)) = combine x y).
    { unfold zlen in Hx, Hy. replace (Z.to_nat n) with (List.length x) by lia.
      rewrite <- (map_nth_combine d d x y) by lia.
      apply map_ext_in. intros k Hk. apply in_seq in Hk.
      unfold src_val, slice_list.
      replace (Z.to_nat (0 + Z.of_nat k + 1 - (0 + Z.of_nat k))) with 1%nat by lia.
      replace (Z.to_nat (0 + Z.of_nat k)) with k by lia.
      rewrite (slice_one d x k), (slice_one d y k) by lia. rewrite !mean_single. reflexivity. }
    rewrite E. rewrite stable_sort_sorted; [reflexivity|]. apply nondecr_combine. assumption.
  Qed.
End CbFit.

(* ---------------------------------------------------------------------------------------- *)
(** ** np.interp at the nodes *)
Section InterpNode.
  Variable n : Z.
  Variables xp fp : Z -> TQ.
  (* xp strictly increasing on [0, n) *)
  Hypothesis Hinc : forall a b, 0 <= a < n -> 0 <= b < n -> Qle_bool (xp a) (xp b) = (a <=? b).

  Lemma cnt_le_node i (m : nat) : 0 <= i < n -> Z.of_nat m <= n ->
    fold_left (fun c j => if leb Num_Q (xp j) (xp i) then j + 1 else c) (zrange 0 (Z.of_nat m)) 0
    = Z.min (Z.of_nat m) (i + 1).
  Proof.
    intros Hi. induction m as [|m IH]; intros Hm; [cbn; lia|].
    rewrite zrange_snoc, fold_left_app, IH by lia. cbn [fold_left leb Num_Q].
    rewrite Hinc by lia. destruct (0 + Z.of_nat m <=? i) eqn:?; lia.
  Qed.

  Theorem interp_node i : 0 <= i < n -> interp Num_Q n xp fp (xp i) = fp i.
  Proof.
    intros Hi. assert (C : cnt_le Num_Q n xp (xp i) = i + 1).
    { unfold cnt_le. replace n with (Z.of_nat (Z.to_nat n)) by lia. rewrite cnt_le_node by lia. lia. }
    unfold interp. rewrite C.
    destruct (i + 1 =? 0) eqn:?; [lia|].
    destruct (i + 1 =? n) eqn:?; [f_equal; lia|].
    replace (i + 1 - 1) with i by lia. cbn [eqb Num_Q].
    assert (Qeq_bool (xp i) (xp i) = true) as -> by (apply Qeq_bool_iff; reflexivity).
    reflexivity.
  Qed.
End InterpNode.

(* with a repeated x value the interpolation returns the LAST of the tied nodes for both of them,
   so the identity region does not reproduce the wrapped method's baseline there *)
Theorem interp_tied_nodes_refuted :
  exists (xp fp : Z -> TQ) (n i : Z), 0 <= i < n /\
    (forall a b, 0 <= a <= b -> b < n -> Qle_bool (xp a) (xp b) = true) /\
    interp Num_Q n xp fp (xp i) <> fp i.
Proof.
  exists (of_list 0%Q (map inject_Z [0; 1; 1; 2])), (of_list 0%Q (map inject_Z [10; 20; 30; 40])), 4, 1.
  split; [lia|]. split.
  - intros a b Ha Hb. assert (Ha' : a = 0 \/ a = 1 \/ a = 2 \/ a = 3) by lia.
    assert (Hb' : b = 0 \/ b = 1 \/ b = 2 \/ b = 3) by lia.
    destruct Ha' as [ -> | [ -> | [ -> | -> ] ] ], Hb' as [ -> | [ -> | [ -> | -> ] ] ]; try lia; reflexivity.
  - vm_compute. discriminate.
Qed.
