(* C17 -- proofs about the optimizer models of C17/Model.v. *)
From Coq Require Import ZArith List Bool Lia ZifyBool String QArith Qround.
From PB Require Import lib.PySlice lib.Arr lib.Loop lib.LoopProofs C17.Model.
Import ListNotations.
Open Scope Z_scope.

(* ========================================================================================== *)
(** * collab_pls *)
Section DictLemmas.
  Context {V : Type}.
  Lemma dget_dset (k0 : string) (v : V) (d : dict V) (k : string) :
    dget k (dset k0 v d) = if String.eqb k k0 then Some v else dget k d.
  Proof.
    induction d as [|[k' v'] t IH]; cbn [dset dget].
    - destruct (String.eqb k k0); reflexivity.
    - destruct (String.eqb_spec k0 k') as [->|Hne]; cbn [dget].
      + destruct (String.eqb k k'); reflexivity.
      + rewrite IH. destruct (String.eqb_spec k k') as [->|]; [|reflexivity].
        destruct (String.eqb_spec k' k0) as [->|]; [congruence|reflexivity].
  Qed.
  Lemma dget_dset_if (c : bool) (k0 : string) (v : V) (d : dict V) (k : string) :
    dget k (dset_if c k0 v d) = if c && String.eqb k k0 then Some v else dget k d.
  Proof. destruct c; cbn [dset_if andb]; [apply dget_dset|reflexivity]. Qed.
End DictLemmas.

(* what collab_pls forces for key k of method m (None: the key is not touched) *)
Definition forced (two_d : bool) (m k : string) : option val :=
  if String.eqb k "weights_as_mask" then (if sets_mask m then Some VTrue else None)
  else if String.eqb k "tol_2" then (if sets_tol2 m then Some VInf else None)
  else if String.eqb k "tol" then (if sets_tol two_d m then Some VInf else None)
  else if String.eqb k "alpha" then (if calc_alpha m then Some VAvgA else None)
  else if String.eqb k "weights" then Some VAvgW
  else None.

Local Ltac fin4 := match goal with b1 : bool, b2 : bool, b3 : bool, b4 : bool |- _ => destruct b1, b2, b3, b4; reflexivity end.

Theorem collab_step2_get two_d m user k :
  dget k (collab_step2 two_d m user) =
  match forced two_d m k with Some v => Some v | None => dget k user end.
Proof.
  unfold collab_step2, forced. rewrite !dget_dset_if, dget_dset.
  generalize (sets_mask m) (sets_tol2 m) (sets_tol two_d m) (calc_alpha m). intros b1 b2 b3 b4.
  destruct (String.eqb_spec k "weights_as_mask") as [->|]; [fin4|].
  destruct (String.eqb_spec k "tol_2") as [->|]; [fin4|].
  destruct (String.eqb_spec k "tol") as [->|]; [fin4|].
  destruct (String.eqb_spec k "alpha") as [->|]; [fin4|].
  rewrite !andb_false_r. destruct (String.eqb k "weights"); reflexivity.
Qed.

(* every step-2 call carries the same dictionary, one call per entry, in order *)
Lemma collab_calls_step2 two_d m (avg : bool) (M : nat) user :
  skipn (if avg then 1 else M)%nat (collab_calls two_d m avg M user)
  = map (fun i => (Row i, collab_step2 two_d m user)) (seq 0 M).
Proof.
  unfold collab_calls. destruct avg.
  - reflexivity.
  - rewrite skipn_app. rewrite map_length, seq_length, Nat.sub_diag. cbn [skipn].
    rewrite skipn_all2; [reflexivity|]. rewrite map_length, seq_length. lia.
Qed.

(* the loop skeleton (lib/Loop.v) run with a tolerance that the first recorded difference is
   below, or with an early exit at the first pass: exactly one solve, with the supplied state,
   which is returned unchanged -- whatever max_iter is *)
Section SinglePass.
  Variables (W B D : Type).
  Variable solve : nat -> W -> B.
  Variable reweight : nat -> B -> W -> W * bool.
  Variable diff : nat -> W -> W -> B -> D.
  Variable below : D -> bool.
  Variable w0 : W.
  Let early0 := snd (reweight 0 (solve 0 w0) w0).
  Let d0 := diff 0 w0 (fst (reweight 0 (solve 0 w0) w0)) (solve 0 w0).

  Theorem single_pass (max_iter : nat) :
    early0 || below d0 = true ->
    loop W B D solve reweight diff below (S max_iter) w0 =
    Some {| r_base := solve 0 w0; r_state := w0;
            r_hist := if early0 then [] else [d0];
            r_reason := if early0 then EarlyExit else Converged |}.
  Proof.
    intros H. rewrite loop_spec. unfold spec.
    assert (Hs : stops W B D solve reweight diff below w0 0 = true) by exact H.
    cbn [first_stop]. rewrite Hs.
    change (eseq W B solve reweight w0 0) with early0.
    destruct early0; reflexivity.
  Qed.

  (* the converse: when the first difference is NOT below the tolerance (NaN or +inf under
     tol = inf) and nothing exits early, a budget of two or more performs a second solve *)
  Theorem not_single_pass (max_iter : nat) r :
    early0 || below d0 = false ->
    loop W B D solve reweight diff below (S (S max_iter)) w0 = Some r ->
    exists k w, (1 <= k)%nat /\ r_base r = solve k w.
  Proof.
    intros H. rewrite loop_spec. unfold spec.
    assert (Hs : stops W B D solve reweight diff below w0 0 = false) by exact H.
    cbn [first_stop]. rewrite Hs.
    destruct (stops W B D solve reweight diff below w0 1) eqn:H1.
    - destruct (eseq W B solve reweight w0 1); intros [= <-]; cbn [r_base];
        eexists 1%nat, _; (split; [lia|reflexivity]).
    - destruct (first_stop W B D solve reweight diff below w0 max_iter 2) as [j|] eqn:Hf.
      + apply first_stop_range in Hf as (Hj & _ & _).
        destruct (eseq W B solve reweight w0 j); intros [= <-]; cbn [r_base];
          eexists j, _; (split; [lia|reflexivity]).
      + intros [= <-]; cbn [r_base]. eexists _, _. split; [|reflexivity]. lia.
  Qed.
End SinglePass.

(* ========================================================================================== *)
(** * optimize_extended_range: paddings, roll-and-slice, slicing back *)
Section ExtRange.
  Context {A : Type}.
  Implicit Types l m r w y : list A.

  Lemma firstn_app_exact l r : firstn (List.length l) (l ++ r) = l.
  Proof. rewrite firstn_app, Nat.sub_diag, firstn_all. cbn. apply app_nil_r. Qed.
  Lemma skipn_app_exact l r : skipn (List.length l) (l ++ r) = r.
  Proof. rewrite skipn_app, Nat.sub_diag, skipn_all. reflexivity. Qed.
  Lemma zlen_app l r : zlen (l ++ r) = zlen l + zlen r.
  Proof. unfold zlen. rewrite app_length. lia. Qed.
  Lemma zlen_nil : zlen (@nil A) = 0.
  Proof. reflexivity. Qed.
  Lemma zlen_nonneg l : 0 <= zlen l.
  Proof. unfold zlen. lia. Qed.
  Lemma zlen_zrepeat (v : A) k : 0 <= k -> zlen (zrepeat v k) = k.
  Proof. intros. unfold zlen, zrepeat. rewrite repeat_length. lia. Qed.
  Lemma to_nat_zlen l : Z.to_nat (zlen l) = List.length l.
  Proof. unfold zlen. lia. Qed.

  (* a[|l| : |l| + |m|] of l ++ m ++ r *)
  Lemma pyslice_mid l m r (s e : Z) :
    s = zlen l -> e = zlen l + zlen m ->
    pyslice (l ++ m ++ r) (Some s) (Some e) = m.
  Proof.
    intros -> ->. unfold pyslice, sl_start, sl_stop, clamp. rewrite !zlen_app.
    pose proof (zlen_nonneg l). pose proof (zlen_nonneg m). pose proof (zlen_nonneg r).
    destruct (zlen l <? 0) eqn:?; [lia|]. destruct (zlen l + zlen m <? 0) eqn:?; [lia|].
    replace (Z.min (zlen l) (zlen l + (zlen m + zlen r))) with (zlen l) by lia.
    replace (Z.min (zlen l + zlen m) (zlen l + (zlen m + zlen r)) - zlen l) with (zlen m) by lia.
    rewrite !to_nat_zlen, skipn_app_exact. apply firstn_app_exact.
  Qed.

  (* a[|l| : -|r|] with |r| >= 1, and a[|l| :] *)
  Lemma pyslice_mid_neg l m r (s k : Z) :
    s = zlen l -> k = zlen r -> 1 <= k ->
    pyslice (l ++ m ++ r) (Some s) (Some (- k)) = m.
  Proof.
    intros -> -> Hk. unfold pyslice, sl_start, sl_stop, clamp. rewrite !zlen_app.
    pose proof (zlen_nonneg l). pose proof (zlen_nonneg m).
    destruct (zlen l <? 0) eqn:?; [lia|]. destruct (- zlen r <? 0) eqn:?; [|lia].
    replace (Z.min (zlen l) (zlen l + (zlen m + zlen r))) with (zlen l) by lia.
    replace (Z.max (zlen l + (zlen m + zlen r) + - zlen r) 0 - zlen l) with (zlen m) by lia.
    rewrite !to_nat_zlen, skipn_app_exact. apply firstn_app_exact.
  Qed.
  Lemma pyslice_tail l m (s : Z) : s = zlen l -> pyslice (l ++ m) (Some s) None = m.
  Proof.
    intros ->. unfold pyslice, sl_start, sl_stop, clamp. rewrite !zlen_app.
    pose proof (zlen_nonneg l). pose proof (zlen_nonneg m).
    destruct (zlen l <? 0) eqn:?; [lia|].
    replace (Z.min (zlen l) (zlen l + zlen m)) with (zlen l) by lia.
    replace (zlen l + zlen m - zlen l) with (zlen m) by lia.
    rewrite !to_nat_zlen, skipn_app_exact. rewrite <- (app_nil_r m) at 2. apply firstn_app_exact.
  Qed.

  (* the returned baseline is exactly the part of the fitted baseline that sits over the data *)
  Theorem cut_baseline_ext (s : side) (aw : Z) addl addr y :
    zlen addl = aw -> zlen addr = aw ->
    cut_baseline s aw (ext_data s addl addr y) = y.
  Proof.
    intros Hl Hr. unfold cut_baseline, ext_data. pose proof (zlen_nonneg addl).
    destruct s; cbn [has_left has_right pad_l pad_r].
    - (* left *) rewrite <- (app_nil_r y) at 2. rewrite <- (app_nil_r y) at 1.
      apply pyslice_mid; rewrite ?zlen_app, ?zlen_nil; lia.
    - (* right *) change (y ++ addr) with ([] ++ y ++ addr).
      apply pyslice_mid; rewrite ?zlen_app, ?zlen_nil; lia.
    - apply pyslice_mid; rewrite ?zlen_app, ?zlen_nil; lia.
  Qed.

  (* slicing the wrapped method's weights / alpha back: the padding is removed, nothing else *)
  Theorem cut_param_pad (s : side) (aw : Z) (one : A) w :
    1 <= aw -> cut_param s aw (pad_const s aw one w) = w.
  Proof.
    intros Haw. unfold cut_param, pad_const.
    destruct s; cbn [pad_l pad_r].
    - unfold zrepeat at 2. cbn [Z.to_nat repeat]. rewrite app_nil_r.
      apply pyslice_tail. rewrite zlen_zrepeat; lia.
    - unfold zrepeat at 1. cbn [Z.to_nat repeat].
      apply pyslice_mid_neg; rewrite ?zlen_nil, ?zlen_zrepeat; lia.
    - apply pyslice_mid_neg; rewrite ?zlen_zrepeat; lia.
  Qed.

  (* added_window = 0 (the code raises before it gets here: gaussian() rejects sigma = 0):
     padding adds nothing, `[0:]` keeps everything but `[0:-0]` is EMPTY *)
  Theorem cut_param_zero (s : side) (one : A) w :
    cut_param s 0 (pad_const s 0 one w) = match s with SLeft => w | _ => [] end.
  Proof.
    unfold cut_param, pad_const, zrepeat.
    destruct s; cbn [pad_l pad_r Z.to_nat repeat app Z.opp]; rewrite app_nil_r.
    - change w with ([] ++ w) at 1. apply pyslice_tail. reflexivity.
    - unfold pyslice, sl_start, sl_stop, clamp. cbn [Z.ltb Z.compare].
      pose proof (zlen_nonneg w). replace (Z.min 0 (zlen w) - Z.min 0 (zlen w)) with 0 by lia. reflexivity.
    - unfold pyslice, sl_start, sl_stop, clamp. cbn [Z.ltb Z.compare].
      pose proof (zlen_nonneg w). replace (Z.min 0 (zlen w) - Z.min 0 (zlen w)) with 0 by lia. reflexivity.
  Qed.

  Lemma pyslice_head l r (k : Z) : k = zlen l -> pyslice (l ++ r) None (Some k) = l.
  Proof.
    intros ->. unfold pyslice, sl_start, sl_stop, clamp. rewrite zlen_app.
    pose proof (zlen_nonneg l). pose proof (zlen_nonneg r).
    destruct (zlen l <? 0) eqn:?; [lia|].
    replace (Z.min (zlen l) (zlen l + zlen r) - 0) with (zlen l) by lia.
    cbn [Z.to_nat skipn]. rewrite to_nat_zlen. apply firstn_app_exact.
  Qed.

  (* np.roll(fit, upper_bound)[:added_len] is the fitted baseline over the right addition followed
     by the one over the left addition: the layout of known_background *)
  Theorem rolled_part_ext (s : side) (aw : Z) addl addr y :
    zlen addl = aw -> zlen addr = aw -> 1 <= zlen y ->
    rolled_part s aw (ext_data s addl addr y) = known_background s addl addr.
  Proof.
    intros Hl Hr Hy. pose proof (zlen_nonneg addl).
    unfold rolled_part, roll, ext_data, known_background.
    destruct s; cbn [has_left has_right pad_l pad_r added_len].
    - (* left: upper_bound = 0, no roll *)
      rewrite zlen_app. destruct (zlen addl + zlen y =? 0) eqn:?; [lia|].
      rewrite Z.mod_0_l by lia. rewrite Z.sub_0_r, <- zlen_app, to_nat_zlen.
      rewrite skipn_all, firstn_all. cbn [app]. apply pyslice_head. lia.
    - (* right *)
      rewrite zlen_app. destruct (zlen y + zlen addr =? 0) eqn:?; [lia|].
      rewrite Z.mod_small by lia. replace (zlen y + zlen addr - aw) with (zlen y) by lia.
      rewrite to_nat_zlen, skipn_app_exact, firstn_app_exact.
      apply pyslice_head. lia.
    - rewrite !zlen_app. destruct (zlen addl + (zlen y + zlen addr) =? 0) eqn:?; [lia|].
      rewrite Z.mod_small by lia.
      replace (zlen addl + (zlen y + zlen addr) - aw) with (zlen (addl ++ y)) by (rewrite zlen_app; lia).
      rewrite app_assoc, to_nat_zlen, skipn_app_exact, firstn_app_exact.
      rewrite app_assoc. apply pyslice_head. rewrite zlen_app. lia.
  Qed.

  Lemma ext_data_len (s : side) addl addr y :
    zlen addl = zlen addr ->
    zlen (ext_data s addl addr y) = zlen y + added_len s (zlen addl).
  Proof.
    intros H. unfold ext_data. destruct s; cbn [has_left has_right added_len]; rewrite ?zlen_app; lia.
  Qed.
  Lemma pad_const_len (s : side) aw (one : A) w :
    0 <= aw -> zlen (pad_const s aw one w) = zlen w + added_len s aw.
  Proof.
    intros H. unfold pad_const. rewrite !zlen_app.
    destruct s; cbn [pad_l pad_r added_len]; rewrite ?zlen_zrepeat by lia; lia.
  Qed.
End ExtRange.

(* ========================================================================================== *)
(** * adaptive_minmax: where the constrained weights land *)
Section MinMax.
  Context {A : Type}.
  Variables (n cl cr : Z) (wl wr : A) (w : Z -> A).
  Hypothesis Hcl : 0 <= cl.
  Hypothesis Hcr : 0 <= cr <= n.      (* guaranteed by the 0 <= fraction <= 1 guard *)

  Lemma constrain_at j : 0 <= j < n ->
    constrain n cl cr wl wr w j = if n - cr <=? j then wr else if j <? cl then wl else w j.
  Proof.
    intros Hj. unfold constrain, assign, sl_start, sl_stop, clamp.
    destruct (n - cr <? 0) eqn:?; [lia|]. destruct (cl <? 0) eqn:?; [lia|].
    destruct ((Z.min (n - cr) n <=? j) && (j <? n)) eqn:?, (n - cr <=? j) eqn:?; try lia; try reflexivity.
    destruct ((0 <=? j) && (j <? Z.min cl n)) eqn:?, (j <? cl) eqn:?; try lia; reflexivity.
  Qed.

  (* sorted input: positions are ranks *)
  Theorem minmax_edges_sorted j : 0 <= j < n ->
    fst (minmax_weights n None cl cr wl wr w) j = w j /\
    snd (minmax_weights n None cl cr wl wr w) j = if n - cr <=? j then wr else if j <? cl then wl else w j.
  Proof. intros Hj. cbn [minmax_weights fst snd]. split; [reflexivity|apply constrain_at; assumption]. Qed.

  (* unsorted input with sort order p and its inverse q: the point at input position j is constrained
     iff its RANK q j is among the first cl / last cr; the reported plain weights are the input *)
  Variables p q : Z -> Z.
  Hypothesis Hinv : forall j, 0 <= j < n -> 0 <= q j < n /\ p (q j) = j.

  Theorem minmax_edges_unsorted j : 0 <= j < n ->
    fst (minmax_weights n (Some (p, q)) cl cr wl wr w) j = w j /\
    snd (minmax_weights n (Some (p, q)) cl cr wl wr w) j =
      if n - cr <=? q j then wr else if q j <? cl then wl else w j.
  Proof.
    intros Hj. destruct (Hinv j Hj) as [Hq Hpq]. cbn [minmax_weights fst snd]. unfold gather at 1 2 3.
    split; [rewrite Hpq; reflexivity|].
    assert (E : constrain n cl cr wl wr (gather w p) (q j)
                = if n - cr <=? q j then wr else if q j <? cl then wl else gather w p (q j)).
    { clear Hpq. revert Hq. generalize (q j) as r. intros r Hr.
      unfold constrain, assign, sl_start, sl_stop, clamp.
      destruct (n - cr <? 0) eqn:?; [lia|]. destruct (cl <? 0) eqn:?; [lia|].
      destruct ((Z.min (n - cr) n <=? r) && (r <? n)) eqn:?, (n - cr <=? r) eqn:?; try lia; try reflexivity.
      destruct ((0 <=? r) && (r <? Z.min cl n)) eqn:?, (r <? cl) eqn:?; try lia; reflexivity. }
    rewrite E. unfold gather. rewrite Hpq. reflexivity.
  Qed.
End MinMax.

(* without the guard a right count above n makes the start of `[n - cr:]` negative: it wraps *)
Example constrain_unguarded_wraps :
  to_list 10 (constrain 10 0 12 7 9 (fun _ => 1)) = [1; 1; 1; 1; 1; 1; 1; 1; 9; 9].
Proof. vm_compute. reflexivity. Qed.

Theorem max4_is_max b0 b1 b2 b3 i :
  let m := max4 b0 b1 b2 b3 i in
  b0 i <= m /\ b1 i <= m /\ b2 i <= m /\ b3 i <= m /\ (m = b0 i \/ m = b1 i \/ m = b2 i \/ m = b3 i).
Proof. unfold max4. lia. Qed.

Theorem fit_sequence_order po :
  fit_sequence po = [(fst po, false); (fst po, true); (snd po, false); (snd po, true)].
Proof. reflexivity. Qed.

(* ========================================================================================== *)
(** * optimize_extended_range: the selection loop returns the FIRST minimiser *)
Notation argminZ := (argmin_first Z.ltb (fun _ => true)).

Lemma argmin_go_spec : forall errs i best b e,
  argmin_go Z.ltb (fun _ => true) errs i best = Some (b, e) ->
  (forall x, In x errs -> e <= x) /\
  (best = Some (b, e) \/
   exists k, (k < List.length errs)%nat /\ b = (i + k)%nat /\ nth k errs 0 = e /\
             (forall k', (k' < k)%nat -> e < nth k' errs 0) /\
             match best with Some (_, m) => e < m | None => True end).
Proof.
  induction errs as [|e0 t IH]; intros i best b e H; cbn [argmin_go] in H.
  - split; [intros x []|left; assumption].
  - destruct best as [[bi m]|].
    + destruct (e0 <? m) eqn:Hlt.
      * apply IH in H as (Hmin & [Heq | (k & Hk & Hb & Hn & Hbefore & Hlt')]).
        -- injection Heq as <- <-. split; [intros x [<-|Hx]; [lia|apply Hmin; assumption]|].
           right. exists 0%nat. cbn [List.length nth]. repeat split; try lia; try (intros k' Hk'; lia).
        -- split; [intros x [<-|Hx]; [lia|apply Hmin; assumption]|].
           right. exists (S k). cbn [List.length nth]. repeat split; try lia;
           try (intros [|k'] Hk'; cbn [nth]; [lia|apply Hbefore; lia]).
      * apply IH in H as (Hmin & [Heq | (k & Hk & Hb & Hn & Hbefore & Hlt')]).
        -- injection Heq as <- <-. split; [intros x [<-|Hx]; [lia|apply Hmin; assumption]|].
           left. reflexivity.
        -- split; [intros x [<-|Hx]; [lia|apply Hmin; assumption]|].
           right. exists (S k). cbn [List.length nth]. repeat split; try lia;
           try (intros [|k'] Hk'; cbn [nth]; [lia|apply Hbefore; lia]).
    + apply IH in H as (Hmin & [Heq | (k & Hk & Hb & Hn & Hbefore & Hlt')]).
      * injection Heq as <- <-. split; [intros x [<-|Hx]; [lia|apply Hmin; assumption]|].
        right. exists 0%nat. cbn [List.length nth]. repeat split; try lia; try (intros k' Hk'; lia).
      * split; [intros x [<-|Hx]; [lia|apply Hmin; assumption]|].
        right. exists (S k). cbn [List.length nth]. repeat split; try lia;
        try (intros [|k'] Hk'; cbn [nth]; [lia|apply Hbefore; lia]).
Qed.

Theorem argmin_first_spec errs b e :
  argminZ errs = Some (b, e) ->
  (b < List.length errs)%nat /\ nth b errs 0 = e /\
  (forall x, In x errs -> e <= x) /\ (forall k, (k < b)%nat -> e < nth k errs 0).
Proof.
  intros H. apply argmin_go_spec in H as (Hmin & [Heq | (k & Hk & Hb & Hn & Hbefore & _)]); [discriminate|].
  cbn in Hb. subst b. repeat split; assumption.
Qed.

Lemma argmin_go_some : forall errs i best, best <> None \/ errs <> [] ->
  argmin_go Z.ltb (fun _ => true) errs i best <> None.
Proof.
  induction errs as [|e0 t IH]; intros i best [H|H]; cbn [argmin_go]; try assumption; try congruence.
  - apply IH. left. destruct best as [[? ?]|]; [|congruence]. destruct (e0 <? z); discriminate.
  - apply IH. left. destruct best as [[? ?]|]; [destruct (e0 <? z)|]; discriminate.
Qed.
Theorem argmin_first_total errs : errs <> [] -> argminZ errs <> None.
Proof. intros H. apply argmin_go_some. right. assumption. Qed.

(* with errors that are never below +inf (all NaN / +inf) nothing is ever selected: the code then
   fails with UnboundLocalError instead of returning *)
Theorem argmin_never_finite {E} (lt : E -> E -> bool) errs :
  argmin_first lt (fun _ => false) errs = None.
Proof.
  unfold argmin_first. generalize 0%nat. induction errs as [|e t IH]; intros i; [reflexivity|].
  cbn [argmin_go]. apply IH.
Qed.

Lemma map_nth_seq {A} (d : A) (m : list A) : map (fun k => nth k m d) (seq 0 (List.length m)) = m.
Proof.
  induction m as [|a m IH]; [reflexivity|]. cbn [List.length seq map nth]. f_equal.
  rewrite <- seq_shift, map_map. exact IH.
Qed.

(* the extended sort order sorts the extended data: sorted data between the two additions *)
Theorem ext_sort_order_gather {A} (d : A) (s : side) (aw n : Z) (p : list Z) (addl addr y : list A) :
  zlen addl = aw -> zlen addr = aw -> zlen y = n -> (forall i, In i p -> 0 <= i < n) ->
  map (fun i => nth (Z.to_nat i) (ext_data s addl addr y) d) (ext_sort_order s aw n p)
  = ext_data s addl addr (map (fun i => nth (Z.to_nat i) y d) p).
Proof.
  intros Hl Hr Hy Hp. pose proof (zlen_nonneg addl).
  assert (Hid : forall (l m r : list A), map (fun i => nth (Z.to_nat i) (l ++ m ++ r) d) (zrange (zlen l) (zlen m)) = m).
  { intros l m r. unfold zrange, zlen. rewrite map_map, Nat2Z.id.
    rewrite <- (map_nth_seq d m) at 2.
    apply map_ext_in. intros k Hk. apply in_seq in Hk.
    replace (Z.to_nat (Z.of_nat (List.length l) + Z.of_nat k)) with (List.length l + k)%nat by lia.
    rewrite app_nth2_plus. rewrite app_nth1 by lia. reflexivity. }
  assert (Hmid : forall (l r : list A) off, off = zlen l ->
            map (fun i => nth (Z.to_nat i) (l ++ y ++ r) d) (map (fun i => i + off) p)
            = map (fun i => nth (Z.to_nat i) y d) p).
  { intros l r off ->. rewrite map_map. apply map_ext_in. intros i Hi. apply Hp in Hi.
    unfold zlen in *. replace (Z.to_nat (i + Z.of_nat (List.length l))) with (List.length l + Z.to_nat i)%nat by lia.
    rewrite app_nth2_plus. rewrite app_nth1 by lia. reflexivity. }
  unfold ext_sort_order, ext_data. destruct s; cbn [has_left has_right added_len].
  - rewrite map_app. f_equal.
    + rewrite <- Hl. specialize (Hid [] addl y). cbn [app] in Hid. rewrite zlen_nil in Hid. exact Hid.
    + specialize (Hmid addl [] aw (eq_sym Hl)). rewrite app_nil_r in Hmid. exact Hmid.
  - rewrite map_app. f_equal.
    + specialize (Hmid [] addr 0 eq_refl). cbn [app] in Hmid.
      rewrite <- Hmid. f_equal. rewrite <- (map_id p) at 1. apply map_ext. intros; lia.
    + rewrite <- Hy, <- Hr. specialize (Hid y addr []). rewrite app_nil_r in Hid. exact Hid.
  - rewrite !map_app. f_equal; [|f_equal].
    + rewrite <- Hl. specialize (Hid [] addl (y ++ addr)). cbn [app] in Hid. rewrite zlen_nil in Hid. exact Hid.
    + apply (Hmid addl addr aw (eq_sym Hl)).
    + replace (2 * aw - aw) with (zlen addr) by lia.
      replace (n + aw) with (zlen (addl ++ y)) by (rewrite zlen_app; lia).
      specialize (Hid (addl ++ y) addr []). rewrite app_nil_r, <- app_assoc in Hid. exact Hid.
Qed.
