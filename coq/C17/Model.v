(* C17 -- executable models of pybaselines/optimizers.py (and two_d/optimizers.py where it differs).
   Models only; the proofs are in C17/Proofs.v.  Everything that is not optimizer logic (the wrapped
   baseline method, np.mean over more than one point, np.maximum, the Gaussian / edge extrapolation)
   is an argument of the model.

   Conventions: an array is an index function [Z -> A] together with its length, or a [list A] when
   the code concatenates; Python slice bounds go through lib/PySlice.v (clamping, the -0 pitfall);
   scalar float arithmetic that feeds an index (ceil(N * fraction), int(N * width_scale),
   np.linspace(..., dtype=intp)) is written ONCE over the interface [NumI] and instantiated with
   exact rationals (theorems, C17/Proofs.v) and binary64 (bit-exact correspondence, C17/Float.v). *)
From Coq Require Import ZArith List Bool Lia String.
From PB Require Import lib.PySlice lib.Arr.
Import ListNotations.
Open Scope Z_scope.

(* ------------------------------------------------------------------------------------------ *)
(** * Python dict with insertion order: d[k] = v keeps the position of an existing key *)
Section Dict.
  Context {V : Type}.
  Definition dict := list (string * V).
  Fixpoint dget (k : string) (d : dict) : option V :=
    match d with
    | [] => None
    | (k', v) :: t => if String.eqb k k' then Some v else dget k t
    end.
  Fixpoint dset (k : string) (v : V) (d : dict) : dict :=
    match d with
    | [] => [(k, v)]
    | (k', v') :: t => if String.eqb k k' then (k, v) :: t else (k', v') :: dset k v t
    end.
  Definition dset_if (c : bool) (k : string) (v : V) (d : dict) : dict := if c then dset k v d else d.
End Dict.
Arguments dict V : clear implicits.

(* ------------------------------------------------------------------------------------------ *)
(** * collab_pls: the two-step protocol (optimizers.py:81-135, two_d/optimizers.py:83-136) *)
(* values of the keyword dictionary handed to the wrapped method:
   VInf = np.inf, VTrue = True, VAvgW / VAvgA = THE arrays reported as params['average_weights'] /
   params['average_alpha'], VUser i = the i-th value of the caller's method_kwargs, untouched *)
Inductive val := VInf | VTrue | VAvgW | VAvgA | VUser (id : Z).

Definition mem (s : string) (l : list string) : bool := existsb (String.eqb s) l.
Definition calc_alpha (m : string) : bool := mem m ["aspls"; "pspline_aspls"]%string.
(* 1-D: `if method not in ('mpls', 'pspline_mpls', 'fabc')`; 2-D: unconditional *)
Definition sets_tol (two_d : bool) (m : string) : bool :=
  two_d || negb (mem m ["mpls"; "pspline_mpls"; "fabc"]%string).
Definition sets_tol2 (m : string) : bool := mem m ["brpls"; "pspline_brpls"]%string.
Definition sets_mask (m : string) : bool := String.eqb m "fabc".

(* method_kws after step 1 and the forced settings, in the order the code writes them *)
Definition collab_step2 (two_d : bool) (m : string) (user : dict val) : dict val :=
  let d1 := dset "weights" VAvgW user in
  let d2 := dset_if (calc_alpha m) "alpha" VAvgA d1 in
  let d3 := dset_if (sets_tol two_d m) "tol" VInf d2 in
  let d4 := dset_if (sets_tol2 m) "tol_2" VInf d3 in
  dset_if (sets_mask m) "weights_as_mask" VTrue d4.

(* the data argument of a call of the wrapped method *)
Inductive entry := Mean | Row (i : nat).
Definition ent_eqb (a b : entry) : bool :=
  match a, b with Mean, Mean => true | Row i, Row j => Nat.eqb i j | _, _ => false end.

(* every call of the wrapped method made by collab_pls on a data set of M entries, in order *)
Definition collab_calls (two_d : bool) (m : string) (average_dataset : bool) (M : nat)
    (user : dict val) : list (entry * dict val) :=
  (if average_dataset then [(Mean, user)] else map (fun i => (Row i, user)) (seq 0 M))
  ++ map (fun i => (Row i, collab_step2 two_d m user)) (seq 0 M).

(* keys of the returned params *)
Definition collab_param_keys (m : string) : list string :=
  app ["average_weights"; "method_params"]%string (if calc_alpha m then ["average_alpha"%string] else []).

(* ------------------------------------------------------------------------------------------ *)
(** * number interface for the float-valued index computations *)
Record NumI := {
  T : Type;
  of_Z : Z -> T;
  add : T -> T -> T; sub : T -> T -> T; mul : T -> T -> T; div : T -> T -> T;
  floorZ : T -> Z; ceilZ : T -> Z; truncZ : T -> Z;
  is0 : T -> bool; ltb : T -> T -> bool; leb : T -> T -> bool; eqb : T -> T -> bool
}.

(* ------------------------------------------------------------------------------------------ *)
(** * adaptive_minmax (optimizers.py:463-518) *)
(* _check_scalar(v, 2, fill_scalar=True) on a scalar or a pair *)
Definition fill2 {A} (v : A + A * A) : A * A := match v with inl a => (a, a) | inr p => p end.
(* poly_order: a scalar p gives (p, p + 1) *)
Definition poly_orders (p : Z + Z * Z) : Z * Z :=
  match p with inl a => (a, a + 1) | inr q => q end.
(* itertools.product(poly_orders, (weight_array, constrained_weights)); false = weight_array *)
Definition fit_sequence (po : Z * Z) : list (Z * bool) :=
  list_prod [fst po; snd po] [false; true].

(* a[s:e] = v  on an array of length n *)
Definition assign {A} (n : Z) (s e : option Z) (v : A) (a : Z -> A) : Z -> A :=
  fun i => if (sl_start n s <=? i) && (i <? sl_stop n e) then v else a i.
(* constrained_weights[:cl] = wl ; constrained_weights[n - cr:] = wr *)
Definition constrain {A} (n cl cr : Z) (wl wr : A) (a : Z -> A) : Z -> A :=
  assign n (Some (n - cr)) None wr (assign n None (Some cl) wl a).
(* a[p] *)
Definition gather {A} (a : Z -> A) (p : Z -> Z) : Z -> A := fun i => a (p i).
(* the sort / un-sort sandwich: (params['weights'], params['constrained_weights']) *)
Definition minmax_weights {A} (n : Z) (order : option ((Z -> Z) * (Z -> Z))) (cl cr : Z) (wl wr : A)
    (w : Z -> A) : (Z -> A) * (Z -> A) :=
  match order with
  | None => (w, constrain n cl cr wl wr w)
  | Some (p, q) => let ws := gather w p in (gather ws q, gather (constrain n cl cr wl wr ws) q)
  end.
(* np.maximum.reduce over the four fits *)
Definition max4 (b0 b1 b2 b3 : Z -> Z) : Z -> Z := fun i => Z.max (Z.max (Z.max (b0 i) (b1 i)) (b2 i)) (b3 i).

Definition of_list {A} (d : A) (l : list A) : Z -> A := fun i => nth (Z.to_nat i) l d.
Definition to_list {A} (n : Z) (f : Z -> A) : list A := map f (zrange 0 n).

Section NumModels.
  Variable K : NumI.
  Let tadd := add K.  Let tmul := mul K.  Let tdiv := div K.  Let tsub := sub K.  Let tz := of_Z K.

  (* math.ceil(self._size * constrained_fractions[k]) *)
  Definition edge_count (n : Z) (f : T K) : Z := ceilZ K (tmul (tz n) f).
  (* int(self._size * width_scale) *)
  Definition added_window (n : Z) (ws : T K) : Z := truncZ K (tmul (tz n) ws).

  (* np.linspace(start, stop, num, dtype=np.intp) for integer start/stop, num >= 1 (numpy 2.x):
     y = arange(num) * (delta / div) + start ; y[-1] = stop ; floor *)
  Definition linspace_intp (start stop num : Z) : list Z :=
    let dv := num - 1 in
    let delta := tsub (tz stop) (tz start) in
    let step := tdiv delta (tz dv) in
    map (fun k =>
           if (1 <? num) && (k =? num - 1) then stop
           else
             let yk := if 0 <? dv
                       then (if is0 K step then tmul (tdiv (tz k) (tz dv)) delta else tmul (tz k) step)
                       else tmul (tz k) delta in
             floorZ K (tadd yk (tz start)))
        (zrange 0 num).

  (* np.interp(v, xp, fp) for finite v, xp non-decreasing of length n >= 1 (compiled_base.c):
     j = last index with xp[j] <= v *)
  Definition cnt_le (n : Z) (xp : Z -> T K) (v : T K) : Z :=
    fold_left (fun c j => if leb K (xp j) v then j + 1 else c) (zrange 0 n) 0.
  Definition interp (n : Z) (xp fp : Z -> T K) (v : T K) : T K :=
    let c := cnt_le n xp v in
    if c =? 0 then fp 0
    else if c =? n then fp (n - 1)
    else let j := c - 1 in
         if eqb K (xp j) v then fp j
         else let slope := tdiv (tsub (fp (j + 1)) (fp j)) (tsub (xp (j + 1)) (xp j)) in
              tadd (tmul slope (tsub v (xp j))) (fp j).
End NumModels.

(* ------------------------------------------------------------------------------------------ *)
(** * custom_bc: regions, sampling, forced end points (optimizers.py:596-653) *)
Inductive cb_err := ErrOverlap | ErrNegative | ErrTooLarge | ErrNum.
(* where a point of the truncated data comes from: the mean of x[l:r] / y[l:r], or the point i *)
Inductive src := Sec (l r : Z) | Pt (i : Z).
Definition src_eqb (a b : src) : bool :=
  match a, b with
  | Sec l r, Sec l' r' => (l =? l') && (r =? r')
  | Pt i, Pt j => i =? j
  | _, _ => false
  end.

Record cb_state := {
  cb_secs : list src;          (* x_sections / y_sections, in append order *)
  cb_mask : Z -> bool;         (* x_mask *)
  cb_last : Z;                 (* last_stop *)
  cb_first : bool;             (* include_first *)
  cb_lastf : bool              (* include_last *)
}.

Section CustomBC.
  Variable K : NumI.
  Variable n : Z.               (* self._size *)

  Fixpoint pairs (idx : list Z) : list (Z * Z) :=
    match idx with
    | a :: ((b :: _) as t) => (a, b) :: pairs t
    | _ => []
    end.

  (* the if / elif on every (left_idx, right_idx) *)
  Definition flags_step (st : bool * bool) (lr : Z * Z) : bool * bool :=
    let '(l, r) := lr in
    if (l =? 0) && (r =? 1) then (false, snd st)
    else if (r =? n) && (l =? n - 1) then (fst st, false)
    else st.

  Definition region_step (st : cb_state) (reg : option Z * option Z * Z) : cb_state + cb_err :=
    let '(ostart, ostop, step) := reg in
    let start := match ostart with None => 0 | Some s => s end in
    let stop := match ostop with None => n | Some s => s end in
    if start <? cb_last st then inr ErrOverlap
    else if (start <? 0) || (stop <? 0) then inr ErrNegative
    else if n <? stop then inr ErrTooLarge
    else
      let sections0 := (stop - start) / step in          (* Python // *)
      let sections := if sections0 =? 0 then 1 else sections0 in
      if sections + 1 <? 0 then inr ErrNum
      else
        let idx := linspace_intp K start stop (sections + 1) in
        let prs := pairs idx in
        let fl := fold_left flags_step prs (cb_first st, cb_lastf st) in
        inl {| cb_secs := cb_secs st ++ map (fun lr => Sec (fst lr) (snd lr)) prs;
               cb_mask := assign n (Some start) (Some stop) false (cb_mask st);
               cb_last := stop; cb_first := fst fl; cb_lastf := snd fl |}.

  Fixpoint regions_loop (st : cb_state) (regs : list (option Z * option Z * Z)) : cb_state + cb_err :=
    match regs with
    | [] => inl st
    | r :: rs => match region_step st r with
                 | inl st' => regions_loop st' rs
                 | inr e => inr e
                 end
    end.

  Definition cb_init : cb_state :=
    {| cb_secs := []; cb_mask := fun _ => true; cb_last := -1; cb_first := true; cb_lastf := true |}.

  (* x_sections (before sorting): sections, then x[x_mask] with the forced first / last point *)
  Definition cb_sources (regs : list (option Z * option Z * Z)) : list src + cb_err :=
    match regions_loop cb_init regs with
    | inr e => inr e
    | inl st =>
        let m1 := if cb_first st then assign n (Some 0) (Some 1) true (cb_mask st) else cb_mask st in
        (* x_mask[-1] = True *)
        let m2 := if cb_lastf st then assign n (Some (n - 1)) (Some n) true m1 else m1 in
        inl (cb_secs st ++ map Pt (filter m2 (zrange 0 n)))
    end.

  (* values: np.mean of a slice is an argument (exact for one point) *)
  Variable mean : list (T K) -> T K.
  Definition slice_list {A} (l r : Z) (a : list A) : list A :=
    firstn (Z.to_nat (r - l)) (skipn (Z.to_nat l) a).
  Definition src_val (d : T K) (a : list (T K)) (s : src) : T K :=
    match s with
    | Sec l r => mean (slice_list l r a)
    | Pt i => nth (Z.to_nat i) a d
    end.

  (* np.argsort(kind='mergesort') applied to (x, y) pairs: stable insertion sort on the x key *)
  Fixpoint ins (e : T K * T K) (s : list (T K * T K)) : list (T K * T K) :=
    match s with
    | [] => [e]
    | h :: t => if ltb K (fst e) (fst h) then e :: h :: t else h :: ins e t
    end.
  Definition stable_sort (l : list (T K * T K)) : list (T K * T K) :=
    fold_left (fun s e => ins e s) l [].

  (* (x_fit, y_fit) *)
  Definition cb_fit (d : T K) (x y : list (T K)) (regs : list (option Z * option Z * Z))
      : list (T K * T K) + cb_err :=
    match cb_sources regs with
    | inr e => inr e
    | inl ss => inl (stable_sort (map (fun s => (src_val d x s, src_val d y s)) ss))
    end.
End CustomBC.

(* ------------------------------------------------------------------------------------------ *)
(** * optimize_extended_range (optimizers.py:278-392) *)
Inductive side := SLeft | SRight | SBoth.
(* np.pad(..., [0 if side == 'right' else aw, 0 if side == 'left' else aw]) ; also lower/upper_bound *)
Definition pad_l (s : side) (aw : Z) : Z := match s with SRight => 0 | _ => aw end.
Definition pad_r (s : side) (aw : Z) : Z := match s with SLeft => 0 | _ => aw end.
Definition added_len (s : side) (aw : Z) : Z := match s with SBoth => 2 * aw | _ => aw end.
Definition has_right (s : side) : bool := match s with SLeft => false | _ => true end.
Definition has_left (s : side) : bool := match s with SRight => false | _ => true end.

Definition zlen {A} (l : list A) : Z := Z.of_nat (List.length l).
Definition zrepeat {A} (v : A) (k : Z) : list A := repeat v (Z.to_nat k).

(* padded weights / alpha handed to the wrapped method *)
Definition pad_const {A} (s : side) (aw : Z) (one : A) (w : list A) : list A :=
  zrepeat one (pad_l s aw) ++ w ++ zrepeat one (pad_r s aw).

(* fit_data: first the right branch appends, then the left branch prepends *)
Definition ext_data {A} (s : side) (addl addr y : list A) : list A :=
  let d1 := if has_right s then y ++ addr else y in
  if has_left s then addl ++ d1 else d1.
(* known_background: right part first, then the left part *)
Definition known_background {A} (s : side) (addl addr : list A) : list A :=
  let k1 := if has_right s then addr else [] in
  if has_left s then k1 ++ addl else k1.

(* Python a[s:e] on a list *)
Definition pyslice {A} (a : list A) (s e : option Z) : list A :=
  let n := zlen a in
  firstn (Z.to_nat (sl_stop n e - sl_start n s)) (skipn (Z.to_nat (sl_start n s)) a).
(* np.roll(a, k) for 0 <= k <= len a *)
Definition roll {A} (a : list A) (k : Z) : list A :=
  let n := zlen a in
  if n =? 0 then a else
  let r := k mod n in skipn (Z.to_nat (n - r)) a ++ firstn (Z.to_nat (n - r)) a.

(* np.roll(fit_baseline, upper_bound)[:added_len] *)
Definition rolled_part {A} (s : side) (aw : Z) (fit : list A) : list A :=
  pyslice (roll fit (pad_r s aw)) None (Some (added_len s aw)).
(* baseline = fit_baseline[lower_bound:upper_idx], upper_idx = len(fit_data) - upper_bound *)
Definition cut_baseline {A} (s : side) (aw : Z) (fit : list A) : list A :=
  pyslice fit (Some (pad_l s aw)) (Some (zlen fit - pad_r s aw)).
(* params['method_params'][key][0 if side == 'right' else aw : None if side == 'left' else -aw] *)
Definition cut_param {A} (s : side) (aw : Z) (w : list A) : list A :=
  pyslice w (Some (pad_l s aw)) (match s with SLeft => None | _ => Some (- aw) end).

(* new_sort_order of the extended fitter (lists of indices) *)
Definition ext_sort_order (s : side) (aw n : Z) (p : list Z) : list Z :=
  match s with
  | SRight => p ++ zrange n (added_len s aw)
  | SLeft => zrange 0 (added_len s aw) ++ map (fun i => i + added_len s aw) p
  | SBoth => zrange 0 aw ++ map (fun i => i + aw) p ++ zrange (n + aw) (added_len s aw - aw)
  end.

(* the selection loop: strict `sum_squares < min_sum_squares`, min starts at +inf ([None]);
   [fin e] = `e < inf` *)
Section ArgMin.
  Context {E : Type}.
  Variable lt : E -> E -> bool.
  Variable fin : E -> bool.
  Fixpoint argmin_go (errs : list E) (i : nat) (best : option (nat * E)) : option (nat * E) :=
    match errs with
    | [] => best
    | e :: t =>
        let better := match best with None => fin e | Some (_, m) => lt e m end in
        argmin_go t (S i) (if better then Some (i, e) else best)
    end.
  (* None: `baseline` is never bound (UnboundLocalError at `return`) *)
  Definition argmin_first (errs : list E) : option (nat * E) := argmin_go errs 0%nat None.
End ArgMin.

(* np.arange(min_value, max_value + step, step) for integers (poly_order sweep), after the
   `if max_value < min_value and step > 0: step = -step` flip; step <> 0 *)
Definition arange_len (lo hi step : Z) : Z :=
  (* ceil((hi - lo) / step), clamped at 0 *)
  Z.max 0 (- ((- (hi - lo)) / step)).
Definition sweep_step (lo hi step : Z) : Z := if (hi <? lo) && (0 <? step) then - step else step.
Definition poly_sweep (lo hi step : Z) : list Z :=
  if (step =? 0) || (lo =? hi) then [lo]
  else let st := sweep_step lo hi step in
       let k := arange_len lo (hi + st) st in
       if k =? 0 then [lo] else map (fun i => lo + i * st) (zrange 0 k).

(* ------------------------------------------------------------------------------------------ *)
(** * 2-D adaptive_minmax (two_d/optimizers.py:207-265) *)
(* _get_row_col_values: a scalar, (rows, columns) or (first row, last row, first column, last column) *)
Inductive rc (A : Type) := RC1 (a : A) | RC2 (a b : A) | RC4 (a b c d : A).
Arguments RC1 {A}. Arguments RC2 {A}. Arguments RC4 {A}.
Definition fill4 {A} (v : rc A) : A * A * A * A :=
  match v with RC1 a => (a, a, a, a) | RC2 a b => (a, a, b, b) | RC4 a b c d => (a, b, c, d) end.

Definition in_sl (n : Z) (s e : option Z) (i : Z) : bool := (sl_start n s <=? i) && (i <? sl_stop n e).
(* a[s:e] = v  and  a[:, s:e] = v  on an (m, n) array *)
Definition assign_rows {A} (m : Z) (s e : option Z) (v : A) (a : Z -> Z -> A) : Z -> Z -> A :=
  fun i j => if in_sl m s e i then v else a i j.
Definition assign_cols {A} (n : Z) (s e : option Z) (v : A) (a : Z -> Z -> A) : Z -> Z -> A :=
  fun i j => if in_sl n s e j then v else a i j.
(* the four writes, in the order of the code: first rows, first columns, last rows, last columns *)
Definition constrain2d {A} (m n c0 c1 c2 c3 : Z) (w0 w1 w2 w3 : A) (a : Z -> Z -> A) : Z -> Z -> A :=
  assign_cols n (Some (n - c3)) None w3
    (assign_rows m (Some (m - c1)) None w1
       (assign_cols n None (Some c2) w2
          (assign_rows m None (Some c0) w0 a))).
(* _sort_array2d with the four layouts of Baseline2D._sort_order: None, x order only (a[px]),
   z order only (a[..., pz]), both (a[px[:, None], pz[None, :]]): always a[px i][pz j] *)
Definition perm_of (o : option ((Z -> Z) * (Z -> Z))) (inverse : bool) : Z -> Z :=
  match o with None => fun i => i | Some (p, q) => if inverse then q else p end.
Definition gather2 {A} (a : Z -> Z -> A) (px pz : Z -> Z) : Z -> Z -> A := fun i j => a (px i) (pz j).
Definition minmax2d_weights {A} (m n : Z) (ox oz : option ((Z -> Z) * (Z -> Z))) (c0 c1 c2 c3 : Z)
    (w0 w1 w2 w3 : A) (w : Z -> Z -> A) : (Z -> Z -> A) * (Z -> Z -> A) :=
  match ox, oz with
  | None, None => (w, constrain2d m n c0 c1 c2 c3 w0 w1 w2 w3 w)
  | _, _ =>
      let ws := gather2 w (perm_of ox false) (perm_of oz false) in
      (gather2 ws (perm_of ox true) (perm_of oz true),
       gather2 (constrain2d m n c0 c1 c2 c3 w0 w1 w2 w3 ws) (perm_of ox true) (perm_of oz true))
  end.
Definition to_list2 {A} (m n : Z) (f : Z -> Z -> A) : list A :=
  flat_map (fun i => map (fun j => f i j) (zrange 0 n)) (zrange 0 m).
Definition of_list2 {A} (d : A) (n : Z) (l : list A) : Z -> Z -> A := fun i j => nth (Z.to_nat (i * n + j)) l d.

(* ------------------------------------------------------------------------------------------ *)
(** * the nested loops of brpls / pspline_brpls (whittaker.py:905-944), as a 2-level skeleton *)
Section Nested.
  Variables (W B Beta D D2 : Type).
  Variable solve : W -> B.
  Variable reweight : B -> Beta -> W * bool.        (* _weighting._brpls: (new weights, exit_early) *)
  Variable diff : B -> B -> D.                      (* relative_difference(baseline, new_baseline) *)
  Variable below : D -> bool.                       (* calc_difference < tol *)
  Variable diff2 : Beta -> W -> D2.                 (* abs(beta + mean(weights) - 1) *)
  Variable below2 : D2 -> bool.                     (* calc_difference_2 < tol_2 *)
  Variable below2_inf : D2 -> bool.                 (* ... after `tol_2 = np.inf` on an early exit *)
  Variable next_beta : W -> Beta.                   (* 1 - mean(weights) *)

  Record inner_res := { i_new : W; i_base : B; i_bw : W; i_forced : bool; i_solves : nat }.

  (* `for j in range(max_iter + 1)`: [f] passes remain after this one; [first] = (i == 0 and j == 0) *)
  Fixpoint inner (f : nat) (first : bool) (beta : Beta) (w : W) (b : B) (bw : W) (cnt : nat) : inner_res :=
    let nb := solve w in
    let '(nw, early) := reweight nb beta in
    if early then {| i_new := nw; i_base := if first then nb else b; i_bw := bw; i_forced := true; i_solves := S cnt |}
    else if below (diff b nb)
         then {| i_new := nw; i_base := if first then nb else b; i_bw := bw; i_forced := false; i_solves := S cnt |}
         else match f with
              | O => {| i_new := nw; i_base := nb; i_bw := w; i_forced := false; i_solves := S cnt |}
              | S f' => inner f' false beta nw nb w (S cnt)
              end.

  (* `for i in range(max_iter_2 + 1)`; returns (baseline, params['weights'], number of solves) *)
  Fixpoint outer (max_iter : nat) (f2 : nat) (first : bool) (beta : Beta) (w : W) (b : B) (bw : W) (cnt : nat)
      : B * W * nat :=
    let r := inner max_iter first beta w b bw cnt in
    let d2 := diff2 beta (i_new r) in
    if (if i_forced r then below2_inf d2 else below2 d2) then (i_base r, i_bw r, i_solves r)
    else match f2 with
         | O => (i_base r, i_bw r, i_solves r)
         | S f2' => outer max_iter f2' false (next_beta (i_new r)) (i_new r) (i_base r) (i_bw r) (i_solves r)
         end.

  (* brpls(y, weights = w0): beta = 0.5, baseline = y, baseline_weights = weight_array = w0 *)
  Definition brpls_loops (max_iter max_iter_2 : nat) (beta0 : Beta) (w0 : W) (y : B) : B * W * nat :=
    outer max_iter max_iter_2 true beta0 w0 y w0 0%nat.
End Nested.

(* ------------------------------------------------------------------------------------------ *)
(** * optimize_extended_range: the lam grid  np.logspace(min, max, ceil((max - min) / step))  as the
      list of exponents (lam = 10.0 ** exponent is the library's pow) *)
Section LamGrid.
  Variable K : NumI.
  Let tadd := add K.  Let tmul := mul K.  Let tdiv := div K.  Let tsub := sub K.  Let tz := of_Z K.

  (* np.linspace(lo, hi, num) in floating point (numpy 2.x), num >= 0 *)
  Definition linspace_f (lo hi : T K) (num : Z) : list (T K) :=
    let dv := num - 1 in
    let delta := tsub hi lo in
    let step := tdiv delta (tz dv) in
    map (fun k =>
           if (1 <? num) && (k =? num - 1) then hi
           else
             let yk := if 0 <? dv
                       then (if is0 K step then tmul (tdiv (tz k) (tz dv)) delta else tmul (tz k) step)
                       else tmul (tz k) delta in
             tadd yk lo)
        (zrange 0 num).

  (* None: np.logspace raises (negative number of samples) *)
  Definition lam_grid (lo hi step : T K) : option (list (T K)) :=
    if is0 K step || eqb K lo hi then Some [lo]
    else
      let st := if ltb K hi lo && ltb K (tz 0) step then tsub (tz 0) step else step in
      let num := ceilZ K (tdiv (tsub hi lo) st) in
      if num <? 0 then None else if num =? 0 then Some [lo] else Some (linspace_f lo hi num).
End LamGrid.

(* the parameter reported as optimal: the grid value at the selected index *)
Definition selected_param {P} (grid : list P) (errs : list Z) : option P :=
  match argmin_first Z.ltb (fun _ => true) errs with
  | Some (b, _) => nth_error grid b
  | None => None
  end.

(* ------------------------------------------------------------------------------------------ *)
(** * the `method` argument is case-insensitive: `method = method.lower()` before every comparison *)
Definition lower_ascii (c : Ascii.ascii) : Ascii.ascii :=
  let n := Ascii.nat_of_ascii c in
  if (Nat.leb 65 n && Nat.leb n 90)%bool then Ascii.ascii_of_nat (n + 32) else c.
Fixpoint lower (s : string) : string :=
  match s with EmptyString => EmptyString | String c t => String (lower_ascii c) (lower t) end.
(* what collab_pls does with the name AS GIVEN by the caller *)
Definition collab_calls_named (two_d : bool) (name : string) (average_dataset : bool) (M : nat)
    (user : dict val) : list (entry * dict val) :=
  collab_calls two_d (lower name) average_dataset M user.
Definition collab_param_keys_named (name : string) : list string := collab_param_keys (lower name).
