(* C17 -- growth: 2-D adaptive_minmax, the nested brpls loops, the lam grid, the grid-tied optimum and
   the custom_bc smoothing system (by import of C06). *)
From Coq Require Import ZArith List Bool Lia ZifyBool.
From PB Require Import lib.PySlice lib.Arr C17.Model C17.Proofs C17.Custom.
Import ListNotations.
Open Scope Z_scope.

(* ========================================================================================== *)
(** * 2-D adaptive_minmax *)
Definition inv_ok (k : Z) (o : option ((Z -> Z) * (Z -> Z))) : Prop :=
  match o with
  | None => True
  | Some (p, q) => forall j, 0 <= j < k -> 0 <= q j < k /\ p (q j) = j
  end.

Lemma perm_of_inv k o j : inv_ok k o -> 0 <= j < k ->
  0 <= perm_of o true j < k /\ perm_of o false (perm_of o true j) = j.
Proof.
  destruct o as [[p q]|]; cbn [inv_ok perm_of]; intros H Hj; [apply H; assumption|split; [assumption|reflexivity]].
Qed.

Section MinMax2D.
  Context {A : Type}.
  Variables (m n c0 c1 c2 c3 : Z) (w0 w1 w2 w3 : A).
  Hypothesis H0 : 0 <= c0.
  Hypothesis H1 : 0 <= c1 <= m.
  Hypothesis H2 : 0 <= c2.
  Hypothesis H3 : 0 <= c3 <= n.

  Definition cell (a : A) (r c : Z) : A :=
    if n - c3 <=? c then w3 else if m - c1 <=? r then w1 else if c <? c2 then w2 else if r <? c0 then w0 else a.

  Lemma constrain2d_at (a : Z -> Z -> A) r c : 0 <= r < m -> 0 <= c < n ->
    constrain2d m n c0 c1 c2 c3 w0 w1 w2 w3 a r c = cell (a r c) r c.
  Proof.
    intros Hr Hc. unfold constrain2d, assign_rows, assign_cols, in_sl, sl_start, sl_stop, clamp, cell.
    destruct (n - c3 <? 0) eqn:?; [lia|]. destruct (m - c1 <? 0) eqn:?; [lia|].
    destruct (c2 <? 0) eqn:?; [lia|]. destruct (c0 <? 0) eqn:?; [lia|].
    destruct ((Z.min (n - c3) n <=? c) && (c <? n)) eqn:?, (n - c3 <=? c) eqn:?; try lia; try reflexivity.
    destruct ((Z.min (m - c1) m <=? r) && (r <? m)) eqn:?, (m - c1 <=? r) eqn:?; try lia; try reflexivity.
    destruct ((0 <=? c) && (c <? Z.min c2 n)) eqn:?, (c <? c2) eqn:?; try lia; try reflexivity.
    destruct ((0 <=? r) && (r <? Z.min c0 m)) eqn:?, (r <? c0) eqn:?; try lia; reflexivity.
  Qed.

  (* for every pair of sort orders (any of the four _sort_order layouts): the cell at input position
     (i, j) is constrained according to the RANKS of x_i and z_j; last columns beat last rows beat
     first columns beat first rows; the reported plain weights are the caller's *)
  Theorem minmax2d_edges ox oz (w : Z -> Z -> A) i j :
    inv_ok m ox -> inv_ok n oz -> 0 <= i < m -> 0 <= j < n ->
    fst (minmax2d_weights m n ox oz c0 c1 c2 c3 w0 w1 w2 w3 w) i j = w i j /\
    snd (minmax2d_weights m n ox oz c0 c1 c2 c3 w0 w1 w2 w3 w) i j
      = cell (w i j) (perm_of ox true i) (perm_of oz true j).
  Proof.
    intros Hx Hz Hi Hj.
    destruct (perm_of_inv m ox i Hx Hi) as [Rx Ex]. destruct (perm_of_inv n oz j Hz Hj) as [Rz Ez].
    assert (G : gather2 (constrain2d m n c0 c1 c2 c3 w0 w1 w2 w3 (gather2 w (perm_of ox false) (perm_of oz false)))
                  (perm_of ox true) (perm_of oz true) i j = cell (w i j) (perm_of ox true i) (perm_of oz true j)).
    { unfold gather2 at 1. rewrite constrain2d_at by assumption. unfold gather2. rewrite Ex, Ez. reflexivity. }
    assert (F : gather2 (gather2 w (perm_of ox false) (perm_of oz false)) (perm_of ox true) (perm_of oz true) i j = w i j).
    { unfold gather2. rewrite Ex, Ez. reflexivity. }
    unfold minmax2d_weights. destruct ox as [[px qx]|], oz as [[pz qz]|]; cbn [fst snd]; (split; [exact F|exact G]).
  Qed.
End MinMax2D.

(* ========================================================================================== *)
(** * the nested loops of brpls under tol = inf, tol_2 = inf *)
Section NestedProofs.
  Variables (W B Beta D D2 : Type).
  Variable solve : W -> B.
  Variable reweight : B -> Beta -> W * bool.
  Variable diff : B -> B -> D.
  Variable below : D -> bool.
  Variable diff2 : Beta -> W -> D2.
  Variable below2 below2_inf : D2 -> bool.
  Variable next_beta : W -> Beta.

  (* first inner difference below tol and first outer difference below tol_2 (under inf: neither is
     NaN / +inf), or an early exit at the very first pass: ONE solve with the supplied weights, which
     are the reported weights, for every max_iter and max_iter_2 *)
  Theorem brpls_single_pass (max_iter max_iter_2 : nat) (beta0 : Beta) (w0 : W) (y : B) :
    let nb := solve w0 in
    let nw := fst (reweight nb beta0) in
    let early := snd (reweight nb beta0) in
    (if early then below2_inf (diff2 beta0 nw) else below (diff y nb) && below2 (diff2 beta0 nw)) = true ->
    brpls_loops W B Beta D D2 solve reweight diff below diff2 below2 below2_inf next_beta
                max_iter max_iter_2 beta0 w0 y = (solve w0, w0, 1%nat).
  Proof.
    cbv zeta. intros H. unfold brpls_loops.
    destruct max_iter_2, max_iter; cbn [outer inner];
      destruct (reweight (solve w0) beta0) as [nw early]; cbn [fst snd] in H;
      destruct early; cbn [i_forced i_new i_base i_bw i_solves].
    all: try (rewrite H; reflexivity).
    all: apply andb_true_iff in H as [Ha Hb]; rewrite Ha; cbn [i_forced i_new i_base i_bw i_solves]; rewrite Hb; reflexivity.
  Qed.
End NestedProofs.

(* ========================================================================================== *)
(** * the lam grid: shape and end point rule, for every number instance *)
Lemma last_map_zrange {A} (f : Z -> A) (d : A) (k : nat) :
  last (map f (zrange 0 (Z.of_nat (S k)))) d = f (Z.of_nat k).
Proof. rewrite zrange_snoc, map_app. cbn [map]. rewrite last_last. f_equal. Qed.

Lemma linspace_f_length K lo hi num : List.length (linspace_f K lo hi num) = Z.to_nat num.
Proof. unfold linspace_f. rewrite map_length. apply zrange_length. Qed.

Lemma linspace_f_last K lo hi num : 2 <= num -> last (linspace_f K lo hi num) lo = hi.
Proof.
  intros H. unfold linspace_f.
  replace (zrange 0 num) with (zrange 0 (Z.of_nat (S (Z.to_nat (num - 1))))) by (f_equal; lia).
  rewrite last_map_zrange. replace (Z.of_nat (Z.to_nat (num - 1))) with (num - 1) by lia.
  destruct ((1 <? num) && (num - 1 =? num - 1)) eqn:E; [reflexivity|lia].
Qed.

(* the sweep is never empty; with two or more values the last exponent is EXACTLY max_value
   (written explicitly by np.linspace, no rounding) *)
Theorem lam_grid_shape K lo hi step g : lam_grid K lo hi step = Some g ->
  g <> [] /\ (2 <= zlen g -> last g lo = hi).
Proof.
  unfold lam_grid. destruct (is0 K step || eqb K lo hi).
  - intros [= <-]. split; [discriminate|]. unfold zlen. cbn. lia.
  - set (num := ceilZ K _). destruct (num <? 0) eqn:E1; [discriminate|].
    destruct (num =? 0) eqn:E2; intros [= <-].
    + split; [discriminate|]. unfold zlen. cbn. lia.
    + split.
      * intros Hn. apply (f_equal (@List.length _)) in Hn. rewrite linspace_f_length in Hn. cbn in Hn. lia.
      * unfold zlen. rewrite linspace_f_length. intros Hl. apply linspace_f_last. lia.
Qed.

(* ========================================================================================== *)
(** * the optimum tied to the grid actually swept *)
Theorem selected_param_spec {P} (grid : list P) (errs : list Z) (p : P) :
  selected_param grid errs = Some p ->
  exists b e, nth_error grid b = Some p /\ (b < List.length errs)%nat /\ nth b errs 0 = e /\
              (forall x, In x errs -> e <= x) /\ (forall k, (k < b)%nat -> e < nth k errs 0).
Proof.
  unfold selected_param. destruct (argmin_first Z.ltb (fun _ => true) errs) as [[b e]|] eqn:E; [|discriminate].
  intros Hp. exists b, e. split; [assumption|]. apply argmin_first_spec. assumption.
Qed.

Theorem selected_param_total {P} (grid : list P) (errs : list Z) :
  List.length grid = List.length errs -> errs <> [] -> selected_param grid errs <> None.
Proof.
  intros Hl Hne. unfold selected_param.
  destruct (argmin_first Z.ltb (fun _ => true) errs) as [[b e]|] eqn:E.
  - apply argmin_first_spec in E as (Hb & _). apply nth_error_Some. lia.
  - exfalso. exact (argmin_first_total errs Hne E).
Qed.
