(* C17 -- the optional Whittaker smoothing step of custom_bc (optimizers.py:665-670):
     _, _, whittaker_system = self._setup_whittaker(y, lam=lam, diff_order=diff_order)
     baseline = whittaker_system.solve(whittaker_system.add_diagonal(1.), baseline, ...)
   is one pass of C06's assembly model with unit weights and the interpolated baseline as right-hand
   side.  C06's files are imported, not edited. *)
From Coq Require Import ZArith List Bool Lia ZifyBool.
From PB Require Import lib.SumZ lib.PySlice lib.Arr C11.DtD C06.Model C06.Proofs.
Import ListNotations.
Open Scope Z_scope.

Definition custom_smooth (hp : bool) (bs : Z) (N : nat) (lam : Z) (d : nat) (base : Z -> Z) : option (list call) :=
  asls hp bs N lam d [fun _ => 1] base.

(* the system handed to the solver IS (I + lam D'D) z = interpolated baseline, for every size, every
   difference order, every solver setting *)
Theorem custom_smooth_system hp bs N lam d base :
  (1 <= d < N)%nat -> 0 < lam ->
  exists k, custom_smooth hp bs N lam d base = Some [k] /\
            sys_ok N (fun i j => (if i =? j then 1 else 0) + lam * DtD d N i j) base k.
Proof.
  intros Hd Hlam. unfold custom_smooth.
  destruct (asls_system hp bs N lam d [fun _ => 1] base Hd Hlam) as (cs & Hcs & HF).
  inversion HF as [|w k wl' cs' Hk Hrest]; subst. inversion Hrest; subst.
  exists k. split; [assumption|].
  destruct Hk as (Hwf & Hden & Hrhs). repeat split; try assumption.
  intros i Hi. rewrite Hrhs by assumption. unfold mulv. lia.
Qed.
