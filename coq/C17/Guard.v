(* C17 -- the counts ceil(N * fraction) under the guard 0 <= fraction <= 1 (exact arithmetic): they
   lie in [0, N], so the hypotheses `0 <= cl`, `0 <= cr <= n` of the edge theorems are discharged by
   the ValueError guard of adaptive_minmax instead of being assumed. *)
From Coq Require Import ZArith List Bool Lia ZifyBool QArith Qround.
From PB Require Import lib.PySlice lib.Arr C17.Model C17.Proofs C17.Custom C17.Grow.
Import ListNotations.
Open Scope Z_scope.

Lemma edge_count_Q n (f : Q) : edge_count Num_Q n f = Qceiling (inject_Z n * f).
Proof. reflexivity. Qed.

Theorem edge_count_bounds n (f : Q) : 0 <= n -> (0 <= f)%Q -> (f <= 1)%Q ->
  0 <= edge_count Num_Q n f <= n.
Proof.
  intros Hn H0 H1. rewrite edge_count_Q.
  assert (Hn' : (0 <= inject_Z n)%Q) by (unfold Qle; cbn; lia).
  split.
  - change 0 with (Qceiling 0). apply Qceiling_resp_le. apply Qmult_le_0_compat; assumption.
  - rewrite <- (Qceiling_Z n) at 2. apply Qceiling_resp_le.
    setoid_replace (inject_Z n) with (inject_Z n * 1)%Q at 2 by ring.
    rewrite (Qmult_comm (inject_Z n) f), (Qmult_comm (inject_Z n) 1).
    apply Qmult_le_compat_r; assumption.
Qed.

Theorem edge_count_zero n (f : Q) : (f == 0)%Q -> edge_count Num_Q n f = 0.
Proof.
  intros H. rewrite edge_count_Q. assert (E : (inject_Z n * f == 0)%Q) by (rewrite H; ring).
  rewrite E. reflexivity.
Qed.

Theorem edge_count_one n (f : Q) : (f == 1)%Q -> edge_count Num_Q n f = n.
Proof.
  intros H. rewrite edge_count_Q. assert (E : (inject_Z n * f == inject_Z n)%Q) by (rewrite H; ring).
  rewrite E. apply Qceiling_Z.
Qed.

(* a positive fraction of a non-empty axis constrains at least one point *)
Theorem edge_count_pos n (f : Q) : 1 <= n -> (0 < f)%Q -> 1 <= edge_count Num_Q n f.
Proof.
  intros Hn Hf. rewrite edge_count_Q.
  assert (Hx : (0 < inject_Z n * f)%Q).
  { apply Qmult_lt_0_compat; [unfold Qlt; cbn; lia|assumption]. }
  pose proof (Qle_ceiling (inject_Z n * f)) as Hc.
  destruct (Z_lt_le_dec (Qceiling (inject_Z n * f)) 1) as [Hlt|]; [|lia].
  exfalso. assert (Hle : (inject_Z (Qceiling (inject_Z n * f)) <= 0)%Q) by (unfold Qle; cbn; lia).
  apply (Qlt_irrefl 0). eapply Qlt_le_trans; [exact Hx|]. eapply Qle_trans; eassumption.
Qed.

(* 1-D adaptive_minmax with the counts computed from the fractions: no hypothesis on the counts left *)
Theorem minmax_edges_guarded {A} (n : Z) (f0 f1 : Q) (wl wr : A) (w : Z -> A) (p q : Z -> Z) :
  0 <= n -> (0 <= f0 <= 1)%Q -> (0 <= f1 <= 1)%Q ->
  (forall j, 0 <= j < n -> 0 <= q j < n /\ p (q j) = j) ->
  forall j, 0 <= j < n ->
  let cl := edge_count Num_Q n f0 in let cr := edge_count Num_Q n f1 in
  fst (minmax_weights n (Some (p, q)) cl cr wl wr w) j = w j /\
  snd (minmax_weights n (Some (p, q)) cl cr wl wr w) j =
    if n - cr <=? q j then wr else if q j <? cl then wl else w j.
Proof.
  intros Hn [H00 H01] [H10 H11] Hinv j Hj. cbv zeta.
  pose proof (edge_count_bounds n f0 Hn H00 H01). pose proof (edge_count_bounds n f1 Hn H10 H11).
  apply minmax_edges_unsorted; try assumption; lia.
Qed.

Theorem minmax_edges_sorted_guarded {A} (n : Z) (f0 f1 : Q) (wl wr : A) (w : Z -> A) :
  0 <= n -> (0 <= f0 <= 1)%Q -> (0 <= f1 <= 1)%Q ->
  forall j, 0 <= j < n ->
  let cl := edge_count Num_Q n f0 in let cr := edge_count Num_Q n f1 in
  fst (minmax_weights n None cl cr wl wr w) j = w j /\
  snd (minmax_weights n None cl cr wl wr w) j = if n - cr <=? j then wr else if j <? cl then wl else w j.
Proof.
  intros Hn [H00 H01] [H10 H11] j Hj. cbv zeta.
  pose proof (edge_count_bounds n f0 Hn H00 H01). pose proof (edge_count_bounds n f1 Hn H10 H11).
  apply minmax_edges_sorted; try assumption; lia.
Qed.

(* 2-D: four fractions, counts per axis *)
Theorem minmax2d_edges_guarded {A} (m n : Z) (f0 f1 f2 f3 : Q) (w0 w1 w2 w3 : A)
    (ox oz : option ((Z -> Z) * (Z -> Z))) (w : Z -> Z -> A) (i j : Z) :
  0 <= m -> 0 <= n -> (0 <= f0 <= 1)%Q -> (0 <= f1 <= 1)%Q -> (0 <= f2 <= 1)%Q -> (0 <= f3 <= 1)%Q ->
  inv_ok m ox -> inv_ok n oz -> 0 <= i < m -> 0 <= j < n ->
  let c0 := edge_count Num_Q m f0 in let c1 := edge_count Num_Q m f1 in
  let c2 := edge_count Num_Q n f2 in let c3 := edge_count Num_Q n f3 in
  fst (minmax2d_weights m n ox oz c0 c1 c2 c3 w0 w1 w2 w3 w) i j = w i j /\
  snd (minmax2d_weights m n ox oz c0 c1 c2 c3 w0 w1 w2 w3 w) i j =
    let r := perm_of ox true i in let c := perm_of oz true j in
    if n - c3 <=? c then w3 else if m - c1 <=? r then w1 else if c <? c2 then w2 else if r <? c0 then w0 else w i j.
Proof.
  intros Hm Hn [A0 B0] [A1 B1] [A2 B2] [A3 B3] Hx Hz Hi Hj. cbv zeta.
  pose proof (edge_count_bounds m f0 Hm A0 B0). pose proof (edge_count_bounds m f1 Hm A1 B1).
  pose proof (edge_count_bounds n f2 Hn A2 B2). pose proof (edge_count_bounds n f3 Hn A3 B3).
  apply (minmax2d_edges m n _ _ _ _ w0 w1 w2 w3); try assumption; lia.
Qed.
