(* The 2-D penalized systems (pybaselines/two_d/_whittaker_utils.py: PenalizedSystem2D, WhittakerSystem2D
   without eigendecomposition; two_d/_spline_utils.py: PSpline2D) as clients of the 1-D penalty of
   C11/Banded.v:      penalty = lam_r * kron(P_r, I_C) + lam_c * kron(I_R, P_c),
   with P_r = diff_penalty_matrix(R, d_r), P_c = diff_penalty_matrix(C, d_c) built from the FULL bands of
   diff_penalty_diagonals (the translator-tied tables of gen/GenBands.v through Banded.dpd_core).
   As in C11/Effects.v, reset_diagonals is a SEQUENCE OF EFFECTS extracted from the current source
   (tools/gen_band_effects2d.py -> gen/GenBandEffects2D.v) and run by the interpreter [exec2]: an
   exception leaves exactly the attributes assigned before the raising statement changed, and every value
   the penalty is built from is read from where the source reads it (the object or a local).
   Models only; the proofs are in C11/Sys2DProofs.v. *)
From Coq Require Import ZArith List Bool Lia ZifyBool.
From PB Require Import lib.SumZ lib.PySlice lib.Arr C11.DtD C11.Table gen.GenBands C11.Banded.
Import ListNotations.
Open Scope Z_scope.

(* ---- the 1-D penalty matrix: diff_penalty_matrix(N, d) ----
   raises when N <= d; otherwise dia_object((diff_penalty_diagonals(N, d, lower_only=False),
   arange(d, -d-1, -1))): entry (i, j) is band row i - j + d, column j *)
Definition pen1 (N d : nat) : option (Z -> Z -> Z) :=
  if (N <=? d)%nat then None
  else match dpd_core N d false with
       | DpdOk a => Some (fun i j => let rho := i - j + Z.of_nat d in
                                     if (0 <=? rho) && (rho <? nr a) then get a rho j else 0)
       | _ => None
       end.

(* ---- Kronecker terms on the flattened index p = i * C + j ---- *)
Definition delta (a b : Z) : Z := if a =? b then 1 else 0.

(* kron(l * P, identity(C)) *)
Definition term_rows (R C : nat) (l : Z) (P : Z -> Z -> Z) : arr :=
  let c := Z.of_nat C in
  mkarr (Z.of_nat R * c) (Z.of_nat R * c) (fun p q => (l * P (p / c) (q / c)) * delta (p mod c) (q mod c)).

(* kron(identity(R), l * P) *)
Definition term_cols (R C : nat) (l : Z) (P : Z -> Z -> Z) : arr :=
  let c := Z.of_nat C in
  mkarr (Z.of_nat R * c) (Z.of_nat R * c) (fun p q => delta (p / c) (q / c) * (l * P (p mod c) (q mod c))).

Definition add2 (a b : arr) : arr := mkarr (nr a) (nc a) (fun p q => get a p q + get b p q).

(* ---- the object ---- *)
Record sys2 := { z_dr : Z; z_dc : Z; z_lr : Z; z_lc : Z; z_pen : arr; z_maind : Z -> Z }.

(* ---- requests, valid or not: lam and diff_order are a scalar ([x]) or a sequence ---- *)
Record req2 := { r_lam : list Z; r_d : list Z }.

Definition pair_of (l : list Z) : option (Z * Z) :=
  match l with [x] => Some (x, x) | [x; y] => Some (x, y) | _ => None end.

(* _check_scalar_variable(diff_order, allow_zero=False, two_d=True, dtype=int) / _check_lam(lam, two_d=True) *)
Definition check_pos (l : list Z) : option (Z * Z) :=
  match pair_of l with
  | Some (a, b) => if (0 <? a) && (0 <? b) then Some (a, b) else None
  | None => None
  end.

(* ---- effects ---- *)
Inductive src := FromSelf | FromLocal.   (* self.diff_order / self.lam   or   the checked local *)

Inductive eff2 :=
  | XCheckOrder            (* _check_scalar_variable(diff_order, ...) evaluated (into a local) *)
  | XSetOrder              (* self.diff_order = <checked value> *)
  | XCheckLam              (* _check_lam(lam, two_d=True) evaluated *)
  | XSetLam                (* self.lam = <checked value> *)
  | XBuildRows (s : src)   (* penalty_rows = diff_penalty_matrix(self._num_bases[0], <order>[0]) *)
  | XBuildCols (s : src)   (* penalty_columns = diff_penalty_matrix(self._num_bases[1], <order>[1]) *)
  | XTermRows (s : src)    (* P_rows = kron(<lam>[0] * penalty_rows, identity(self._num_bases[1])) *)
  | XTermCols (s : src)    (* P_columns = kron(identity(self._num_bases[0]), <lam>[1] * penalty_columns) *)
  | XSetPen                (* self.penalty = P_rows + P_columns *)
  | XBands                 (* self._update_bands(): main_diagonal = penalty.diagonal() *)
  | XOther2.               (* anything else (no accepted order contains it) *)

(* the order of PenalizedSystem2D.reset_diagonals at /repo 4a1c1fc, by hand (for the refutation only) *)
Definition order2_4a1c1fc : list eff2 :=
  [XCheckOrder; XSetOrder; XCheckLam; XSetLam; XBuildRows FromSelf; XBuildCols FromSelf;
   XTermRows FromSelf; XTermCols FromSelf; XSetPen; XBands].

(* the locals of one call *)
Record frame := { f_d : option (Z * Z); f_lam : option (Z * Z);
                  f_pr : option (Z -> Z -> Z); f_pc : option (Z -> Z -> Z);
                  f_tr : option arr; f_tc : option arr }.
Definition frame0 : frame :=
  {| f_d := None; f_lam := None; f_pr := None; f_pc := None; f_tr := None; f_tc := None |}.

Inductive outcome2 := Done2 (o : sys2) | Raised2 (o : sys2).
Definition after2 (x : outcome2) : sys2 := match x with Done2 o | Raised2 o => o end.

Definition set_order (o : sys2) (d : Z * Z) : sys2 :=
  {| z_dr := fst d; z_dc := snd d; z_lr := z_lr o; z_lc := z_lc o; z_pen := z_pen o; z_maind := z_maind o |}.
Definition set_lam2 (o : sys2) (l : Z * Z) : sys2 :=
  {| z_dr := z_dr o; z_dc := z_dc o; z_lr := fst l; z_lc := snd l; z_pen := z_pen o; z_maind := z_maind o |}.
Definition set_pen (o : sys2) (p : arr) : sys2 :=
  {| z_dr := z_dr o; z_dc := z_dc o; z_lr := z_lr o; z_lc := z_lc o; z_pen := p; z_maind := z_maind o |}.
Definition update_bands2 (o : sys2) : sys2 :=
  let p := z_pen o in
  {| z_dr := z_dr o; z_dc := z_dc o; z_lr := z_lr o; z_lc := z_lc o; z_pen := p; z_maind := fun k => get p k k |}.

Definition read_d (s : src) (fr : frame) (o : sys2) : option (Z * Z) :=
  match s with FromSelf => Some (z_dr o, z_dc o) | FromLocal => f_d fr end.
Definition read_lam (s : src) (fr : frame) (o : sys2) : option (Z * Z) :=
  match s with FromSelf => Some (z_lr o, z_lc o) | FromLocal => f_lam fr end.

(* [R] x [C] = self._num_bases.  A read of a local that was never bound is an error of the order itself:
   it ends the run like an exception (no accepted order does it). *)
Fixpoint exec2 (R C : nat) (q : req2) (es : list eff2) (fr : frame) (o : sys2) : outcome2 :=
  match es with
  | [] => Done2 o
  | e :: es' =>
      match e with
      | XCheckOrder =>
          match check_pos (r_d q) with
          | Some d => exec2 R C q es' {| f_d := Some d; f_lam := f_lam fr; f_pr := f_pr fr; f_pc := f_pc fr;
                                         f_tr := f_tr fr; f_tc := f_tc fr |} o
          | None => Raised2 o
          end
      | XSetOrder => match f_d fr with Some d => exec2 R C q es' fr (set_order o d) | None => Raised2 o end
      | XCheckLam =>
          match check_pos (r_lam q) with
          | Some l => exec2 R C q es' {| f_d := f_d fr; f_lam := Some l; f_pr := f_pr fr; f_pc := f_pc fr;
                                         f_tr := f_tr fr; f_tc := f_tc fr |} o
          | None => Raised2 o
          end
      | XSetLam => match f_lam fr with Some l => exec2 R C q es' fr (set_lam2 o l) | None => Raised2 o end
      | XBuildRows s =>
          match read_d s fr o with
          | Some d => match pen1 R (Z.to_nat (fst d)) with
                      | Some P => exec2 R C q es' {| f_d := f_d fr; f_lam := f_lam fr; f_pr := Some P; f_pc := f_pc fr;
                                                     f_tr := f_tr fr; f_tc := f_tc fr |} o
                      | None => Raised2 o
                      end
          | None => Raised2 o
          end
      | XBuildCols s =>
          match read_d s fr o with
          | Some d => match pen1 C (Z.to_nat (snd d)) with
                      | Some P => exec2 R C q es' {| f_d := f_d fr; f_lam := f_lam fr; f_pr := f_pr fr; f_pc := Some P;
                                                     f_tr := f_tr fr; f_tc := f_tc fr |} o
                      | None => Raised2 o
                      end
          | None => Raised2 o
          end
      | XTermRows s =>
          match read_lam s fr o, f_pr fr with
          | Some l, Some P => exec2 R C q es' {| f_d := f_d fr; f_lam := f_lam fr; f_pr := f_pr fr; f_pc := f_pc fr;
                                                 f_tr := Some (term_rows R C (fst l) P); f_tc := f_tc fr |} o
          | _, _ => Raised2 o
          end
      | XTermCols s =>
          match read_lam s fr o, f_pc fr with
          | Some l, Some P => exec2 R C q es' {| f_d := f_d fr; f_lam := f_lam fr; f_pr := f_pr fr; f_pc := f_pc fr;
                                                 f_tr := f_tr fr; f_tc := Some (term_cols R C (snd l) P) |} o
          | _, _ => Raised2 o
          end
      | XSetPen =>
          match f_tr fr, f_tc fr with
          | Some a, Some b => exec2 R C q es' fr (set_pen o (add2 a b))
          | _, _ => Raised2 o
          end
      | XBands => exec2 R C q es' fr (update_bands2 o)
      | XOther2 => Raised2 o
      end
  end.

(* ---- the directly built system: a function of the request alone ---- *)
Definition fresh2 (R C : nat) (q : req2) : option sys2 :=
  match check_pos (r_d q), check_pos (r_lam q) with
  | Some d, Some l =>
      match pen1 R (Z.to_nat (fst d)), pen1 C (Z.to_nat (snd d)) with
      | Some Pr, Some Pc =>
          let pen := add2 (term_rows R C (fst l) Pr) (term_cols R C (snd l) Pc) in
          Some {| z_dr := fst d; z_dc := snd d; z_lr := fst l; z_lc := snd l; z_pen := pen;
                  z_maind := fun k => get pen k k |}
      | _, _ => None
      end
  | _, _ => None
  end.

(* the object __init__ hands to its first reset_diagonals call (no attribute but _num_bases) *)
Definition blank2 : sys2 :=
  {| z_dr := 0; z_dc := 0; z_lr := 0; z_lc := 0; z_pen := mkarr 0 0 (fun _ _ => 0); z_maind := fun _ => 0 |}.

Definition einit2 (R C : nat) (es : list eff2) (q : req2) : option sys2 :=
  match exec2 R C q es frame0 blank2 with Done2 o => Some o | Raised2 _ => None end.

(* ---- histories: requests (exception caught) and the in-place uses of the penalty ---- *)
Inductive rop2 :=
  | R2Req (q : req2)
  | R2AddDiag (w : list Z)    (* add_diagonal(value): penalty.setdiag(main_diagonal + value), in place;
                                 what solve() does with the weights *)
  | R2ResetDiag.              (* reset_diagonal(): penalty.setdiag(main_diagonal) *)

Definition set_diag (p : arr) (f : Z -> Z) : arr :=
  mkarr (nr p) (nc p) (fun a b => if a =? b then f a else get p a b).

Definition add_diagonal2 (o : sys2) (w : list Z) : sys2 :=
  let L := Z.of_nat (length w) in
  if (L =? nr (z_pen o)) || (L =? 1) then
    let wf := fun k => if L =? 1 then nth 0 w 0 else nth (Z.to_nat k) w 0 in
    let md := z_maind o in
    set_pen o (set_diag (z_pen o) (fun k => md k + wf k))
  else o.

Definition rstep2 (R C : nat) (es : list eff2) (o : sys2) (op : rop2) : sys2 :=
  match op with
  | R2Req q => after2 (exec2 R C q es frame0 o)
  | R2AddDiag w => add_diagonal2 o w
  | R2ResetDiag => set_pen o (set_diag (z_pen o) (z_maind o))
  end.

Definition rrun2 (R C : nat) (es : list eff2) (o : sys2) (ops : list rop2) : sys2 :=
  fold_left (rstep2 R C es) ops o.

(* ---- the order check: membership in the list of orders the theorems are proved for ---- *)
Definition src_eqb (a b : src) : bool :=
  match a, b with FromSelf, FromSelf | FromLocal, FromLocal => true | _, _ => false end.

Definition eff2_eqb (a b : eff2) : bool :=
  match a, b with
  | XCheckOrder, XCheckOrder | XSetOrder, XSetOrder | XCheckLam, XCheckLam | XSetLam, XSetLam
  | XSetPen, XSetPen | XBands, XBands => true
  | XBuildRows s, XBuildRows t | XBuildCols s, XBuildCols t
  | XTermRows s, XTermRows t | XTermCols s, XTermCols t => src_eqb s t
  | _, _ => false
  end.

Fixpoint effs2_eqb (a b : list eff2) : bool :=
  match a, b with
  | [], [] => true
  | x :: a', y :: b' => eff2_eqb x y && effs2_eqb a' b'
  | _, _ => false
  end.

(* validate everything and build the 1-D penalties first, then assign *)
Definition order2_validate_first_a : list eff2 :=
  [XCheckOrder; XCheckLam; XBuildRows FromLocal; XBuildCols FromLocal; XSetOrder; XSetLam;
   XTermRows FromSelf; XTermCols FromSelf; XSetPen; XBands].
Definition order2_validate_first_b : list eff2 :=
  [XCheckOrder; XCheckLam; XBuildRows FromLocal; XBuildCols FromLocal; XTermRows FromLocal; XTermCols FromLocal;
   XSetOrder; XSetLam; XSetPen; XBands].

Definition accepted_orders2 : list (list eff2) :=
  [order2_4a1c1fc; order2_validate_first_a; order2_validate_first_b].

Definition effects2_ok (es : list eff2) : bool := existsb (effs2_eqb es) accepted_orders2.

(* no attribute is assigned before the last effect that can raise *)
Definition raises2 (e : eff2) : bool :=
  match e with XCheckOrder | XCheckLam | XBuildRows _ | XBuildCols _ | XOther2 => true | _ => false end.
Definition assigns2 (e : eff2) : bool :=
  match e with XSetOrder | XSetLam | XSetPen | XBands => true | _ => false end.
Fixpoint checks_first2_from (dirty : bool) (es : list eff2) : bool :=
  match es with
  | [] => true
  | e :: r => if raises2 e && dirty then false else checks_first2_from (dirty || assigns2 e) r
  end.
Definition checks_first2 (es : list eff2) : bool := checks_first2_from false es.

(* observable state for the correspondence: orders, lams, dense penalty, main_diagonal *)
Definition observe2 (o : sys2) :=
  (z_dr o, z_dc o, z_lr o, z_lc o, tab (z_pen o), map (z_maind o) (zrange 0 (nr (z_pen o)))).
