(* Proofs about C11/PSplineSys.v: a PSpline history is a PenalizedSystem history, so the history
   theorem with uses applies; geometry of the P-spline penalty (shape, num_bands, main index) from the
   CURRENT difference order. *)
From Coq Require Import ZArith List Bool Lia ZifyBool.
From PB Require Import lib.SumZ lib.PySlice lib.Arr C11.DtD C11.Table gen.GenBands C11.Banded
                       C11.History C11.Uses C11.UsesProofs C11.PSplineSys.
Import ListNotations.
Open Scope Z_scope.

Lemma urun_app hp N u a b : urun hp N u (a ++ b) = urun hp N (urun hp N u a) b.
Proof. unfold urun, urun_g. apply fold_left_app. Qed.

Lemma prun_urun hp nb deg ops : forall u,
  prun hp nb deg u ops = urun hp nb u (flat_map (pop_uops deg) ops).
Proof.
  induction ops as [|o ops IH]; intros u; [reflexivity|].
  unfold prun. cbn [fold_left flat_map]. fold (prun hp nb deg (pstep hp nb deg u o) ops).
  rewrite IH, urun_app. f_equal. destruct o; reflexivity.
Qed.

Definition pop_ok (nb : nat) (o : pop) : Prop :=
  match o with
  | PReset p => (p_d p < nb)%nat
  | PSolve => True
  | POp o' => uop_ok nb o'
  end.

Lemma pop_ok_uops nb deg ops : Forall (pop_ok nb) ops -> Forall (uop_ok nb) (flat_map (pop_uops deg) ops).
Proof.
  induction 1 as [|o ops Ho _ IH]; [constructor|]. cbn [flat_map]. apply Forall_app. split; [|exact IH].
  destruct o; cbn [pop_uops]; repeat constructor; exact Ho.
Qed.

Lemma pinit_ureset hp nb deg p u : pinit hp nb deg p = Some u ->
  (1 <= p_d p < nb)%nat /\ ureset hp nb None (pcfg_cfg deg p) = Some u.
Proof.
  unfold pinit. destruct (p_d p <? 1)%nat eqn:H1; [discriminate|].
  destruct (nb <=? p_d p)%nat eqn:H2; [discriminate|]. intros H. split; [lia|exact H].
Qed.

Lemma pinit_valid hp nb deg p : (1 <= p_d p < nb)%nat ->
  pinit hp nb deg p = ureset hp nb None (pcfg_cfg deg p).
Proof.
  intros H. unfold pinit. destruct (p_d p <? 1)%nat eqn:H1; [lia|].
  destruct (nb <=? p_d p)%nat eqn:H2; [lia|reflexivity].
Qed.

(* C11_pspline_history: a PSpline built with any settings, after ANY history of
   reset_penalty_diagonals (changing order / lam / layout), solves, inherited reconfigurations and
   uses, and then reset to settings p, is the PSpline constructed directly with p *)
Theorem pspline_history (hp : bool) (nb : nat) (deg : Z) (p0 : pcfg) (ops : list pop) (p : pcfg) (u0 : usys) :
  Forall (pop_ok nb) ops -> (1 <= p_d p < nb)%nat ->
  pinit hp nb deg p0 = Some u0 ->
  match ureset hp nb (Some (prun hp nb deg u0 ops)) (pcfg_cfg deg p), pinit hp nb deg p with
  | Some u1, Some u2 => usys_eq u1 u2 /\ UInv nb u1
  | None, None => True
  | _, _ => False
  end.
Proof.
  intros Hops Hp H0. destruct (pinit_ureset hp nb deg p0 u0 H0) as [Hd0 Hu0].
  rewrite (pinit_valid hp nb deg p Hp), prun_urun.
  apply (history_with_uses hp nb (pcfg_cfg deg p0) (flat_map (pop_uops deg) ops) (pcfg_cfg deg p) u0).
  - cbn [pcfg_cfg c_d]. lia.
  - apply pop_ok_uops, Hops.
  - cbn [pcfg_cfg c_d]. lia.
  - exact Hu0.
Qed.

(* ---- geometry ---- *)
Lemma want_lower_pcfg hp deg p : want_lower hp (pcfg_cfg deg p) = p_allow_lower p.
Proof. unfold want_lower, want_penta, pcfg_cfg. cbn [c_allow_penta c_allow_lower andb negb]. apply andb_true_r. Qed.

Lemma want_penta_pcfg hp deg p : want_penta hp (pcfg_cfg deg p) = false.
Proof. reflexivity. Qed.

(* C11_pspline_shape: a freshly constructed PSpline never uses pentapy, is lower exactly when
   allow_lower, and its penalty has max(diff_order, spline_degree) bands below the main diagonal:
   shape (B + 1, nb) resp. (2 B + 1, nb), num_bands = B, main_diagonal_index = 0 resp. B *)
Theorem pspline_shape (hp : bool) (nb : nat) (deg : Z) (p : pcfg) (u : usys) :
  pinit hp nb deg p = Some u ->
  let s := u_sys u in
  let B := pspline_bands deg (p_d p) in
  s_d s = p_d p /\ s_penta s = false /\ s_lower s = p_allow_lower p /\
  nr (s_pen s) = (if p_allow_lower p then B + 1 else 2 * B + 1) /\ nc (s_pen s) = Z.of_nat nb /\
  s_num_bands s = B /\ s_main s = (if p_allow_lower p then 0 else B).
Proof.
  intros H. destruct (pinit_ureset hp nb deg p u H) as [Hd Hu].
  assert (HI : UInv nb u) by (apply (ureset_fresh_inv hp nb (pcfg_cfg deg p) u); [cbn [pcfg_cfg c_d]; lia|exact Hu]).
  unfold ureset, ureset_g in Hu. cbn [option_map] in Hu.
  destruct (reset hp nb None (pcfg_cfg deg p)) as [s|] eqn:R; [|discriminate]. injection Hu as <-.
  cbn [u_sys] in *. cbv zeta.
  destruct HI as [(_ & (Hr & Hc & _)) _]. cbn [u_sys] in Hr, Hc.
  pose proof (reset_is_finish hp nb None (pcfg_cfg deg p) s R) as Hs.
  rewrite want_lower_pcfg, want_penta_pcfg in Hs. cbn [pcfg_cfg c_d c_lam c_pad] in Hs.
  assert (Hlow : s_lower s = p_allow_lower p) by (rewrite Hs; reflexivity).
  assert (Hds : s_d s = p_d p) by (rewrite Hs; reflexivity).
  rewrite layout_rows in Hr. rewrite Hlow, Hds in Hr.
  assert (Hc' : nc (s_orig s) = Z.of_nat nb)
    by (rewrite Hc; unfold layout, maybe_rev, spec_bands; destruct (s_rev s); reflexivity).
  set (o := s_orig s) in *. clearbody o.
  rewrite Hs. unfold finish. cbn [s_d s_penta s_lower s_pen s_num_bands s_main scale nr nc].
  unfold pspline_bands, pad_diagonals.
  destruct (p_allow_lower p) eqn:Hal; destruct (0 <? deg - Z.of_nat (p_d p)) eqn:Hpad; cbn [nr nc];
    repeat split; try reflexivity; try assumption; try lia.
  - symmetry; apply (Z.div_unique (nr o + 2 * (deg - Z.of_nat (p_d p))) 2 (Z.max (Z.of_nat (p_d p)) deg) 1); lia.
  - rewrite (Z.div_unique (nr o + 2 * (deg - Z.of_nat (p_d p))) 2 (Z.max (Z.of_nat (p_d p)) deg) 1) by lia. reflexivity.
  - symmetry; apply (Z.div_unique (nr o) 2 (Z.max (Z.of_nat (p_d p)) deg) 1); lia.
  - rewrite (Z.div_unique (nr o) 2 (Z.max (Z.of_nat (p_d p)) deg) 1) by lia. reflexivity.
Qed.

(* ... and so has the PSpline after any history followed by reset_penalty_diagonals(p): the padding
   follows the CURRENT difference order, whatever the orders used before *)
Theorem pspline_shape_after_history (hp : bool) (nb : nat) (deg : Z) (p0 : pcfg) (ops : list pop) (p : pcfg) (u0 : usys) :
  Forall (pop_ok nb) ops -> (1 <= p_d p < nb)%nat -> 0 < p_lam p ->
  pinit hp nb deg p0 = Some u0 ->
  exists u1, ureset hp nb (Some (prun hp nb deg u0 ops)) (pcfg_cfg deg p) = Some u1 /\
    let s := u_sys u1 in
    let B := pspline_bands deg (p_d p) in
    s_d s = p_d p /\ s_penta s = false /\ s_lower s = p_allow_lower p /\
    nr (s_pen s) = (if p_allow_lower p then B + 1 else 2 * B + 1) /\ nc (s_pen s) = Z.of_nat nb /\
    s_num_bands s = B /\ s_main s = (if p_allow_lower p then 0 else B).
Proof.
  intros Hops Hp Hlam H0. pose proof (pspline_history hp nb deg p0 ops p u0 Hops Hp H0) as H.
  destruct (ureset hp nb (Some (prun hp nb deg u0 ops)) (pcfg_cfg deg p)) as [u1|];
    destruct (pinit hp nb deg p) as [u2|] eqn:E2; try tauto.
  - exists u1. split; [reflexivity|].
    destruct H as [((E1 & E3 & E4 & E5 & _ & (P1 & P2 & _) & _ & E8 & E9) & _) _].
    pose proof (pspline_shape hp nb deg p u2 E2) as S. cbv zeta in S |- *.
    destruct S as (S1 & S2 & S3 & S4 & S5 & S6 & S7).
    rewrite E1, E5, E3, P1, P2, E8, E9. repeat split; assumption.
  - exfalso. rewrite (pinit_valid hp nb deg p Hp) in E2.
    unfold ureset, ureset_g in E2. cbn [option_map] in E2.
    destruct (reset hp nb None (pcfg_cfg deg p)) eqn:R; [discriminate|].
    unfold reset in R.
    destruct (fresh_layout nb (c_d (pcfg_cfg deg p)) (want_lower hp (pcfg_cfg deg p)) (want_rev hp (pcfg_cfg deg p))
                           ltac:(cbn [pcfg_cfg c_d]; lia)) as (a & Ha & _).
    rewrite Ha in R. cbn [pcfg_cfg c_lam] in R. destruct (0 <? p_lam p) eqn:?; [discriminate|lia].
Qed.
