(* Where methods build, reset, rescale or re-bind a penalty OUTSIDE the penalized-system classes: the
   classification emitted by tools/gen_penalty_sites.py (gen/GenPenaltySites.v) and its check. *)
From Coq Require Import ZArith List Bool String.
From PB Require Import lib.Arr.
Import ListNotations.
Open Scope Z_scope.

Inductive site_class :=
  | PassesOrder            (* the enclosing function's diff_order is handed on *)
  | FixedOrder (k : Z)     (* an integer literal (first-derivative penalties ...) *)
  | NoPenalty              (* _setup_spline(..., penalized=False) *)
  | DefaultOrder           (* omitted, and the enclosing function has no diff_order *)
  | RescaleOnly            (* x.penalty = factor * x.penalty / update_lam: the order cannot change *)
  | OmitsOrder             (* omitted although the enclosing function has a diff_order *)
  | OtherSite.             (* anything else *)

Definition site_ok (c : site_class) : bool :=
  match c with OmitsOrder | OtherSite => false | _ => true end.

Definition sites_ok (l : list (string * string * site_class)) : bool := forallb (fun s => site_ok (snd s)) l.

Lemma sites_ok_sound l : sites_ok l = true ->
  forall w x c, In (w, x, c) l -> c <> OmitsOrder /\ c <> OtherSite.
Proof.
  unfold sites_ok. rewrite forallb_forall. intros H w x c Hin. specialize (H _ Hin). cbn in H.
  destruct c; try discriminate; split; discriminate.
Qed.

(* a pure rescale of a penalty lam0 * P by k is (k * lam0) * P: the same bands of the same order *)
Lemma rescale_same_order (k lam0 : Z) (P : arr) : aeq (scale k (scale lam0 P)) (scale (k * lam0) P).
Proof.
  unfold aeq, scale. cbn [nr nc get]. repeat split; try reflexivity. intros r c _ _. ring.
Qed.
