(* PenalizedSystem with its USES: the state machine of C11/Banded.v (reset_diagonals,
   reverse_penalty) extended by every way the code writes self.penalty (add_diagonal, add_penalty, an
   in-place overwrite of the penalty array by a solver, re-binding the attribute), with the IDENTITY
   of the memory buffers behind `penalty` and `original_diagonals` tracked explicitly.
   Models only; the proofs are in C11/UsesProofs.v.  The old state [sys] and the old [reset] /
   [reverse_penalty] of C11/Banded.v are re-used unchanged (wrapped in [usys]). *)
From Coq Require Import ZArith List Bool Lia ZifyBool.
From PB Require Import lib.SumZ lib.PySlice lib.Arr C11.DtD C11.Table gen.GenBands C11.Banded.
Import ListNotations.
Open Scope Z_scope.

(* list-of-rows literal -> array (for operation arguments and the correspondence) *)
Definition of_rows (l : list (list Z)) : arr :=
  mkarr (Z.of_nat (length l)) (Z.of_nat (length (hd [] l)))
        (fun r c => nth (Z.to_nat c) (nth (Z.to_nat r) l []) 0).

(* _add_diagonals(array_1, array_2, lower_only) on 2-D inputs; None = ValueError *)
Definition add_arr (a b : arr) : arr := mkarr (nr a) (nc a) (fun r c => get a r c + get b r c).
Definition pad_rows (a : arr) (top bottom : Z) : arr :=
  mkarr (top + nr a + bottom) (nc a)
        (fun r c => if (top <=? r) && (r <? top + nr a) then get a (r - top) c else 0).
Definition add_diagonals (a b : arr) (lower_only : bool) : option arr :=
  if negb (nc a =? nc b) then None
  else
    let mm := nr a - nr b in
    if mm =? 0 then Some (add_arr a b)
    else
      let am := Z.abs mm in
      if lower_only then
        (if 0 <? mm then Some (add_arr a (pad_rows b 0 am)) else Some (add_arr (pad_rows a 0 am) b))
      else if Z.odd am then None
      else
        let h := am / 2 in
        if 0 <? mm then Some (add_arr a (pad_rows b h h)) else Some (add_arr (pad_rows a h h) b).

Definition set_row (a : arr) (i : Z) (f : Z -> Z) : arr :=
  mkarr (nr a) (nc a) (fun r c => if r =? i then f c else get a r c).

(* The two array attributes are modelled as CONTENT (inside [u_sys]) plus the IDENTITY of the memory
   buffer the attribute refers to: [u_obuf] / [u_pbuf] are buffer ids of original_diagonals /
   penalty, [u_next] is the next unused id.  A NumPy operation that allocates
   (diff_penalty_diagonals, np.concatenate, _lower_to_full, every binary operation such as lam * a
   or a + b, .copy()) takes a fresh id; a view (a[::-1], a[k:]) or returning the argument itself
   (_pad_diagonals with padding <= 0) keeps the id.  penalty and original_diagonals share memory iff
   the ids are equal; an in-place write through penalty is then also a write into
   original_diagonals (see [write_pen]).
   [u_maind] is main_diagonal (a .copy() of the main-diagonal row made by _update_bands). *)
Record usys := { u_sys : sys; u_maind : Z -> Z; u_obuf : Z; u_pbuf : Z; u_next : Z }.

Definition aliased (u : usys) : bool := u_pbuf u =? u_obuf u.

Definition with_pen (s : sys) (orig pen : arr) : sys :=
  {| s_d := s_d s; s_lower := s_lower s; s_rev := s_rev s; s_penta := s_penta s;
     s_orig := orig; s_pen := pen; s_lam := s_lam s;
     s_num_bands := s_num_bands s; s_main := s_main s |}.

Definition with_bands (s : sys) (nb mi : Z) : sys :=
  {| s_d := s_d s; s_lower := s_lower s; s_rev := s_rev s; s_penta := s_penta s;
     s_orig := s_orig s; s_pen := s_pen s; s_lam := s_lam s;
     s_num_bands := nb; s_main := mi |}.

(* reset_diagonals on top of C11/Banded.reset (which computes the contents and the flags); here the
   buffers:  the stored diagonals are a new array when they are rebuilt by diff_penalty_diagonals
   (first call or another diff_order) or converted by _lower_to_full, otherwise a view of the old
   buffer;  the tail
       self.penalty = self.lam * _pad_diagonals(self.original_diagonals, padding, self.lower)
       self._update_bands()
   allocates in np.concatenate when padding > 0 and ALWAYS in the multiplication by lam.
   [elide lam] = true would mean "the multiplication by lam is skipped for this lam" (then penalty is
   whatever _pad_diagonals returned: for padding <= 0 the original_diagonals object itself; used
   only for lam = 1, where the contents are the same).  The code multiplies always:
   [ureset] below is [ureset_g no_elision]. *)
Definition ureset_g (elide : Z -> bool) (has_penta : bool) (N : nat) (prev : option usys) (c : cfg)
  : option usys :=
  match reset has_penta N (option_map u_sys prev) c with
  | None => None
  | Some s' =>
      let next0 := match prev with Some u => u_next u | None => 0 end in
      let rebuilt :=
        match prev with
        | None => true
        | Some u => negb (Nat.eqb (s_d (u_sys u)) (c_d c))
                    || (s_lower (u_sys u) && negb (want_lower has_penta c))
        end in
      let obuf := match prev with
                  | Some u => if rebuilt then next0 else u_obuf u
                  | None => next0
                  end in
      let next := if rebuilt then next0 + 1 else next0 in
      let padbuf := if 0 <? c_pad c then next else obuf in
      let next1 := if 0 <? c_pad c then next + 1 else next in
      let pbuf := if elide (c_lam c) then padbuf else next1 in
      let next2 := if elide (c_lam c) then next1 else next1 + 1 in
      let pen := s_pen s' in
      let mi := s_main s' in
      Some {| u_sys := s'; u_maind := fun col => get pen mi col;
              u_obuf := obuf; u_pbuf := pbuf; u_next := next2 |}
  end.

Definition no_elision (_ : Z) : bool := false.
Definition elide_one (lam : Z) : bool := lam =? 1.
Definition ureset := ureset_g no_elision.

(* Operations on a system: the two reconfigurations, and every way the code writes self.penalty:
   add_diagonal (in place), add_penalty (re-binds to a new array + _update_bands), an in-place
   overwrite of the array that add_diagonal returned (solve(..., overwrite_ab=True) hands it to
   LAPACK, which stores the factorisation in it), and re-binding the attribute (mpspline). *)
Inductive uop :=
  | UReset (c : cfg)
  | UReverse
  | AddDiag (w : list Z)
  | AddPen (p : list (list Z))
  | Clobber (v : list (list Z))
  | SetPen (v : list (list Z)).

(* reverse_penalty: [::-1] are views (same buffers); main_diagonal / num_bands are not touched *)
Definition ureverse (u : usys) : usys :=
  {| u_sys := reverse_penalty (u_sys u); u_maind := u_maind u;
     u_obuf := u_obuf u; u_pbuf := u_pbuf u; u_next := u_next u |}.

(* an in-place write through self.penalty: the new content is seen through every attribute that
   refers to the same buffer *)
Definition write_pen (u : usys) (p : arr) : usys :=
  {| u_sys := with_pen (u_sys u) (if aliased u then p else s_orig (u_sys u)) p;
     u_maind := u_maind u; u_obuf := u_obuf u; u_pbuf := u_pbuf u; u_next := u_next u |}.

(* self.penalty = <newly allocated array> *)
Definition bind_pen (u : usys) (p : arr) : usys :=
  {| u_sys := with_pen (u_sys u) (s_orig (u_sys u)) p;
     u_maind := u_maind u; u_obuf := u_obuf u; u_pbuf := u_next u; u_next := u_next u + 1 |}.

(* _update_bands *)
Definition update_bands (u : usys) : usys :=
  let s := u_sys u in
  let nb := if s_lower s then nr (s_pen s) - 1 else nr (s_pen s) / 2 in
  let mi := if s_lower s then 0 else nb in
  let p := s_pen s in
  {| u_sys := with_bands s nb mi; u_maind := fun col => get p mi col;
     u_obuf := u_obuf u; u_pbuf := u_pbuf u; u_next := u_next u |}.

(* add_diagonal(value): self.penalty[self.main_diagonal_index] = self.main_diagonal + value, with
   NumPy broadcasting of a length-1 value; any other length mismatch raises before the store *)
Definition add_diagonal (u : usys) (w : list Z) : usys :=
  let s := u_sys u in
  let L := Z.of_nat (length w) in
  if (L =? nc (s_pen s)) || (L =? 1) then
    let wf := fun col => if L =? 1 then nth 0 w 0 else nth (Z.to_nat col) w 0 in
    let md := u_maind u in
    write_pen u (set_row (s_pen s) (s_main s) (fun col => md col + wf col))
  else u.

(* add_penalty(penalty): raises (state unchanged) when _add_diagonals raises *)
Definition add_penalty (u : usys) (p : arr) : usys :=
  match add_diagonals (s_pen (u_sys u)) p (s_lower (u_sys u)) with
  | Some q => update_bands (bind_pen u q)
  | None => u
  end.

(* self.penalty[...] = v  with v of the same shape (what an overwriting solver does) *)
Definition clobber (u : usys) (v : arr) : usys :=
  if (nr v =? nr (s_pen (u_sys u))) && (nc v =? nc (s_pen (u_sys u))) then write_pen u v else u.

Definition ustep_g (elide : Z -> bool) (has_penta : bool) (N : nat) (u : usys) (o : uop) : usys :=
  match o with
  | UReset c => match ureset_g elide has_penta N (Some u) c with Some u' => u' | None => u end
  | UReverse => ureverse u
  | AddDiag w => add_diagonal u w
  | AddPen p => add_penalty u (of_rows p)
  | Clobber v => clobber u (of_rows v)
  | SetPen v => bind_pen u (of_rows v)
  end.

Definition urun_g (elide : Z -> bool) (has_penta : bool) (N : nat) (u : usys) (ops : list uop) : usys :=
  fold_left (ustep_g elide has_penta N) ops u.

Definition ustep := ustep_g no_elision.
Definition urun := urun_g no_elision.

(* observable state, for the correspondence check *)
Definition uobserve (u : usys) :=
  let s := u_sys u in
  (Z.of_nat (s_d s), s_lower s, s_rev s, s_penta s, s_num_bands s, s_main s,
   tab (s_orig s), tab (s_pen s), map (u_maind u) (zrange 0 (nc (s_pen s))), aliased u).
