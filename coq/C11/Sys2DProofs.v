(* Proofs about C11/Sys2D.v: the 1-D penalty matrix behind the 2-D systems is D'D (from the exactness of
   the band tables), the 2-D penalty is lam_r * (D_r'D_r (x) I) + lam_c * (I (x) D_c'D_c), and for every
   accepted order of effects an accepted reset is a function of the REQUEST ALONE -- so any history of
   resets (one-axis changes, lam-only changes, rejected requests, in-place uses) followed by an accepted
   request equals the directly built system. *)
From Coq Require Import ZArith List Bool Lia ZifyBool.
From PB Require Import lib.SumZ lib.PySlice lib.Arr C11.DtD C11.Table gen.GenBands C11.Banded C11.History C11.Sys2D.
Import ListNotations.
Open Scope Z_scope.

(* ---- the 1-D matrix ---- *)
Theorem pen1_exact (N d : nat) : (d < N)%nat ->
  exists P, pen1 N d = Some P /\ forall i j, 0 <= i < Z.of_nat N -> 0 <= j < Z.of_nat N -> P i j = DtD d N i j.
Proof.
  intros H. unfold pen1. replace (N <=? d)%nat with false by (symmetry; apply Nat.leb_gt; exact H).
  destruct (dpd_core_exact N d false H) as (a & Ha & (Hr & Hc & Hg)). rewrite Ha.
  eexists. split; [reflexivity|]. intros i j Hi Hj. cbv zeta.
  unfold spec_bands in Hr, Hc, Hg. cbn [nr nc get] in Hr, Hc, Hg. rewrite Hr.
  destruct ((0 <=? i - j + Z.of_nat d) && (i - j + Z.of_nat d <? 2 * Z.of_nat d + 1)) eqn:Hb.
  - rewrite Hg by lia. unfold band_spec, band_r.
    replace (j + (i - j + Z.of_nat d - Z.of_nat d)) with i by lia.
    replace ((0 <=? i) && (i <? Z.of_nat N)) with true by lia. reflexivity.
  - symmetry. apply DtD_band. lia.
Qed.

Lemma pen1_rejects (N d : nat) : (N <= d)%nat -> pen1 N d = None.
Proof. intros H. unfold pen1. replace (N <=? d)%nat with true by (symmetry; apply Nat.leb_le; exact H). reflexivity. Qed.

(* ---- orders ---- *)
Lemma src_eqb_eq a b : src_eqb a b = true -> a = b.
Proof. destruct a, b; cbn; congruence. Qed.

Lemma eff2_eqb_eq a b : eff2_eqb a b = true -> a = b.
Proof. destruct a, b; cbn; try congruence; intros H; f_equal; apply src_eqb_eq, H. Qed.

Lemma effs2_eqb_eq a : forall b, effs2_eqb a b = true -> a = b.
Proof.
  induction a as [|x a IH]; intros [|y b]; cbn; try congruence.
  intros H. apply andb_true_iff in H as [H1 H2]. f_equal; [apply eff2_eqb_eq, H1|apply IH, H2].
Qed.

Lemma effects2_ok_cases es : effects2_ok es = true ->
  es = order2_4a1c1fc \/ es = order2_validate_first_a \/ es = order2_validate_first_b.
Proof.
  unfold effects2_ok, accepted_orders2. cbn [existsb]. rewrite !orb_true_iff.
  intros [H|[H|[H|H]]]; try discriminate; apply effs2_eqb_eq in H; tauto.
Qed.

(* what a rejected request may leave: the penalty and main_diagonal are the old ones *)
Definition pen_kept2 (o o' : sys2) : Prop := z_pen o' = z_pen o /\ z_maind o' = z_maind o.

(* ---- one request ---- *)
Ltac split_req :=
  repeat match goal with
         | |- context [match check_pos ?x with _ => _ end] => destruct (check_pos x) as [[? ?]|]
         | |- context [match pen1 ?n ?d with _ => _ end] => destruct (pen1 n d)
         end.

(* C11_reset2d_is_function_of_request: an accepted request gives the directly built system WHATEVER the
   object was; a rejected one keeps penalty and main_diagonal, and leaves the whole object as it was
   when the order validates before it assigns *)
Theorem exec2_spec R C q es o : effects2_ok es = true ->
  match fresh2 R C q with
  | Some s => exec2 R C q es frame0 o = Done2 s
  | None => exists o', exec2 R C q es frame0 o = Raised2 o' /\ pen_kept2 o o' /\
                       (checks_first2 es = true -> o' = o)
  end.
Proof.
  intros H. destruct (effects2_ok_cases es H) as [-> | [-> | ->]]; unfold fresh2, pen_kept2;
    cbn [exec2 order2_4a1c1fc order2_validate_first_a order2_validate_first_b frame0
         f_d f_lam f_pr f_pc f_tr f_tc read_d read_lam set_order set_lam2 set_pen update_bands2
         z_dr z_dc z_lr z_lc z_pen z_maind fst snd];
    split_req;
    cbn [exec2 f_d f_lam f_pr f_pc f_tr f_tc read_d read_lam set_order set_lam2 set_pen update_bands2
         z_dr z_dc z_lr z_lc z_pen z_maind fst snd];
    split_req;
    try reflexivity;
    try (eexists; split; [reflexivity|]; split; [split; reflexivity|];
         first [ intros _; reflexivity | intros Hc; vm_compute in Hc; discriminate Hc ]).
Qed.

Corollary exec2_accepted R C q es o s : effects2_ok es = true -> fresh2 R C q = Some s ->
  exec2 R C q es frame0 o = Done2 s.
Proof. intros H E. pose proof (exec2_spec R C q es o H) as X. rewrite E in X. exact X. Qed.

Corollary exec2_rejected R C q es o : effects2_ok es = true -> fresh2 R C q = None ->
  exists o', exec2 R C q es frame0 o = Raised2 o' /\ pen_kept2 o o' /\ (checks_first2 es = true -> o' = o).
Proof. intros H E. pose proof (exec2_spec R C q es o H) as X. rewrite E in X. exact X. Qed.

(* the constructor *)
Corollary einit2_is_fresh R C q es : effects2_ok es = true -> einit2 R C es q = fresh2 R C q.
Proof.
  intros H. unfold einit2. destruct (fresh2 R C q) as [s|] eqn:E.
  - rewrite (exec2_accepted R C q es blank2 s H E). reflexivity.
  - destruct (exec2_rejected R C q es blank2 H E) as (o' & -> & _). reflexivity.
Qed.

(* ---- histories ---- *)
(* C11_history2d: after ANY history (accepted and rejected requests with per-axis order / lam changes,
   in-place uses of the penalty) a request that the directly built system accepts gives exactly the
   directly built system *)
Theorem history2 R C es o0 ops q s : effects2_ok es = true -> fresh2 R C q = Some s ->
  exec2 R C q es frame0 (rrun2 R C es o0 ops) = Done2 s.
Proof. intros H E. apply exec2_accepted; assumption. Qed.

(* the last accepted request of a sequence *)
Definition last_ok2 (R C : nat) (s0 : sys2) (qs : list req2) : sys2 :=
  fold_left (fun acc q => match fresh2 R C q with Some s => s | None => acc end) qs s0.

Lemma requests_history2_gen R C es qs : effects2_ok es = true ->
  forall o o2, pen_kept2 o2 o ->
    pen_kept2 (last_ok2 R C o2 qs) (rrun2 R C es o (map R2Req qs)) /\
    (checks_first2 es = true -> o = o2 -> rrun2 R C es o (map R2Req qs) = last_ok2 R C o2 qs).
Proof.
  intros H. induction qs as [|q qs IH]; intros o o2 K.
  - split; [exact K|intros _ E; exact E].
  - unfold rrun2, last_ok2. cbn [map fold_left rstep2].
    fold (rrun2 R C es (after2 (exec2 R C q es frame0 o)) (map R2Req qs)).
    fold (last_ok2 R C (match fresh2 R C q with Some s => s | None => o2 end) qs).
    destruct (fresh2 R C q) as [s|] eqn:E.
    + rewrite (exec2_accepted R C q es o s H E). cbn [after2].
      destruct (IH s s (conj eq_refl eq_refl)) as [A B]. split; [exact A|intros Hc _; exact (B Hc eq_refl)].
    + destruct (exec2_rejected R C q es o H E) as (o' & -> & (K1 & K2) & Hn). cbn [after2].
      destruct K as [K3 K4].
      destruct (IH o' o2 (conj (eq_trans K1 K3) (eq_trans K2 K4))) as [A B].
      split; [exact A|]. intros Hc Eo. apply (B Hc). rewrite (Hn Hc). exact Eo.
Qed.

(* C11_requests_history2d: after ANY sequence of requests, each accepted or rejected, the penalty and
   main_diagonal are those of the system built directly with the LAST ACCEPTED request; when the order
   validates before it assigns, the whole object is *)
Theorem requests_history2 R C es q0 qs s0 : effects2_ok es = true -> einit2 R C es q0 = Some s0 ->
  pen_kept2 (last_ok2 R C s0 qs) (rrun2 R C es s0 (map R2Req qs)) /\
  (checks_first2 es = true -> rrun2 R C es s0 (map R2Req qs) = last_ok2 R C s0 qs).
Proof.
  intros H _. destruct (requests_history2_gen R C es qs H s0 s0 (conj eq_refl eq_refl)) as [A B].
  split; [exact A|intros Hc; exact (B Hc eq_refl)].
Qed.

(* ---- the penalty of the directly built system ---- *)
Lemma flat_div (c i j : Z) : 0 <= j < c -> (i * c + j) / c = i.
Proof. intros H. symmetry. apply (Z.div_unique (i * c + j) c i j); lia. Qed.

Lemma flat_mod (c i j : Z) : 0 <= j < c -> (i * c + j) mod c = j.
Proof. intros H. symmetry. apply (Z.mod_unique (i * c + j) c i j); lia. Qed.

(* C11_penalty2d_is_kron_DtD *)
Theorem fresh2_penalty R C q s : fresh2 R C q = Some s ->
  exists dr dc lr lc,
    check_pos (r_d q) = Some (dr, dc) /\ check_pos (r_lam q) = Some (lr, lc) /\
    z_dr s = dr /\ z_dc s = dc /\ z_lr s = lr /\ z_lc s = lc /\
    (Z.to_nat dr < R)%nat /\ (Z.to_nat dc < C)%nat /\
    nr (z_pen s) = Z.of_nat R * Z.of_nat C /\ nc (z_pen s) = Z.of_nat R * Z.of_nat C /\
    (forall i1 j1 i2 j2, 0 <= i1 < Z.of_nat R -> 0 <= i2 < Z.of_nat R -> 0 <= j1 < Z.of_nat C -> 0 <= j2 < Z.of_nat C ->
       get (z_pen s) (i1 * Z.of_nat C + j1) (i2 * Z.of_nat C + j2)
       = lr * DtD (Z.to_nat dr) R i1 i2 * delta j1 j2 + delta i1 i2 * (lc * DtD (Z.to_nat dc) C j1 j2)) /\
    (forall k, z_maind s k = get (z_pen s) k k).
Proof.
  unfold fresh2. destruct (check_pos (r_d q)) as [[dr dc]|]; [|discriminate].
  destruct (check_pos (r_lam q)) as [[lr lc]|]; [|discriminate]. cbn [fst snd].
  destruct (le_lt_dec R (Z.to_nat dr)) as [Hr|Hr]; [rewrite (pen1_rejects _ _ Hr); discriminate|].
  destruct (le_lt_dec C (Z.to_nat dc)) as [Hc|Hc].
  { rewrite (pen1_rejects _ _ Hc). destruct (pen1 R (Z.to_nat dr)); discriminate. }
  destruct (pen1_exact R (Z.to_nat dr) Hr) as (Pr & -> & HPr).
  destruct (pen1_exact C (Z.to_nat dc) Hc) as (Pc & -> & HPc).
  intros [= <-]. exists dr, dc, lr, lc. cbn [z_dr z_dc z_lr z_lc z_pen z_maind].
  repeat (split; [first [reflexivity | assumption]|]). split; [|intros k; reflexivity].
  intros i1 j1 i2 j2 Hi1 Hi2 Hj1 Hj2.
  unfold add2, term_rows, term_cols. cbn [get nr nc].
  rewrite !flat_div, !flat_mod by lia. rewrite HPr, HPc by lia. ring.
Qed.

(* ---- the strong no-op statement is false for the order of /repo 4a1c1fc ---- *)
Definition ex2_q0 : req2 := {| r_lam := [1]; r_d := [2] |}.
Definition ex2_bad : req2 := {| r_lam := [-1]; r_d := [3] |}.
Definition ex2_bad2 : req2 := {| r_lam := [2]; r_d := [2; 6] |}.

Lemma strong_noop2_refuted :
  match fresh2 5 6 ex2_q0 with
  | Some s0 =>
      fresh2 5 6 ex2_bad = None /\ fresh2 5 6 ex2_bad2 = None /\
      z_dr (after2 (exec2 5 6 ex2_bad order2_4a1c1fc frame0 s0)) = 3 /\
      z_dc (after2 (exec2 5 6 ex2_bad2 order2_4a1c1fc frame0 s0)) = 6 /\
      z_lr (after2 (exec2 5 6 ex2_bad2 order2_4a1c1fc frame0 s0)) = 2 /\ z_dr s0 = 2 /\ z_lr s0 = 1
  | None => False
  end.
Proof. vm_compute. repeat split. Qed.
