(* Proofs about the banded model: exactness of diff_penalty_diagonals for every size,
   layout conversions, and the reconfiguration-history theorem. *)
From Coq Require Import ZArith List Bool Lia ZifyBool.
From PB Require Import lib.SumZ lib.PySlice lib.Arr C11.DtD C11.Table gen.GenBands C11.Banded.
Import ListNotations.
Open Scope Z_scope.

(* ---- the generated tables pass the reflective check ---- *)
Lemma tables_checked : forallb (fun kt => (fst kt =? Z.of_nat (t_order (snd kt))) && check (snd kt)) disp_tables = true.
Proof. vm_compute. reflexivity. Qed.

Lemma lookup_In d t l : lookup d l = Some t -> In (d, t) l.
Proof.
  induction l as [|[k t'] l IH]; cbn [lookup]; [discriminate|].
  destruct (k =? d) eqn:Hk; intros Hl.
  - injection Hl as <-. left. f_equal. lia.
  - right. apply IH; assumption.
Qed.

Lemma lookup_checked d t :
  lookup d disp_tables = Some t -> d = Z.of_nat (t_order t) /\ check t = true.
Proof.
  pose proof tables_checked as H. rewrite forallb_forall in H.
  intros Hl. apply lookup_In in Hl.
  specialize (H _ Hl). cbn [fst snd] in H. apply andb_true_iff in H as [H1 H2]. split; [lia|exact H2].
Qed.

(* identity for d = 0 *)
Lemma DtD_0 N i j : 0 <= j < Z.of_nat N -> DtD 0 N i j = if i =? j then 1 else 0.
Proof.
  intros Hj. unfold DtD. cbn [Dm]. replace (N - 0)%nat with N by lia.
  rewrite (sumZ_ext N _ (fun k => if k =? j then (if j =? i then 1 else 0) else 0)).
  - rewrite sumZ_point. destruct (0 <=? j) eqn:?, (j <? Z.of_nat N) eqn:?, (j =? i) eqn:?, (i =? j) eqn:?;
      cbn [andb]; try lia.
  - intros k Hk. destruct (k =? i) eqn:?, (k =? j) eqn:?, (j =? i) eqn:?; lia.
Qed.

(* C11_dispatch: what diff_penalty_diagonals routes to a hard-coded table meets the
   side conditions of check_sound, and nothing accepted falls through to a KeyError *)
Lemma dispatch_table (N d : nat) :
  disp_rejects (Z.of_nat N) (Z.of_nat d) = false ->
  disp_identity (Z.of_nat N) (Z.of_nat d) = false ->
  disp_general (Z.of_nat N) (Z.of_nat d) = false ->
  exists t, lookup (Z.of_nat d) disp_tables = Some t /\ t_order t = d /\ (2 * d + 1 <= N)%nat.
Proof.
  unfold disp_rejects, disp_identity, disp_general. intros H1 H2 H3.
  assert (Hd : (d = 1 \/ d = 2 \/ d = 3)%nat) by lia.
  assert (HN : (2 * d + 1 <= N)%nat) by lia.
  destruct Hd as [Hd | [Hd | Hd]]; subst d; eexists; (split; [vm_compute; reflexivity|split; [reflexivity|exact HN]]).
Qed.

Theorem dpd_core_exact (N d : nat) (lower : bool) :
  (d < N)%nat -> exists a, dpd_core N d lower = DpdOk a /\ aeq a (spec_bands d N lower).
Proof.
  intros HdN. unfold dpd_core.
  destruct (disp_rejects (Z.of_nat N) (Z.of_nat d)) eqn:Hrej.
  { unfold disp_rejects in Hrej. lia. }
  destruct (disp_identity (Z.of_nat N) (Z.of_nat d)) eqn:Hid.
  { assert (d = 0%nat) as -> by (unfold disp_identity in Hid; lia).
    eexists; split; [reflexivity|]. unfold spec_bands, aeq; cbn [nr nc get].
    destruct lower; (split; [reflexivity|split; [reflexivity|]]); intros r c0 Hr Hc;
      unfold band_spec, band_r; cbn [Z.of_nat];
      assert (r = 0) as -> by lia; rewrite ?Z.sub_0_r, Z.add_0_r;
      destruct (0 <=? c0) eqn:?, (c0 <? Z.of_nat N) eqn:?; cbn [andb]; try lia;
      rewrite DtD_0 by lia; rewrite Z.eqb_refl; reflexivity. }
  destruct (disp_general (Z.of_nat N) (Z.of_nat d)) eqn:Hgen.
  { eexists; split; [reflexivity|apply aeq_refl]. }
  destruct (dispatch_table N d Hrej Hid Hgen) as (t & Hl & Ht & HN).
  rewrite Hl. eexists; split; [reflexivity|].
  destruct (lookup_checked _ _ Hl) as [_ Hc].
  pose proof Hc as Hrows. unfold check in Hrows. apply andb_true_iff in Hrows as [Hrows _].
  unfold rows_ok in Hrows.
  apply andb_true_iff in Hrows as [Hrows _]. apply andb_true_iff in Hrows as [Hrows _].
  apply andb_true_iff in Hrows as [Hrows _]. apply andb_true_iff in Hrows as [Hrl Hrf].
  unfold table_arr, spec_bands, aeq; cbn [nr nc get]. subst d.
  split; [unfold t_rows; destruct lower; lia|]. split; [reflexivity|].
  intros r c0 Hr Hc0. apply check_sound; try assumption; lia.
Qed.

(* ---- layout conversions preserve the denotation ---- *)
Lemma band_spec_full_lower d N rho j :
  Z.of_nat d <= rho -> band_spec d N false rho j = band_spec d N true (rho - Z.of_nat d) j.
Proof. intros. unfold band_spec, band_r. reflexivity. Qed.

Lemma lower_to_full_spec (d N : nat) :
  aeq (lower_to_full (spec_bands d N true)) (spec_bands d N false).
Proof.
  unfold lower_to_full, shift_rows, shift_lower, shift_upper, spec_bands, aeq; cbn [nr nc get].
  split; [lia|]. split; [reflexivity|]. intros r c0 Hr Hc.
  replace (2 * (Z.of_nat d + 1) - 1 - r <=? 0) with false by lia.
  replace (Z.of_nat d + 1 - 1) with (Z.of_nat d) by lia.
  destruct (r <? Z.of_nat d) eqn:Hrd.
  - cbv zeta. destruct (c0 <? Z.of_nat d - r) eqn:Hcs.
    + unfold band_spec, band_r.
      destruct (0 <=? c0 + (r - Z.of_nat d)) eqn:?; cbn [andb]; [lia|reflexivity].
    + unfold band_spec, band_r.
      replace (c0 - (Z.of_nat d - r) + (Z.of_nat d - r)) with c0 by lia.
      replace (c0 + (r - Z.of_nat d)) with (c0 - (Z.of_nat d - r)) by lia.
      destruct (0 <=? c0) eqn:?, (c0 <? Z.of_nat N) eqn:?, (0 <=? c0 - (Z.of_nat d - r)) eqn:?,
               (c0 - (Z.of_nat d - r) <? Z.of_nat N) eqn:?; cbn [andb]; try lia.
      apply DtD_sym.
  - replace (r <? Z.of_nat d) with false by lia.
    unfold band_spec, band_r. reflexivity.
Qed.

Lemma drop_full_spec (d N : nat) :
  aeq (drop_rows (Z.of_nat d) (spec_bands d N false)) (spec_bands d N true).
Proof.
  unfold drop_rows, spec_bands, aeq; cbn [nr nc get]. split; [lia|]. split; [reflexivity|].
  intros r c0 Hr Hc. unfold band_spec, band_r. replace (r + Z.of_nat d - Z.of_nat d) with r by lia.
  reflexivity.
Qed.

Lemma shift_upper_cong a b u : aeq a b -> aeq (shift_upper a u) (shift_upper b u).
Proof. intros (H1 & H2 & H3). unfold shift_upper, aeq; cbn [nr nc get]. repeat split; try assumption.
  intros r c0 Hr Hc. destruct (r <? u) eqn:?; cbv zeta.
  - destruct (c0 <? u - r) eqn:?; [reflexivity|apply H3; lia].
  - apply H3; lia. Qed.

Lemma shift_lower_cong a b l : aeq a b -> aeq (shift_lower a l) (shift_lower b l).
Proof. intros (H1 & H2 & H3). unfold shift_lower, aeq; cbn [nr nc get]. repeat split; try assumption.
  intros r c0 Hr Hc. rewrite <- H1, <- H2. cbv zeta. destruct (nr a - r <=? l) eqn:?.
  - destruct (c0 <? nc a - (l - (nr a - r) + 1)) eqn:?; [apply H3; lia|reflexivity].
  - apply H3; lia. Qed.

Lemma lower_to_full_cong a b : aeq a b -> aeq (lower_to_full a) (lower_to_full b).
Proof.
  intros (H1 & H2 & H3). unfold lower_to_full, shift_rows.
  apply shift_lower_cong. rewrite <- H1. apply shift_upper_cong.
  unfold aeq; cbn [nr nc get]. repeat split; try lia.
  intros r c0 Hr Hc. destruct (r <? nr a - 1) eqn:?; apply H3; lia.
Qed.

Lemma maybe_rev_cong b x y : aeq x y -> aeq (maybe_rev b x) (maybe_rev b y).
Proof. destruct b; cbn [maybe_rev]; [apply rev_rows_cong|trivial]. Qed.

Lemma pad_cong a b p l : aeq a b -> aeq (pad_diagonals a p l) (pad_diagonals b p l).
Proof.
  intros (H1 & H2 & H3). unfold pad_diagonals. destruct (0 <? p) eqn:?; [|repeat split; assumption].
  destruct l; unfold aeq; cbn [nr nc get]; (split; [lia|split; [assumption|]]); intros r c0 Hr Hc; rewrite <- H1.
  - destruct (r <? nr a) eqn:?; [apply H3; lia|reflexivity].
  - destruct ((p <=? r) && (r <? p + nr a)) eqn:?; [apply H3; lia|reflexivity].
Qed.

(* ---- the state machine ---- *)
Definition layout (d N : nat) (lower rev : bool) : arr := maybe_rev rev (spec_bands d N lower).

(* state invariant: the stored diagonals denote D'D in the layout the flags claim, and
   the penalty is lam * padded diagonals with consistent band bookkeeping *)
Definition Inv (N : nat) (s : sys) : Prop :=
  (s_d s < N)%nat /\ aeq (s_orig s) (layout (s_d s) N (s_lower s) (s_rev s)).

Definition sys_eq (s t : sys) : Prop :=
  s_d s = s_d t /\ s_lower s = s_lower t /\ s_rev s = s_rev t /\ s_penta s = s_penta t /\
  aeq (s_orig s) (s_orig t) /\ aeq (s_pen s) (s_pen t) /\ s_lam s = s_lam t /\
  s_num_bands s = s_num_bands t /\ s_main s = s_main t.

Lemma finish_eq d l r p o o' lam pad :
  aeq o o' -> sys_eq (finish d l r p o lam pad) (finish d l r p o' lam pad).
Proof.
  intros H. assert (Hp : aeq (scale lam (pad_diagonals o pad l)) (scale lam (pad_diagonals o' pad l)))
    by (apply scale_cong, pad_cong, H).
  destruct Hp as (P1 & P2 & P3). unfold finish, sys_eq; cbn.
  repeat split; try reflexivity; try assumption; try apply H.
  - cbn in *. destruct l; congruence.
  - cbn in *. destruct l; congruence.
Qed.

Lemma convert_layout N s lower_only rev :
  Inv N s -> aeq (convert s lower_only rev) (layout (s_d s) N lower_only rev).
Proof.
  intros [Hd Ho]. unfold convert, layout in *.
  set (o0 := if s_rev s then rev_rows (s_orig s) else s_orig s).
  assert (H0 : aeq o0 (spec_bands (s_d s) N (s_lower s))).
  { unfold o0. destruct (s_rev s); cbn [maybe_rev] in Ho; [|exact Ho].
    eapply aeq_trans; [apply rev_rows_cong, Ho|apply rev_rows_invol]. }
  assert (H1 : aeq (if s_lower s && negb lower_only then lower_to_full o0
                    else if negb (s_lower s) && lower_only then drop_rows (Z.of_nat (s_d s)) o0
                    else o0) (spec_bands (s_d s) N lower_only)).
  { destruct (s_lower s), lower_only; cbn [andb negb]; try exact H0.
    - eapply aeq_trans; [apply lower_to_full_cong, H0|apply lower_to_full_spec].
    - eapply aeq_trans; [apply drop_rows_cong; [lia|apply H0]|apply drop_full_spec]. }
  destruct rev; cbn [maybe_rev]; [apply rev_rows_cong, H1|exact H1].
Qed.

Lemma fresh_layout N d lower rev :
  (d < N)%nat -> exists a, dpd_core N d lower = DpdOk a /\ aeq (maybe_rev rev a) (layout d N lower rev).
Proof.
  intros H. destruct (dpd_core_exact N d lower H) as (a & Ha & Heq).
  exists a. split; [exact Ha|apply maybe_rev_cong, Heq].
Qed.

(* a Reset on any invariant-satisfying state gives the freshly built system *)
Lemma reset_eq_fresh hp N s c :
  Inv N s -> (c_d c < N)%nat ->
  match reset hp N (Some s) c, reset hp N None c with
  | Some s1, Some s2 => sys_eq s1 s2 /\ Inv N s1
  | None, None => True
  | _, _ => False
  end.
Proof.
  intros HI Hc. unfold reset.
  destruct (fresh_layout N (c_d c) (want_lower hp c) (want_rev hp c) Hc) as (a & Ha & Hal).
  rewrite Ha.
  destruct (negb (Nat.eqb (s_d s) (c_d c))) eqn:Hd.
  - destruct (0 <? c_lam c); [|exact I]. split.
    + apply finish_eq, aeq_refl.
    + split; [exact Hc|exact Hal].
  - assert (s_d s = c_d c) as Hds by (apply Nat.eqb_eq; destruct (Nat.eqb (s_d s) (c_d c)); [reflexivity|discriminate]).
    destruct (0 <? c_lam c); [|exact I]. split.
    + apply finish_eq. eapply aeq_trans; [apply convert_layout, HI|]. rewrite Hds. apply aeq_sym, Hal.
    + split; [exact Hc|]. cbn [finish s_d s_orig s_lower s_rev]. rewrite <- Hds. apply convert_layout, HI.
Qed.

Lemma reset_fresh_inv hp N c s :
  (c_d c < N)%nat -> reset hp N None c = Some s -> Inv N s.
Proof.
  intros Hc. unfold reset.
  destruct (fresh_layout N (c_d c) (want_lower hp c) (want_rev hp c) Hc) as (a & Ha & Hal).
  rewrite Ha. destruct (0 <? c_lam c); [|discriminate]. intros [= <-]. split; [exact Hc|exact Hal].
Qed.

Lemma reverse_inv N s : Inv N s -> Inv N (reverse_penalty s).
Proof.
  intros [Hd Ho]. unfold reverse_penalty. destruct (s_lower s) eqn:Hl.
  { split; [exact Hd|]. rewrite Hl. exact Ho. }
  split; [exact Hd|]. cbn [s_d s_orig s_lower s_rev]. unfold layout in *.
  destruct (s_rev s); cbn [negb maybe_rev] in *.
  - eapply aeq_trans; [apply rev_rows_cong, Ho|apply rev_rows_invol].
  - apply rev_rows_cong, Ho.
Qed.

Definition op_ok (N : nat) (o : op) : Prop :=
  match o with Reset c => (c_d c < N)%nat | Reverse => True end.

Lemma step_inv hp N s o : Inv N s -> op_ok N o -> Inv N (step hp N s o).
Proof.
  intros HI Ho. destruct o as [c|]; cbn [step op_ok] in *.
  - pose proof (reset_eq_fresh hp N s c HI Ho) as H.
    destruct (reset hp N (Some s) c), (reset hp N None c); try tauto.
  - apply reverse_inv, HI.
Qed.

Lemma run_inv hp N ops : forall s, Inv N s -> Forall (op_ok N) ops -> Inv N (run hp N s ops).
Proof.
  induction ops as [|o ops IH]; intros s HI Hops; [exact HI|].
  inversion Hops as [|? ? Ho Hrest]; subst. cbn [run fold_left]. apply IH; [|exact Hrest].
  apply step_inv; assumption.
Qed.

(* C11_history: after ANY sequence of reconfigurations of a system built with any settings,
   a reset to settings c yields exactly the system built directly with c, and that system's
   stored diagonals are D'D in the layout its flags claim. *)
Theorem history (hp : bool) (N : nat) (c0 : cfg) (ops : list op) (c : cfg) (s0 : sys) :
  (c_d c0 < N)%nat -> Forall (op_ok N) ops -> (c_d c < N)%nat ->
  reset hp N None c0 = Some s0 ->
  match reset hp N (Some (run hp N s0 ops)) c, reset hp N None c with
  | Some s1, Some s2 => sys_eq s1 s2 /\ Inv N s1
  | None, None => True
  | _, _ => False
  end.
Proof.
  intros H0 Hops Hc Hs0. apply reset_eq_fresh; [|exact Hc].
  apply run_inv; [|exact Hops]. exact (reset_fresh_inv hp N c0 s0 H0 Hs0).
Qed.

(* the penalty itself: lam * padded D'D bands *)
Theorem penalty_exact (hp : bool) (N : nat) (c : cfg) (s : sys) :
  (c_d c < N)%nat -> reset hp N None c = Some s ->
  aeq (s_pen s) (scale (c_lam c) (pad_diagonals (layout (c_d c) N (want_lower hp c) (want_rev hp c))
                                               (c_pad c) (want_lower hp c))).
Proof.
  intros Hc. unfold reset.
  destruct (fresh_layout N (c_d c) (want_lower hp c) (want_rev hp c) Hc) as (a & Ha & Hal).
  rewrite Ha. destruct (0 <? c_lam c); [|discriminate]. intros [= <-].
  cbn [finish s_pen]. apply scale_cong, pad_cong, Hal.
Qed.
