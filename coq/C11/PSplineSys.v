(* PSpline (pybaselines/_spline_utils.py) as a client of the PenalizedSystem state machine of
   C11/Uses.v: the constructor and reset_penalty_diagonals fix allow_pentapy=False and RECOMPUTE the
   padding from the spline degree and the CURRENT difference order on every call,
       padding = self.basis.spline_degree - diff_order        (negative -> no padding rows)
   Models only; the proofs are in C11/PSplineSysProofs.v. *)
From Coq Require Import ZArith List Bool Lia ZifyBool.
From PB Require Import lib.SumZ lib.PySlice lib.Arr C11.DtD C11.Table gen.GenBands C11.Banded C11.Uses.
Import ListNotations.
Open Scope Z_scope.

(* the arguments of PSpline(...) / reset_penalty_diagonals(...) *)
Record pcfg := { p_lam : Z; p_d : nat; p_allow_lower : bool; p_rev : option bool }.

(* what both hand to PenalizedSystem.reset_diagonals *)
Definition pcfg_cfg (degree : Z) (p : pcfg) : cfg :=
  {| c_lam := p_lam p; c_d := p_d p; c_allow_lower := p_allow_lower p; c_rev := p_rev p;
     c_allow_penta := false; c_pad := degree - Z.of_nat (p_d p) |}.

(* PSpline.__init__: None = ValueError (diff_order < 1, diff_order >= number of basis functions, or
   reset_diagonals raised); nb = num_knots + spline_degree - 1 basis functions *)
Definition pinit (has_penta : bool) (nb : nat) (degree : Z) (p : pcfg) : option usys :=
  if (p_d p <? 1)%nat then None
  else if (nb <=? p_d p)%nat then None
  else ureset has_penta nb None (pcfg_cfg degree p).

(* operations on a PSpline: reset_penalty_diagonals, solve_pspline (reads the penalty, builds the
   left-hand side in a new array: no write to the modelled state), and everything inherited from
   PenalizedSystem (reset_diagonals, reverse_penalty and the uses) *)
Inductive pop :=
  | PReset (p : pcfg)
  | PSolve
  | POp (o : uop).

Definition pstep (has_penta : bool) (nb : nat) (degree : Z) (u : usys) (o : pop) : usys :=
  match o with
  | PReset p => ustep has_penta nb u (UReset (pcfg_cfg degree p))
  | PSolve => u
  | POp o' => ustep has_penta nb u o'
  end.

Definition prun (has_penta : bool) (nb : nat) (degree : Z) (u : usys) (ops : list pop) : usys :=
  fold_left (pstep has_penta nb degree) ops u.

(* the same history as operations of the underlying system *)
Definition pop_uops (degree : Z) (o : pop) : list uop :=
  match o with
  | PReset p => [UReset (pcfg_cfg degree p)]
  | PSolve => []
  | POp o' => [o']
  end.

(* documented geometry of the P-spline penalty: max(diff_order, spline_degree) bands below the main
   diagonal, so that it can be added to the (spline_degree)-banded B'WB *)
Definition pspline_bands (degree : Z) (d : nat) : Z := Z.max (Z.of_nat d) degree.
