(* PenalizedSystem.reset_diagonals as a SEQUENCE OF EFFECTS on the object, so that a request that is
   REJECTED (an exception raised half-way through the method, caught by the caller) leaves exactly the
   attributes assigned before the raising statement changed.  The sequence itself is DATA: it is
   extracted from the current source by tools/gen_band_effects.py (gen/GenBandEffects.v) and executed by
   the interpreter [exec] below; the contents computed by the individual effects are the ones of
   C11/Banded.v and C11/Uses.v (dpd_core, convert, pad_diagonals, the buffer bookkeeping of ureset_g).
   Models only; the proofs are in C11/EffectsProofs.v. *)
From Coq Require Import ZArith List Bool Lia ZifyBool String.
From PB Require Import lib.SumZ lib.PySlice lib.Arr C11.DtD C11.Table gen.GenBands C11.Banded C11.Uses
                       C11.PSplineSys.
Import ListNotations.
Open Scope Z_scope.

(* ---- the effect language ---- *)
Inductive flag := FOrder | FLower | FPenta | FRev.

Inductive effect :=
  | EOrig       (* the `if self.original_diagonals is None or self.diff_order != diff_order: ... else: ...`
                   block: every assignment in it is to self.original_diagonals; the only call that raises on
                   a request parameter (diff_penalty_diagonals) comes before the first of them; the
                   conversion branch READS self.diff_order / self.lower / self.reversed *)
  | EFlag (f : flag)   (* self.diff_order = diff_order | self.lower = lower_only |
                          self.using_pentapy = using_pentapy | self.reversed = needs_reversed *)
  | ECheckLam   (* _check_lam(lam, allow_zero=False) is evaluated: raises for a non-scalar or lam <= 0 *)
  | ESetLam     (* self.lam = <the checked value> *)
  | EPen        (* self.penalty = self.lam * _pad_diagonals(self.original_diagonals, padding, self.lower) *)
  | EBands      (* self._update_bands() *)
  | EOther.     (* any statement the translator does not recognise (the order check then fails) *)

(* the order of reset_diagonals at /repo 0f85b1f, written out by hand; used ONLY for the refutation of
   the strong no-op statement (the theorems are about every order that passes [effects_ok], and the
   harness executes the order generated from the current source) *)
Definition order_0f85b1f : list effect :=
  [EOrig; EFlag FOrder; EFlag FLower; EFlag FPenta; EFlag FRev; ECheckLam; ESetLam; EPen; EBands].

(* ---- requests: the arguments of reset_diagonals, VALID OR NOT ---- *)
Record req := { q_lam : Z; q_lam_len : Z;   (* lam and its length (1 = a scalar) *)
                q_d : Z;                    (* diff_order, possibly negative *)
                q_allow_lower : bool; q_rev : option bool; q_allow_penta : bool; q_pad : Z }.

Definition req_cfg (q : req) : cfg :=
  {| c_lam := q_lam q; c_d := Z.to_nat (q_d q); c_allow_lower := q_allow_lower q; c_rev := q_rev q;
     c_allow_penta := q_allow_penta q; c_pad := q_pad q |}.

Definition cfg_req (c : cfg) : req :=
  {| q_lam := c_lam c; q_lam_len := 1; q_d := Z.of_nat (c_d c); q_allow_lower := c_allow_lower c;
     q_rev := c_rev c; q_allow_penta := c_allow_penta c; q_pad := c_pad c |}.

(* _check_lam accepts *)
Definition lam_ok (q : req) : bool := (q_lam_len q =? 1) && (0 <? q_lam q).
(* diff_penalty_diagonals accepts the order *)
Definition order_ok (q : req) : bool := 0 <=? q_d q.
Definition req_valid (q : req) : bool := order_ok q && lam_ok q.

(* ---- single effects on the object ---- *)
Definition set_sys (u : usys) (s : sys) : usys :=
  {| u_sys := s; u_maind := u_maind u; u_obuf := u_obuf u; u_pbuf := u_pbuf u; u_next := u_next u |}.

Definition set_flag (hp : bool) (q : req) (f : flag) (s : sys) : sys :=
  let c := req_cfg q in
  match f with
  | FOrder => {| s_d := c_d c; s_lower := s_lower s; s_rev := s_rev s; s_penta := s_penta s;
                 s_orig := s_orig s; s_pen := s_pen s; s_lam := s_lam s;
                 s_num_bands := s_num_bands s; s_main := s_main s |}
  | FLower => {| s_d := s_d s; s_lower := want_lower hp c; s_rev := s_rev s; s_penta := s_penta s;
                 s_orig := s_orig s; s_pen := s_pen s; s_lam := s_lam s;
                 s_num_bands := s_num_bands s; s_main := s_main s |}
  | FPenta => {| s_d := s_d s; s_lower := s_lower s; s_rev := s_rev s; s_penta := want_penta hp c;
                 s_orig := s_orig s; s_pen := s_pen s; s_lam := s_lam s;
                 s_num_bands := s_num_bands s; s_main := s_main s |}
  | FRev =>   {| s_d := s_d s; s_lower := s_lower s; s_rev := want_rev hp c; s_penta := s_penta s;
                 s_orig := s_orig s; s_pen := s_pen s; s_lam := s_lam s;
                 s_num_bands := s_num_bands s; s_main := s_main s |}
  end.

Definition set_lam (lam : Z) (s : sys) : sys :=
  {| s_d := s_d s; s_lower := s_lower s; s_rev := s_rev s; s_penta := s_penta s;
     s_orig := s_orig s; s_pen := s_pen s; s_lam := lam;
     s_num_bands := s_num_bands s; s_main := s_main s |}.

(* the EOrig block.  [has] = self.original_diagonals is not None.  None = diff_penalty_diagonals raised
   (nothing has been assigned at that point).  Buffers as in Uses.ureset_g: a rebuilt or
   _lower_to_full-converted array is a new buffer, the other conversions are views. *)
Definition eff_orig (hp : bool) (N : nat) (q : req) (has : bool) (u : usys) : option usys :=
  let c := req_cfg q in
  let s := u_sys u in
  let lower_only := want_lower hp c in
  let rev := want_rev hp c in
  if negb has || negb (Z.of_nat (s_d s) =? q_d q) then
    if disp_rejects (Z.of_nat N) (q_d q) then None
    else match dpd_core N (c_d c) lower_only with
         | DpdOk a =>
             Some {| u_sys := with_pen s (maybe_rev rev a) (s_pen s); u_maind := u_maind u;
                     u_obuf := u_next u; u_pbuf := u_pbuf u; u_next := u_next u + 1 |}
         | _ => None
         end
  else
    let fresh_buf := s_lower s && negb lower_only in
    Some {| u_sys := with_pen s (convert s lower_only rev) (s_pen s); u_maind := u_maind u;
            u_obuf := if fresh_buf then u_next u else u_obuf u; u_pbuf := u_pbuf u;
            u_next := if fresh_buf then u_next u + 1 else u_next u |}.

(* self.penalty = self.lam * _pad_diagonals(self.original_diagonals, padding, self.lower): np.concatenate
   allocates when padding > 0, the multiplication by lam always allocates *)
Definition eff_pen (q : req) (u : usys) : usys :=
  let s := u_sys u in
  let next1 := if 0 <? q_pad q then u_next u + 1 else u_next u in
  {| u_sys := with_pen s (s_orig s) (scale (s_lam s) (pad_diagonals (s_orig s) (q_pad q) (s_lower s)));
     u_maind := u_maind u; u_obuf := u_obuf u; u_pbuf := next1; u_next := next1 + 1 |}.

(* ---- the interpreter ---- *)
Inductive outcome :=
  | Done (u : usys)      (* the method returned; u is the object *)
  | Raised (u : usys).   (* the method raised; u is the object AT THE RAISING STATEMENT *)

Fixpoint exec (hp : bool) (N : nat) (q : req) (es : list effect) (has : bool) (u : usys) : outcome :=
  match es with
  | [] => Done u
  | e :: es' =>
      match e with
      | EOrig => match eff_orig hp N q has u with
                 | Some u' => exec hp N q es' true u'
                 | None => Raised u
                 end
      | EFlag f => exec hp N q es' has (set_sys u (set_flag hp q f (u_sys u)))
      | ECheckLam => if lam_ok q then exec hp N q es' has u else Raised u
      | ESetLam => exec hp N q es' has (set_sys u (set_lam (q_lam q) (u_sys u)))
      | EPen => exec hp N q es' has (eff_pen q u)
      | EBands => exec hp N q es' has (update_bands u)
      | EOther => Raised u
      end
  end.

(* the blank object PenalizedSystem.__init__ hands to its first reset_diagonals call
   (original_diagonals = None, no other attribute yet: the dummies are never read when [has] = false) *)
Definition blank_arr : arr := mkarr 0 0 (fun _ _ => 0).
Definition blank : usys :=
  {| u_sys := {| s_d := 0%nat; s_lower := false; s_rev := false; s_penta := false; s_orig := blank_arr;
                 s_pen := blank_arr; s_lam := 0; s_num_bands := 0; s_main := 0 |};
     u_maind := fun _ => 0; u_obuf := 0; u_pbuf := 0; u_next := 0 |}.

(* the constructor: an exception leaves no object behind *)
Definition einit (hp : bool) (N : nat) (es : list effect) (q : req) : option usys :=
  match exec hp N q es false blank with Done u => Some u | Raised _ => None end.

(* a request on an existing object: whatever state the method left, returned or raised *)
Definition after (o : outcome) : usys := match o with Done u => u | Raised u => u end.
Definition accepted (o : outcome) : bool := match o with Done _ => true | Raised _ => false end.

(* ---- histories with requests that may be rejected ---- *)
Inductive rop :=
  | RReq (q : req)     (* reset_diagonals with arguments q, the exception (if any) caught by the caller *)
  | ROp (o : uop).     (* everything of C11/Uses.v: accepted resets, reverse_penalty, the uses *)

Definition rstep (hp : bool) (N : nat) (es : list effect) (u : usys) (o : rop) : usys :=
  match o with
  | RReq q => after (exec hp N q es true u)
  | ROp o' => ustep hp N u o'
  end.

Definition rrun (hp : bool) (N : nat) (es : list effect) (u : usys) (ops : list rop) : usys :=
  fold_left (rstep hp N es) ops u.

(* ---- PSpline.reset_penalty_diagonals: forwards to reset_diagonals with allow_pentapy=False and
   padding = spline_degree - diff_order ---- *)
Record preq := { pq_lam : Z; pq_lam_len : Z; pq_d : Z; pq_allow_lower : bool; pq_rev : option bool }.

Definition preq_req (degree : Z) (p : preq) : req :=
  {| q_lam := pq_lam p; q_lam_len := pq_lam_len p; q_d := pq_d p; q_allow_lower := pq_allow_lower p;
     q_rev := pq_rev p; q_allow_penta := false; q_pad := degree - pq_d p |}.

Inductive prop_ :=
  | PRReq (p : preq)   (* reset_penalty_diagonals with arguments p, exception caught *)
  | PROp (o : pop).    (* everything of C11/PSplineSys.v *)

Definition prstep (hp : bool) (nb : nat) (degree : Z) (es : list effect) (u : usys) (o : prop_) : usys :=
  match o with
  | PRReq p => after (exec hp nb (preq_req degree p) es true u)
  | PROp o' => pstep hp nb degree u o'
  end.

Definition prrun (hp : bool) (nb : nat) (degree : Z) (es : list effect) (u : usys) (ops : list prop_) : usys :=
  fold_left (prstep hp nb degree es) ops u.

(* ---- the order check (boolean; soundness in C11/EffectsProofs.v) ----
   Accepted orders:   [ECheckLam]? ; EOrig ; the four flag assignments in any order ; [ECheckLam]? ;
                      ESetLam ; EPen ; EBands        with exactly one ECheckLam.
   I.e. (1) nothing can raise between the first write to original_diagonals and the last of the four
   layout flags (so the stored diagonals and the flags that describe them change TOGETHER), (2) the
   conversion of the stored diagonals reads the flags before they are overwritten, (3) lam is checked
   before it is stored and the penalty / band bookkeeping are rebuilt last, from the new attributes. *)
Definition flag_eqb (a b : flag) : bool :=
  match a, b with
  | FOrder, FOrder | FLower, FLower | FPenta, FPenta | FRev, FRev => true
  | _, _ => false
  end.

Definition effect_eqb (a b : effect) : bool :=
  match a, b with
  | EOrig, EOrig | ECheckLam, ECheckLam | ESetLam, ESetLam | EPen, EPen | EBands, EBands => true
  | EFlag f, EFlag g => flag_eqb f g
  | _, _ => false
  end.

Fixpoint effects_eqb (a b : list effect) : bool :=
  match a, b with
  | [], [] => true
  | x :: a', y :: b' => effect_eqb x y && effects_eqb a' b'
  | _, _ => false
  end.

Definition flags_perm (l : list effect) : bool :=
  (Nat.eqb (List.length l) 4)
  && existsb (effect_eqb (EFlag FOrder)) l && existsb (effect_eqb (EFlag FLower)) l
  && existsb (effect_eqb (EFlag FPenta)) l && existsb (effect_eqb (EFlag FRev)) l.

Definition tail_ok (check_done : bool) (r : list effect) : bool :=
  flags_perm (firstn 4 r)
  && effects_eqb (skipn 4 r) (if check_done then [ESetLam; EPen; EBands] else [ECheckLam; ESetLam; EPen; EBands]).

Definition effects_ok (es : list effect) : bool :=
  match es with
  | ECheckLam :: EOrig :: r => tail_ok true r
  | EOrig :: r => tail_ok false r
  | _ => false
  end.

(* true when the order validates lam BEFORE the first assignment (then every rejected request is a
   no-op); false for the order at 0f85b1f *)
Definition checks_first (es : list effect) : bool :=
  match es with ECheckLam :: _ => true | _ => false end.

(* ---- other mutators: events in source order (generated), strong exception safety ---- *)
Inductive event :=
  | Raises (what : string)     (* a statement / call that can raise on an invalid argument *)
  | Assigns (attr : string).   (* self.<attr> = ... / self.<attr>[...] = ... *)

(* attributes already assigned at each raising point *)
Fixpoint dirty_at_raise (seen : list string) (evs : list event) : list (string * list string) :=
  match evs with
  | [] => []
  | Raises w :: r => (if match seen with [] => true | _ => false end then [] else [(w, seen)]) ++ dirty_at_raise seen r
  | Assigns a :: r => dirty_at_raise (seen ++ [a]) r
  end.

Definition strongly_safe (evs : list event) : bool :=
  match dirty_at_raise [] evs with [] => true | _ => false end.

(* observable state, as in Uses.uobserve *)
Definition robserve (u : usys) := uobserve u.
