(* Proofs about C11/Uses.v: the history theorem for histories that INCLUDE uses of the system, the
   memory-separation invariant, what add_diagonal leaves in the penalty, and a refutation of the
   variant in which the multiplication by lam is elided for lam = 1.  Built on C11/History.v. *)
From Coq Require Import ZArith List Bool Lia ZifyBool.
From PB Require Import lib.SumZ lib.PySlice lib.Arr C11.DtD C11.Table gen.GenBands C11.Banded
                       C11.History C11.Uses.
Import ListNotations.
Open Scope Z_scope.

(* memory separation: penalty and original_diagonals live in different buffers (ids below the
   allocation counter, so that a fresh id is different from both) *)
Definition Sep (u : usys) : Prop :=
  u_obuf u < u_next u /\ u_pbuf u < u_next u /\ u_pbuf u <> u_obuf u.

(* state invariant: the invariant of C11/History.v (the stored diagonals denote D'D in the layout the
   flags claim) AND the penalty does not share memory with them *)
Definition UInv (N : nat) (u : usys) : Prop := Inv N (u_sys u) /\ Sep u.

Definition usys_eq (u t : usys) : Prop :=
  sys_eq (u_sys u) (u_sys t) /\
  (forall c, 0 <= c < nc (s_pen (u_sys u)) -> u_maind u c = u_maind t c) /\
  aliased u = aliased t.

Lemma Sep_not_aliased u : Sep u -> aliased u = false.
Proof. intros (_ & _ & H). unfold aliased. lia. Qed.

(* ---- facts about Banded.reset needed here ---- *)
Lemma reset_is_finish hp N prev c s : reset hp N prev c = Some s ->
  s = finish (c_d c) (want_lower hp c) (want_rev hp c) (want_penta hp c) (s_orig s) (c_lam c) (c_pad c).
Proof.
  unfold reset. cbv zeta. intros H.
  repeat match type of H with
         | context [match ?x with _ => _ end] => destruct x; try discriminate
         end.
  all: injection H as <-; reflexivity.
Qed.

Lemma layout_rows d N l r : nr (layout d N l r) = if l then Z.of_nat d + 1 else 2 * Z.of_nat d + 1.
Proof. unfold layout, maybe_rev, spec_bands. destruct r; reflexivity. Qed.

Lemma Inv_rows_pos N s : Inv N s -> 1 <= nr (s_orig s).
Proof. intros (_ & (H & _)). rewrite H, layout_rows. destruct (s_lower s); lia. Qed.

Lemma finish_main_range d l r p o lam pad : 1 <= nr o ->
  let s := finish d l r p o lam pad in 0 <= s_main s < nr (s_pen s).
Proof.
  intros Hr. cbv zeta. unfold finish. cbn [s_main s_pen].
  set (pen := scale lam (pad_diagonals o pad l)).
  assert (Hn : 1 <= nr pen).
  { unfold pen. cbn [scale nr]. unfold pad_diagonals. destruct (0 <? pad) eqn:?; [destruct l; cbn [nr]; lia|exact Hr]. }
  clearbody pen. destruct l; [lia|].
  split; [apply Z.div_pos; lia|apply Z.div_lt_upper_bound; lia].
Qed.

Lemma reset_main_range hp N prev c s : reset hp N prev c = Some s -> 1 <= nr (s_orig s) ->
  0 <= s_main s < nr (s_pen s).
Proof.
  intros H Hr. rewrite (reset_is_finish hp N prev c s H).
  apply (finish_main_range (c_d c) (want_lower hp c) (want_rev hp c) (want_penta hp c) (s_orig s) (c_lam c) (c_pad c) Hr).
Qed.

(* ---- reset ---- *)
Lemma ureset_sep hp N prev c u :
  match prev with Some p => Sep p | None => True end ->
  ureset hp N prev c = Some u -> Sep u.
Proof.
  intros HP. unfold ureset, ureset_g, no_elision.
  destruct (reset hp N (option_map u_sys prev) c); [|discriminate]. intros [= <-].
  unfold Sep. cbn [u_obuf u_pbuf u_next].
  destruct prev as [p|].
  - destruct HP as (H1 & H2 & H3).
    destruct (negb _ || _), (0 <? c_pad c); lia.
  - destruct (0 <? c_pad c); lia.
Qed.

(* a reset on any invariant-satisfying state gives the freshly built system *)
Lemma ureset_eq_fresh hp N u c :
  UInv N u -> (c_d c < N)%nat ->
  match ureset hp N (Some u) c, ureset hp N None c with
  | Some u1, Some u2 => usys_eq u1 u2 /\ UInv N u1
  | None, None => True
  | _, _ => False
  end.
Proof.
  intros [HI HS] Hc.
  pose proof (reset_eq_fresh hp N (u_sys u) c HI Hc) as H.
  destruct (ureset hp N (Some u) c) as [u1|] eqn:E1; destruct (ureset hp N None c) as [u2|] eqn:E2.
  - pose proof (ureset_sep hp N (Some u) c u1 HS E1) as S1.
    pose proof (ureset_sep hp N None c u2 I E2) as S2.
    unfold ureset, ureset_g in E1, E2. cbn [option_map] in E1, E2.
    destruct (reset hp N (Some (u_sys u)) c) as [s1|] eqn:R1; [|discriminate].
    destruct (reset hp N None c) as [s2|] eqn:R2; [|discriminate].
    destruct H as [Heq HI1].
    injection E1 as <-. injection E2 as <-.
    split; [|split; [exact HI1|exact S1]].
    unfold usys_eq. cbn [u_sys u_maind].
    split; [exact Heq|]. split.
    + intros col Hcol.
      destruct Heq as (_ & _ & _ & _ & _ & (P1 & P2 & P3) & _ & _ & Hm).
      rewrite <- Hm. apply P3; [|exact Hcol].
      apply (reset_main_range hp N (Some (u_sys u)) c s1 R1), (Inv_rows_pos N), HI1.
    + rewrite (Sep_not_aliased _ S1), (Sep_not_aliased _ S2). reflexivity.
  - exfalso. unfold ureset, ureset_g in E1, E2. cbn [option_map] in E1, E2.
    destruct (reset hp N (Some (u_sys u)) c), (reset hp N None c); try discriminate; exact H.
  - exfalso. unfold ureset, ureset_g in E1, E2. cbn [option_map] in E1, E2.
    destruct (reset hp N (Some (u_sys u)) c), (reset hp N None c); try discriminate; exact H.
  - exact I.
Qed.

Lemma ureset_fresh_inv hp N c u :
  (c_d c < N)%nat -> ureset hp N None c = Some u -> UInv N u.
Proof.
  intros Hc E. split; [|exact (ureset_sep hp N None c u I E)].
  unfold ureset, ureset_g in E. cbn [option_map] in E.
  destruct (reset hp N None c) as [s|] eqn:R; [|discriminate]. injection E as <-. cbn [u_sys].
  exact (reset_fresh_inv hp N c s Hc R).
Qed.

Lemma ureverse_inv N u : UInv N u -> UInv N (ureverse u).
Proof. intros [HI HS]. split; [apply reverse_inv, HI|exact HS]. Qed.

(* ---- uses: every way the code writes self.penalty between two resets ---- *)
Definition is_use (o : uop) : bool :=
  match o with UReset _ | UReverse => false | _ => true end.

(* the part of the state a reset reads: unchanged (Leibniz-equal) by a use, PROVIDED penalty and
   original_diagonals do not share memory *)
Definition kept (u t : usys) : Prop :=
  s_d (u_sys t) = s_d (u_sys u) /\ s_lower (u_sys t) = s_lower (u_sys u) /\
  s_rev (u_sys t) = s_rev (u_sys u) /\ s_penta (u_sys t) = s_penta (u_sys u) /\
  s_orig (u_sys t) = s_orig (u_sys u) /\ u_obuf t = u_obuf u.

Lemma kept_refl u : kept u u.
Proof. repeat split. Qed.

Lemma kept_trans u t v : kept u t -> kept t v -> kept u v.
Proof. unfold kept. intros (A1&A2&A3&A4&A5&A6) (B1&B2&B3&B4&B5&B6). repeat split; congruence. Qed.

Lemma write_pen_kept u p : Sep u -> kept u (write_pen u p) /\ Sep (write_pen u p).
Proof.
  intros HS. pose proof (Sep_not_aliased u HS) as Ha. unfold kept, write_pen, Sep, with_pen.
  cbn [u_sys s_d s_lower s_rev s_penta s_orig u_obuf u_pbuf u_next]. rewrite Ha.
  repeat split; try reflexivity; apply HS.
Qed.

Lemma bind_pen_kept u p : Sep u -> kept u (bind_pen u p) /\ Sep (bind_pen u p).
Proof.
  intros (H1 & H2 & H3). unfold kept, bind_pen, Sep, with_pen.
  cbn [u_sys s_d s_lower s_rev s_penta s_orig u_obuf u_pbuf u_next].
  repeat split; try reflexivity; lia.
Qed.

Lemma update_bands_kept u : Sep u -> kept u (update_bands u) /\ Sep (update_bands u).
Proof.
  intros HS. unfold kept, update_bands, Sep, with_bands.
  cbn [u_sys s_d s_lower s_rev s_penta s_orig u_obuf u_pbuf u_next].
  repeat split; try reflexivity; apply HS.
Qed.

(* C11_use_keeps_diagonals *)
Lemma use_kept hp N u o : Sep u -> is_use o = true ->
  kept u (ustep hp N u o) /\ Sep (ustep hp N u o).
Proof.
  intros HS Hu. destruct o as [c| |w|p|v|v]; try discriminate; unfold ustep, ustep_g.
  - unfold add_diagonal. cbv zeta. destruct (_ || _); [apply write_pen_kept, HS|split; [apply kept_refl|exact HS]].
  - unfold add_penalty. destruct (add_diagonals _ _ _) as [q|].
    + destruct (bind_pen_kept u q HS) as [K1 S1].
      destruct (update_bands_kept _ S1) as [K2 S2]. split; [eapply kept_trans; eassumption|exact S2].
    + split; [apply kept_refl|exact HS].
  - unfold clobber. destruct (_ && _); [apply write_pen_kept, HS|split; [apply kept_refl|exact HS]].
  - apply bind_pen_kept, HS.
Qed.

Lemma kept_inv N u t : UInv N u -> kept u t -> Sep t -> UInv N t.
Proof.
  intros ((Hd & Ho) & _) (K1&K2&K3&K4&K5&K6) HS. split; [|exact HS].
  unfold Inv. rewrite K1, K2, K3, K5. split; [exact Hd|exact Ho].
Qed.

Definition uop_ok (N : nat) (o : uop) : Prop :=
  match o with UReset c => (c_d c < N)%nat | _ => True end.

Lemma ustep_inv hp N u o : UInv N u -> uop_ok N o -> UInv N (ustep hp N u o).
Proof.
  intros HI Ho. destruct (is_use o) eqn:Hu.
  - destruct (use_kept hp N u o (proj2 HI) Hu) as [K S'].
    eapply kept_inv; [exact HI|exact K|exact S'].
  - destruct o as [c| |w|p|v|v]; try discriminate; unfold ustep, ustep_g; cbn [uop_ok] in Ho.
    + pose proof (ureset_eq_fresh hp N u c HI Ho) as H. unfold ureset in H.
      destruct (ureset_g no_elision hp N (Some u) c), (ureset_g no_elision hp N None c); try tauto.
    + apply ureverse_inv, HI.
Qed.

Lemma urun_inv hp N ops : forall u, UInv N u -> Forall (uop_ok N) ops -> UInv N (urun hp N u ops).
Proof.
  induction ops as [|o ops IH]; intros u HI Hops; [exact HI|].
  inversion Hops as [|? ? Ho Hrest]; subst. unfold urun, urun_g. cbn [fold_left]. apply IH; [|exact Hrest].
  apply ustep_inv; assumption.
Qed.

(* C11_history_with_uses: after ANY sequence of reconfigurations AND uses of a system built with any
   settings, a reset to settings c yields exactly the system built directly with c (contents, flags,
   band bookkeeping, main_diagonal, no shared memory), and that system's stored diagonals are D'D in
   the layout its flags claim. *)
Theorem history_with_uses (hp : bool) (N : nat) (c0 : cfg) (ops : list uop) (c : cfg) (u0 : usys) :
  (c_d c0 < N)%nat -> Forall (uop_ok N) ops -> (c_d c < N)%nat ->
  ureset hp N None c0 = Some u0 ->
  match ureset hp N (Some (urun hp N u0 ops)) c, ureset hp N None c with
  | Some u1, Some u2 => usys_eq u1 u2 /\ UInv N u1
  | None, None => True
  | _, _ => False
  end.
Proof.
  intros H0 Hops Hc Hu0. apply ureset_eq_fresh; [|exact Hc].
  apply urun_inv; [|exact Hops]. exact (ureset_fresh_inv hp N c0 u0 H0 Hu0).
Qed.

(* C11_never_aliased: at every point of every history the penalty and the stored diagonals are in
   different buffers, and the stored diagonals are D'D in the claimed layout *)
Theorem never_aliased (hp : bool) (N : nat) (c0 : cfg) (ops : list uop) (u0 : usys) :
  (c_d c0 < N)%nat -> Forall (uop_ok N) ops -> ureset hp N None c0 = Some u0 ->
  let s := u_sys (urun hp N u0 ops) in
  aliased (urun hp N u0 ops) = false /\
  aeq (s_orig s) (layout (s_d s) N (s_lower s) (s_rev s)).
Proof.
  intros H0 Hops Hu0. cbv zeta.
  destruct (urun_inv hp N ops u0 (ureset_fresh_inv hp N c0 u0 H0 Hu0) Hops) as ((_ & Ho) & HS).
  split; [apply Sep_not_aliased, HS|exact Ho].
Qed.

(* uses only: a run of uses leaves the stored diagonals and the layout flags untouched *)
Lemma uses_kept hp N ops : forall u, Sep u -> forallb is_use ops = true ->
  kept u (urun hp N u ops) /\ Sep (urun hp N u ops).
Proof.
  induction ops as [|o ops IH]; intros u HS Hu; [split; [apply kept_refl|exact HS]|].
  cbn [forallb] in Hu. apply andb_true_iff in Hu as [Hu1 Hu2].
  destruct (use_kept hp N u o HS Hu1) as [K1 S1].
  unfold urun, urun_g. cbn [fold_left]. destruct (IH _ S1 Hu2) as [K2 S2].
  split; [eapply kept_trans; [exact K1|exact K2]|exact S2].
Qed.

(* what add_diagonal leaves in the penalty right after a reset: lam * D'D + diag(w) *)
Theorem add_diagonal_exact (hp : bool) (N : nat) (c : cfg) (u : usys) (w : list Z) :
  (c_d c < N)%nat -> ureset hp N None c = Some u -> length w = N ->
  let u' := add_diagonal u w in
  s_orig (u_sys u') = s_orig (u_sys u) /\
  aeq (s_pen (u_sys u)) (scale (c_lam c) (pad_diagonals (layout (c_d c) N (want_lower hp c) (want_rev hp c))
                                                        (c_pad c) (want_lower hp c))) /\
  forall r j, 0 <= r < nr (s_pen (u_sys u)) -> 0 <= j < Z.of_nat N ->
    get (s_pen (u_sys u')) r j
    = get (s_pen (u_sys u)) r j + (if r =? s_main (u_sys u) then nth (Z.to_nat j) w 0 else 0).
Proof.
  intros Hc Hu Hw. pose proof (ureset_fresh_inv hp N c u Hc Hu) as (_ & HS).
  pose proof (Sep_not_aliased u HS) as Hal.
  unfold ureset, ureset_g in Hu. cbn [option_map] in Hu.
  destruct (reset hp N None c) as [s|] eqn:R; [|discriminate]. injection Hu as <-.
  pose proof (penalty_exact hp N c s Hc R) as Hpen.
  assert (Hnc : nc (s_pen s) = Z.of_nat N).
  { destruct Hpen as (_ & Hc2 & _). rewrite Hc2. cbn [scale nc].
    assert (nc (layout (c_d c) N (want_lower hp c) (want_rev hp c)) = Z.of_nat N)
      by (unfold layout, maybe_rev, spec_bands; destruct (want_rev hp c); reflexivity).
    unfold pad_diagonals. destruct (0 <? c_pad c); [destruct (want_lower hp c)|]; cbn [nc]; assumption. }
  cbv zeta. unfold add_diagonal. cbn [u_sys u_maind]. cbv zeta. rewrite Hnc, Hw, Z.eqb_refl. cbn [orb].
  unfold write_pen. rewrite Hal. cbn [u_sys with_pen s_orig s_pen s_main set_row get].
  split; [reflexivity|]. split; [exact Hpen|]. intros r j Hr Hj.
  destruct (r =? s_main s) eqn:Hrm.
  - assert (r = s_main s) as -> by lia.
    destruct (Z.of_nat N =? 1) eqn:HN1; [|reflexivity].
    assert (j = 0) as -> by lia. reflexivity.
  - lia.
Qed.

(* ---- the same state machine with the multiplication by lam elided for lam = 1 ("multiplying
   by 1 is a no-op"): the history theorem FAILS, because for padding <= 0 the penalty is then the
   original_diagonals object itself and add_diagonal writes into the stored D'D bands ---- *)
Lemma elide_one_refuted :
  let c := {| c_lam := 1; c_d := 2%nat; c_allow_lower := true; c_rev := None; c_allow_penta := false; c_pad := 0 |} in
  exists u0 u1 u2,
    ureset_g elide_one false 6 None c = Some u0 /\
    aliased u0 = true /\
    ureset_g elide_one false 6 (Some (urun_g elide_one false 6 u0 [AddDiag [1; 1; 1; 1; 1; 1]])) c = Some u1 /\
    ureset_g elide_one false 6 None c = Some u2 /\
    tab (s_orig (u_sys u1)) <> tab (s_orig (u_sys u2)) /\ tab (s_pen (u_sys u1)) <> tab (s_pen (u_sys u2)).
Proof.
  cbv zeta. eexists; eexists; eexists.
  split; [vm_compute; reflexivity|]. split; [vm_compute; reflexivity|].
  split; [vm_compute; reflexivity|]. split; [vm_compute; reflexivity|].
  split; vm_compute; discriminate.
Qed.
