(* Proofs about C11/Effects.v: for EVERY order of effects that passes [effects_ok],
   - an accepted request is exactly Uses.ureset (so everything proved about accepted histories applies),
   - a request rejected before the first assignment is a no-op,
   - a request rejected by the lam check after the layout attributes were assigned keeps the penalty,
     lam and the band bookkeeping, and keeps (flags, original_diagonals) CONSISTENT (the invariant),
   - hence every history of accepted and rejected requests, reversals and uses, followed by an accepted
     request, equals the directly built system.
   The strong statement "a rejected request leaves the object unchanged" is refuted for the order of
   /repo 0f85b1f. *)
From Coq Require Import ZArith List Bool Lia ZifyBool String.
From PB Require Import lib.SumZ lib.PySlice lib.Arr C11.DtD C11.Table gen.GenBands C11.Banded
                       C11.History C11.Uses C11.UsesProofs C11.PSplineSys C11.PSplineSysProofs C11.Effects.
Import ListNotations.
Open Scope Z_scope.

(* ---- shape of the accepted orders ---- *)
Lemma flag_eqb_eq a b : flag_eqb a b = true -> a = b.
Proof. destruct a, b; cbn; congruence. Qed.

Lemma effect_eqb_eq a b : effect_eqb a b = true -> a = b.
Proof. destruct a, b; cbn; try congruence. intros H. f_equal. apply flag_eqb_eq, H. Qed.

Lemma effects_eqb_eq a : forall b, effects_eqb a b = true -> a = b.
Proof.
  induction a as [|x a IH]; intros [|y b]; cbn; try congruence.
  intros H. apply andb_true_iff in H as [H1 H2]. f_equal; [apply effect_eqb_eq, H1|apply IH, H2].
Qed.

Definition all_flags (hp : bool) (q : req) (s : sys) : sys :=
  let c := req_cfg q in
  {| s_d := c_d c; s_lower := want_lower hp c; s_rev := want_rev hp c; s_penta := want_penta hp c;
     s_orig := s_orig s; s_pen := s_pen s; s_lam := s_lam s;
     s_num_bands := s_num_bands s; s_main := s_main s |}.

Lemma existsb4 e a b c d :
  existsb (effect_eqb e) [a; b; c; d] = true -> e = a \/ e = b \/ e = c \/ e = d.
Proof.
  cbn [existsb]. rewrite !orb_true_iff. intros [H|[H|[H|[H|H]]]]; try discriminate;
    apply effect_eqb_eq in H; tauto.
Qed.

(* the four flag assignments, in any order, set the four flags *)
Lemma exec_flags hp N q fl rest has u :
  flags_perm fl = true ->
  exec hp N q (fl ++ rest) has u = exec hp N q rest has (set_sys u (all_flags hp q (u_sys u))).
Proof.
  unfold flags_perm. intros H.
  apply andb_true_iff in H as [H H4]. apply andb_true_iff in H as [H H3].
  apply andb_true_iff in H as [H H2]. apply andb_true_iff in H as [H0 H1].
  destruct fl as [|a [|b [|c [|d [|? ?]]]]]; try discriminate. clear H0.
  apply existsb4 in H1, H2, H3, H4.
  destruct u as [s md ob pb nx]. destruct s.
  destruct H1 as [<-|[<-|[<-|<-]]]; destruct H2 as [H2|[H2|[H2|H2]]]; try discriminate H2; try subst;
    destruct H3 as [H3|[H3|[H3|H3]]]; try discriminate H3; try subst;
      destruct H4 as [H4|[H4|[H4|H4]]]; try discriminate H4; try subst; reflexivity.
Qed.

Lemma effects_ok_shape es : effects_ok es = true ->
  exists fl, flags_perm fl = true /\
    (es = ECheckLam :: EOrig :: fl ++ [ESetLam; EPen; EBands] \/
     es = EOrig :: fl ++ [ECheckLam; ESetLam; EPen; EBands]).
Proof.
  unfold effects_ok, tail_ok.
  destruct es as [|e r]; [discriminate|]. destruct e; try discriminate.
  - intros H. apply andb_true_iff in H as [H1 H2]. apply effects_eqb_eq in H2.
    exists (firstn 4 r). split; [exact H1|]. right. rewrite <- H2, firstn_skipn. reflexivity.
  - destruct r as [|e r]; [discriminate|]. destruct e; try discriminate.
    intros H. apply andb_true_iff in H as [H1 H2]. apply effects_eqb_eq in H2.
    exists (firstn 4 r). split; [exact H1|]. left. rewrite <- H2, firstn_skipn. reflexivity.
Qed.

(* ---- what one run of an accepted order computes ---- *)
Definition tail (q : req) (u : usys) : usys :=
  update_bands (eff_pen q (set_sys u (set_lam (q_lam q) (u_sys u)))).

Definition flagged (hp : bool) (q : req) (u : usys) : usys := set_sys u (all_flags hp q (u_sys u)).

Lemma exec_shape hp N q es has u : effects_ok es = true ->
  exec hp N q es has u =
    if checks_first es && negb (lam_ok q) then Raised u
    else match eff_orig hp N q has u with
         | None => Raised u
         | Some u1 => if lam_ok q then Done (tail q (flagged hp q u1)) else Raised (flagged hp q u1)
         end.
Proof.
  intros H. destruct (effects_ok_shape es H) as (fl & Hfl & [-> | ->]); cbn [checks_first andb].
  - cbn [exec]. destruct (lam_ok q); cbn [negb]; [|reflexivity].
    destruct (eff_orig hp N q has u) as [u1|]; [|reflexivity].
    rewrite (exec_flags hp N q fl _ true u1 Hfl). reflexivity.
  - cbn [exec]. destruct (eff_orig hp N q has u) as [u1|]; [|reflexivity].
    rewrite (exec_flags hp N q fl _ true u1 Hfl). cbn [exec].
    destruct (lam_ok q); reflexivity.
Qed.

(* ---- an accepted request is Uses.ureset ---- *)
Lemma req_cfg_d q : 0 <= q_d q -> Z.of_nat (c_d (req_cfg q)) = q_d q.
Proof. intros H. cbn [req_cfg c_d]. lia. Qed.

Lemma dpd_core_rejected N d l : disp_rejects (Z.of_nat N) (Z.of_nat d) = true -> dpd_core N d l = DpdValueError.
Proof. intros H. unfold dpd_core. cbv zeta. rewrite H. reflexivity. Qed.

Lemma exec_valid hp N q es u : effects_ok es = true -> req_valid q = true ->
  exec hp N q es true u =
    match ureset hp N (Some u) (req_cfg q) with Some u' => Done u' | None => Raised u end.
Proof.
  intros Hes Hv. unfold req_valid, order_ok in Hv. apply andb_true_iff in Hv as [Hd Hl].
  rewrite (exec_shape hp N q es true u Hes), Hl. cbn [negb]. rewrite andb_false_r.
  assert (Hlam : 0 <? c_lam (req_cfg q) = true).
  { unfold lam_ok in Hl. apply andb_true_iff in Hl as [_ Hl]. exact Hl. }
  assert (Hdz : Z.of_nat (c_d (req_cfg q)) = q_d q) by (apply req_cfg_d; lia).
  unfold ureset, ureset_g, reset, eff_orig, no_elision. cbn [option_map negb orb]. cbv zeta.
  rewrite Hlam.
  replace (Z.of_nat (s_d (u_sys u)) =? q_d q) with (Nat.eqb (s_d (u_sys u)) (c_d (req_cfg q)))
    by (rewrite <- Hdz; destruct (Nat.eqb_spec (s_d (u_sys u)) (c_d (req_cfg q))); lia).
  rewrite <- Hdz.
  destruct (Nat.eqb (s_d (u_sys u)) (c_d (req_cfg q))) eqn:Heq; cbn [negb orb].
  - (* conversion branch *)
    destruct u as [s md ob pb nx]. destruct s as [d0 lo0 rv0 pt0 og0 pn0 lm0 nb0 mn0]. cbn in Heq |- *.
    destruct (lo0 && negb (want_lower hp (req_cfg q))); reflexivity.
  - (* rebuilt *)
    destruct (disp_rejects (Z.of_nat N) (Z.of_nat (c_d (req_cfg q)))) eqn:Hrej.
    + rewrite (dpd_core_rejected _ _ _ Hrej). reflexivity.
    + destruct (dpd_core N (c_d (req_cfg q)) (want_lower hp (req_cfg q))) as [a| |]; try reflexivity.
      all: destruct u as [s md ob pb nx]; destruct s; reflexivity.
Qed.

(* the constructor run through the same effects is Uses.ureset on no previous object *)
Lemma einit_valid hp N es c : effects_ok es = true ->
  einit hp N es (cfg_req c) = ureset hp N None c.
Proof.
  intros Hes. unfold einit. rewrite (exec_shape hp N (cfg_req c) es false blank Hes).
  assert (Hc : req_cfg (cfg_req c) = c).
  { destruct c. unfold req_cfg, cfg_req. cbn. rewrite Nat2Z.id. reflexivity. }
  unfold lam_ok. cbn [cfg_req q_lam_len q_lam]. rewrite Z.eqb_refl. cbn [andb].
  unfold ureset, ureset_g, reset, eff_orig, no_elision. cbn [option_map negb orb]. cbv zeta.
  rewrite Hc. cbn [cfg_req q_d].
  destruct (0 <? c_lam c) eqn:Hlam; cbn [negb].
  - rewrite andb_false_r.
    destruct (disp_rejects (Z.of_nat N) (Z.of_nat (c_d c))) eqn:Hrej.
    + rewrite (dpd_core_rejected _ _ _ Hrej). reflexivity.
    + destruct (dpd_core N (c_d c) (want_lower hp c)) as [a| |]; try reflexivity.
      unfold tail, flagged, all_flags. rewrite Hc. reflexivity.
  - destruct (checks_first es); cbn [andb].
    + destruct (dpd_core N (c_d c) (want_lower hp c)); reflexivity.
    + destruct (disp_rejects (Z.of_nat N) (Z.of_nat (c_d c))) eqn:Hrej.
      * rewrite (dpd_core_rejected _ _ _ Hrej). reflexivity.
      * destruct (dpd_core N (c_d c) (want_lower hp c)); reflexivity.
Qed.

(* ---- rejected requests ---- *)

(* (a) a request whose diff_order is rejected by diff_penalty_diagonals, and -- when the order checks lam
   before the first assignment -- any rejected request, leaves the object exactly as it was *)
Theorem rejected_noop hp N q es u : effects_ok es = true ->
  order_ok q = false \/ (checks_first es = true /\ lam_ok q = false) ->
  exec hp N q es true u = Raised u.
Proof.
  intros Hes H. rewrite (exec_shape hp N q es true u Hes).
  destruct H as [Hd | [Hc Hl]].
  - unfold order_ok in Hd.
    destruct (checks_first es && negb (lam_ok q)); [reflexivity|].
    unfold eff_orig. cbv zeta. cbn [negb orb].
    replace (Z.of_nat (s_d (u_sys u)) =? q_d q) with false by lia. cbn [negb].
    replace (disp_rejects (Z.of_nat N) (q_d q)) with true by (unfold disp_rejects; lia).
    reflexivity.
  - rewrite Hc, Hl. reflexivity.
Qed.

(* what a request rejected by the lam check AFTER the layout attributes leaves: the attributes the
   penalty is described by are the old ones ... *)
Definition pen_kept (u t : usys) : Prop :=
  s_pen (u_sys t) = s_pen (u_sys u) /\ s_lam (u_sys t) = s_lam (u_sys u) /\
  s_num_bands (u_sys t) = s_num_bands (u_sys u) /\ s_main (u_sys t) = s_main (u_sys u) /\
  u_maind t = u_maind u /\ u_pbuf t = u_pbuf u.

Lemma pen_kept_refl u : pen_kept u u.
Proof. repeat split. Qed.

(* ... and the stored diagonals and the flags that describe them have moved TOGETHER *)
Lemma eff_orig_inv hp N q u u1 :
  UInv N u -> 0 <= q_d q < Z.of_nat N -> eff_orig hp N q true u = Some u1 ->
  UInv N (flagged hp q u1) /\ pen_kept u (flagged hp q u1).
Proof.
  intros [[Hd Ho] (S1 & S2 & S3)] Hq. unfold eff_orig. cbv zeta. cbn [negb orb].
  assert (Hdz : Z.of_nat (c_d (req_cfg q)) = q_d q) by (apply req_cfg_d; lia).
  assert (Hc : (c_d (req_cfg q) < N)%nat) by lia.
  destruct (Z.of_nat (s_d (u_sys u)) =? q_d q) eqn:Heq; cbn [negb].
  - intros [= <-]. assert (Hds : s_d (u_sys u) = c_d (req_cfg q)) by lia.
    split; [split|].
    + split; [exact Hc|]. unfold flagged, all_flags, set_sys, with_pen.
      cbn [u_sys s_d s_orig s_lower s_rev]. rewrite <- Hds. apply convert_layout. split; assumption.
    + unfold Sep, flagged, set_sys. cbn [u_obuf u_pbuf u_next].
      destruct (s_lower (u_sys u) && negb (want_lower hp (req_cfg q))); lia.
    + unfold pen_kept, flagged, all_flags, set_sys, with_pen. cbn. repeat split.
  - destruct (disp_rejects (Z.of_nat N) (q_d q)); [discriminate|].
    destruct (fresh_layout N (c_d (req_cfg q)) (want_lower hp (req_cfg q)) (want_rev hp (req_cfg q)) Hc)
      as (a & Ha & Hal).
    rewrite Ha. intros [= <-]. split; [split|].
    + split; [exact Hc|]. unfold flagged, all_flags, set_sys, with_pen.
      cbn [u_sys s_d s_orig s_lower s_rev]. exact Hal.
    + unfold Sep, flagged, set_sys. cbn [u_obuf u_pbuf u_next]. lia.
    + unfold pen_kept, flagged, all_flags, set_sys, with_pen. cbn. repeat split.
Qed.

(* (b) every rejected request (in the domain diff_order < N) keeps the penalty, lam, the band
   bookkeeping and main_diagonal, and keeps the invariant: original_diagonals is D'D in the layout the
   flags claim, in a buffer of its own *)
Theorem rejected_keeps hp N q es u u' : effects_ok es = true -> UInv N u -> q_d q < Z.of_nat N ->
  exec hp N q es true u = Raised u' -> UInv N u' /\ pen_kept u u'.
Proof.
  intros Hes HI Hq. destruct (order_ok q) eqn:Hd.
  - rewrite (exec_shape hp N q es true u Hes).
    destruct (checks_first es && negb (lam_ok q)).
    { intros [= <-]. split; [exact HI|apply pen_kept_refl]. }
    destruct (eff_orig hp N q true u) as [u1|] eqn:E1.
    + destruct (lam_ok q); [discriminate|]. intros [= <-].
      apply (eff_orig_inv hp N q u u1 HI); [unfold order_ok in Hd; lia|exact E1].
    + intros [= <-]. split; [exact HI|apply pen_kept_refl].
  - rewrite (rejected_noop hp N q es u Hes (or_introl Hd)). intros [= <-].
    split; [exact HI|apply pen_kept_refl].
Qed.

(* ---- histories ---- *)
Definition rop_ok (N : nat) (o : rop) : Prop :=
  match o with RReq q => q_d q < Z.of_nat N | ROp o' => uop_ok N o' end.

Lemma exec_inv hp N q es u : effects_ok es = true -> UInv N u -> q_d q < Z.of_nat N ->
  UInv N (after (exec hp N q es true u)).
Proof.
  intros Hes HI Hq. destruct (exec hp N q es true u) as [u'|u'] eqn:E; cbn [after].
  - (* accepted: only valid requests are *)
    destruct (req_valid q) eqn:Hv.
    + rewrite (exec_valid hp N q es u Hes Hv) in E.
      assert (Hc : (c_d (req_cfg q) < N)%nat).
      { unfold req_valid, order_ok in Hv. cbn [req_cfg c_d]. lia. }
      pose proof (ureset_eq_fresh hp N u (req_cfg q) HI Hc) as H.
      destruct (ureset hp N (Some u) (req_cfg q)) as [u1|]; [|discriminate]. injection E as <-.
      destruct (ureset hp N None (req_cfg q)); [apply H|contradiction].
    + exfalso. rewrite (exec_shape hp N q es true u Hes) in E.
      unfold req_valid in Hv. destruct (order_ok q) eqn:Hd; cbn [andb] in Hv.
      * rewrite Hv in E. cbn [negb] in E. rewrite andb_true_r in E.
        destruct (checks_first es); [discriminate|].
        destruct (eff_orig hp N q true u); discriminate.
      * rewrite <- (exec_shape hp N q es true u Hes) in E.
        rewrite (rejected_noop hp N q es u Hes (or_introl Hd)) in E. discriminate.
  - exact (proj1 (rejected_keeps hp N q es u u' Hes HI Hq E)).
Qed.

Lemma rstep_inv hp N es u o : effects_ok es = true -> UInv N u -> rop_ok N o -> UInv N (rstep hp N es u o).
Proof.
  intros Hes HI Ho. destruct o as [q|o']; cbn [rstep rop_ok] in *.
  - apply exec_inv; assumption.
  - apply ustep_inv; assumption.
Qed.

Lemma rrun_inv hp N es ops : effects_ok es = true -> forall u, UInv N u -> Forall (rop_ok N) ops ->
  UInv N (rrun hp N es u ops).
Proof.
  intros Hes. induction ops as [|o ops IH]; intros u HI Hops; [exact HI|].
  inversion Hops as [|? ? Ho Hrest]; subst. unfold rrun. cbn [fold_left]. apply IH; [|exact Hrest].
  apply rstep_inv; assumption.
Qed.

(* a valid request in the domain is never refused by the directly built system *)
Lemma fresh_accepts hp N q : req_valid q = true -> q_d q < Z.of_nat N ->
  exists u2, ureset hp N None (req_cfg q) = Some u2.
Proof.
  intros Hv Hq. unfold req_valid, order_ok, lam_ok in Hv.
  assert (Hc : (c_d (req_cfg q) < N)%nat) by (cbn [req_cfg c_d]; lia).
  destruct (fresh_layout N (c_d (req_cfg q)) (want_lower hp (req_cfg q)) (want_rev hp (req_cfg q)) Hc)
    as (a & Ha & _).
  unfold ureset, ureset_g, reset. cbn [option_map]. cbv zeta. rewrite Ha.
  replace (0 <? c_lam (req_cfg q)) with true by (cbn [req_cfg c_lam]; lia).
  eexists. reflexivity.
Qed.

(* C11_history_with_rejected: a system built with any settings, after ANY history of requests that may
   be REJECTED (each leaving whatever the effects before the raising statement assigned), accepted
   resets, reversals and uses, then given a valid request q: q is accepted, and the result is the system
   built directly with q (contents, flags, band bookkeeping, main_diagonal, no shared memory) whose
   stored diagonals are D'D in the layout its flags claim. *)
Theorem history_with_rejected hp N es c0 ops q u0 :
  effects_ok es = true ->
  (c_d c0 < N)%nat -> Forall (rop_ok N) ops -> req_valid q = true -> q_d q < Z.of_nat N ->
  ureset hp N None c0 = Some u0 ->
  exists u1 u2,
    exec hp N q es true (rrun hp N es u0 ops) = Done u1 /\
    ureset hp N None (req_cfg q) = Some u2 /\ usys_eq u1 u2 /\ UInv N u1.
Proof.
  intros Hes H0 Hops Hv Hq Hu0.
  pose proof (rrun_inv hp N es ops Hes u0 (ureset_fresh_inv hp N c0 u0 H0 Hu0) Hops) as HI.
  rewrite (exec_valid hp N q es _ Hes Hv).
  assert (Hc : (c_d (req_cfg q) < N)%nat).
  { unfold req_valid, order_ok in Hv. cbn [req_cfg c_d]. lia. }
  pose proof (ureset_eq_fresh hp N _ (req_cfg q) HI Hc) as H.
  destruct (fresh_accepts hp N q Hv Hq) as (u2 & E2). rewrite E2 in H.
  destruct (ureset hp N (Some (rrun hp N es u0 ops)) (req_cfg q)) as [u1|]; [|contradiction].
  exists u1, u2. split; [reflexivity|]. split; [exact E2|exact H].
Qed.

(* the state reached by ANY such history (also one that ends with a rejected request) has its stored
   diagonals equal to D'D in the layout its flags claim, in a buffer separate from the penalty *)
Theorem rejected_never_desync hp N es c0 ops u0 :
  effects_ok es = true ->
  (c_d c0 < N)%nat -> Forall (rop_ok N) ops -> ureset hp N None c0 = Some u0 ->
  let s := u_sys (rrun hp N es u0 ops) in
  aliased (rrun hp N es u0 ops) = false /\
  aeq (s_orig s) (layout (s_d s) N (s_lower s) (s_rev s)).
Proof.
  intros Hes H0 Hops Hu0. cbv zeta.
  destruct (rrun_inv hp N es ops Hes u0 (ureset_fresh_inv hp N c0 u0 H0 Hu0) Hops) as ((_ & Ho) & HS).
  split; [apply Sep_not_aliased, HS|exact Ho].
Qed.

(* ---- PSpline ---- *)
Definition prop_ok (nb : nat) (o : prop_) : Prop :=
  match o with PRReq p => pq_d p < Z.of_nat nb | PROp o' => pop_ok nb o' end.

Lemma pstep_inv hp nb deg u o : UInv nb u -> pop_ok nb o -> UInv nb (pstep hp nb deg u o).
Proof.
  intros HI Ho. destruct o as [p| |o']; cbn [pstep pop_ok] in *.
  - apply ustep_inv; [exact HI|exact Ho].
  - exact HI.
  - apply ustep_inv; assumption.
Qed.

Lemma prrun_inv hp nb deg es ops : effects_ok es = true -> forall u, UInv nb u -> Forall (prop_ok nb) ops ->
  UInv nb (prrun hp nb deg es u ops).
Proof.
  intros Hes. induction ops as [|o ops IH]; intros u HI Hops; [exact HI|].
  inversion Hops as [|? ? Ho Hrest]; subst. unfold prrun. cbn [fold_left]. apply IH; [|exact Hrest].
  destruct o as [p|o']; cbn [prstep prop_ok] in *.
  - apply exec_inv; [exact Hes|exact HI|exact Ho].
  - apply pstep_inv; assumption.
Qed.

Definition preq_pcfg (p : preq) : pcfg :=
  {| p_lam := pq_lam p; p_d := Z.to_nat (pq_d p); p_allow_lower := pq_allow_lower p; p_rev := pq_rev p |}.

(* C11_pspline_history_with_rejected: a PSpline, after any history of reset_penalty_diagonals requests
   that may be rejected, accepted resets, solves and uses, then given a valid request p (lam > 0,
   1 <= diff_order < number of basis functions): p is accepted and the result is the PSpline constructed
   directly with p. *)
Theorem pspline_history_with_rejected hp nb deg es p0 ops p u0 :
  effects_ok es = true ->
  Forall (prop_ok nb) ops -> req_valid (preq_req deg p) = true -> 1 <= pq_d p < Z.of_nat nb ->
  pinit hp nb deg p0 = Some u0 ->
  exists u1 u2,
    exec hp nb (preq_req deg p) es true (prrun hp nb deg es u0 ops) = Done u1 /\
    pinit hp nb deg (preq_pcfg p) = Some u2 /\ usys_eq u1 u2 /\ UInv nb u1.
Proof.
  intros Hes Hops Hv Hp H0. destruct (pinit_ureset hp nb deg p0 u0 H0) as [Hd0 Hu0].
  assert (HI0 : UInv nb u0).
  { apply (ureset_fresh_inv hp nb (pcfg_cfg deg p0) u0); [cbn [pcfg_cfg c_d]; lia|exact Hu0]. }
  pose proof (prrun_inv hp nb deg es ops Hes u0 HI0 Hops) as HI.
  set (q := preq_req deg p) in *.
  assert (Hq : q_d q < Z.of_nat nb) by (unfold q; cbn [preq_req q_d]; lia).
  rewrite (exec_valid hp nb q es _ Hes Hv).
  assert (Hc : (c_d (req_cfg q) < nb)%nat) by (unfold q; cbn [req_cfg preq_req c_d q_d]; lia).
  pose proof (ureset_eq_fresh hp nb _ (req_cfg q) HI Hc) as H.
  destruct (fresh_accepts hp nb q Hv Hq) as (u2 & E2). rewrite E2 in H.
  destruct (ureset hp nb (Some (prrun hp nb deg es u0 ops)) (req_cfg q)) as [u1|]; [|contradiction].
  exists u1, u2. split; [reflexivity|]. split; [|exact H].
  rewrite pinit_valid by (unfold preq_pcfg; cbn [p_d]; lia).
  replace (pcfg_cfg deg (preq_pcfg p)) with (req_cfg q); [exact E2|].
  unfold q, req_cfg, preq_req, pcfg_cfg, preq_pcfg. cbn. f_equal. lia.
Qed.

(* ---- the strong statement is false for the order of /repo 0f85b1f ---- *)
Definition ex_c0 : cfg := {| c_lam := 1; c_d := 2%nat; c_allow_lower := true; c_rev := None; c_allow_penta := false; c_pad := 0 |}.
Definition ex_bad : req := {| q_lam := 0; q_lam_len := 1; q_d := 2; q_allow_lower := false; q_rev := None;
                              q_allow_penta := false; q_pad := 0 |}.

Lemma strong_noop_refuted :
  match ureset false 8 None ex_c0 with
  | Some u0 =>
      match exec false 8 ex_bad order_0f85b1f true u0 with
      | Raised u' =>
          s_lower (u_sys u0) = true /\ s_lower (u_sys u') = false /\
          nr (s_orig (u_sys u0)) = 3 /\ nr (s_orig (u_sys u')) = 5 /\ nr (s_pen (u_sys u')) = 3 /\
          uobserve u' <> uobserve u0
      | Done _ => False
      end
  | None => False
  end.
Proof. vm_compute. repeat (split; [reflexivity|]). discriminate. Qed.

(* ---- other mutators: soundness of [strongly_safe] ---- *)
Lemma dirty_at_raise_app seen a b :
  dirty_at_raise seen (a ++ b) =
  dirty_at_raise seen a ++ dirty_at_raise (seen ++ flat_map (fun e => match e with Assigns x => [x] | _ => [] end) a) b.
Proof.
  revert seen. induction a as [|e a IH]; intros seen; cbn [app dirty_at_raise flat_map].
  - rewrite app_nil_r. reflexivity.
  - destruct e as [w|x].
    + rewrite IH, <- app_assoc. reflexivity.
    + rewrite IH, <- app_assoc. reflexivity.
Qed.

(* if the events of a method pass the check, then at EVERY raising statement no attribute of self has
   been assigned yet: an exception leaves the object as it was *)
Theorem strongly_safe_sound evs : strongly_safe evs = true ->
  forall pre w post, evs = pre ++ Raises w :: post -> forall a, ~ In (Assigns a) pre.
Proof.
  unfold strongly_safe. intros H pre w post -> a Hin.
  rewrite dirty_at_raise_app in H. cbn [app] in H.
  apply in_split in Hin as (p1 & p2 & ->).
  rewrite flat_map_app in H. cbn [flat_map app dirty_at_raise] in H.
  destruct (dirty_at_raise [] (p1 ++ Assigns a :: p2)); [|discriminate].
  cbn [app] in H.
  destruct (flat_map _ p1); cbn in H; discriminate.
Qed.

(* ==== orders that validate BEFORE the first assignment (the current source, after d644348) ==== *)

(* C11_reset_rejected_noop: every rejected request -- lam <= 0, a non-scalar lam, diff_order < 0 -- leaves
   the WHOLE object (every field, Leibniz-equal) as it was *)
Theorem rejected_noop_strong hp N q es u : effects_ok es = true -> checks_first es = true ->
  req_valid q = false -> exec hp N q es true u = Raised u.
Proof.
  intros Hes Hcf Hv. apply rejected_noop; [exact Hes|].
  unfold req_valid in Hv. destruct (order_ok q); [right|left; reflexivity].
  split; [exact Hcf|exact Hv].
Qed.

(* a history with rejected requests IS the history with them deleted *)
Definition erase (o : rop) : list uop :=
  match o with
  | RReq q => if req_valid q then [UReset (req_cfg q)] else []
  | ROp o' => [o']
  end.

Lemma rstep_erase hp N es u o : effects_ok es = true -> checks_first es = true ->
  rstep hp N es u o = urun hp N u (erase o).
Proof.
  intros Hes Hcf. destruct o as [q|o']; cbn [rstep erase]; [|reflexivity].
  destruct (req_valid q) eqn:Hv.
  - rewrite (exec_valid hp N q es u Hes Hv). unfold urun, urun_g, ustep_g. cbn [fold_left].
    unfold ureset. destruct (ureset_g no_elision hp N (Some u) (req_cfg q)); reflexivity.
  - rewrite (rejected_noop_strong hp N q es u Hes Hcf Hv). reflexivity.
Qed.

Theorem rrun_erase hp N es ops : effects_ok es = true -> checks_first es = true ->
  forall u, rrun hp N es u ops = urun hp N u (flat_map erase ops).
Proof.
  intros Hes Hcf. induction ops as [|o ops IH]; intros u; [reflexivity|].
  unfold rrun. cbn [fold_left flat_map]. fold (rrun hp N es (rstep hp N es u o) ops).
  rewrite IH, urun_app, (rstep_erase hp N es u o Hes Hcf). reflexivity.
Qed.

(* the last accepted request of a sequence of requests *)
Definition last_valid (q0 : req) (qs : list req) : req :=
  fold_left (fun acc q => if req_valid q then q else acc) qs q0.

Lemma usys_eq_refl u : usys_eq u u.
Proof.
  unfold usys_eq, sys_eq. repeat split; try reflexivity; apply aeq_refl.
Qed.

Lemma requests_history_gen hp N es qs : effects_ok es = true -> checks_first es = true ->
  forall acc u u2, Forall (fun q => q_d q < Z.of_nat N) qs ->
    UInv N u -> ureset hp N None (req_cfg acc) = Some u2 -> usys_eq u u2 ->
    exists u3, ureset hp N None (req_cfg (last_valid acc qs)) = Some u3 /\
               usys_eq (rrun hp N es u (map RReq qs)) u3 /\ UInv N (rrun hp N es u (map RReq qs)).
Proof.
  intros Hes Hcf. induction qs as [|q qs IH]; intros acc u u2 Hqs HI E2 Heq.
  - exists u2. split; [exact E2|]. split; [exact Heq|exact HI].
  - inversion Hqs as [|? ? Hq Hrest]; subst.
    unfold last_valid, rrun. cbn [fold_left map rstep].
    fold (last_valid (if req_valid q then q else acc) qs).
    fold (rrun hp N es (after (exec hp N q es true u)) (map RReq qs)).
    destruct (req_valid q) eqn:Hv.
    + rewrite (exec_valid hp N q es u Hes Hv).
      assert (Hc : (c_d (req_cfg q) < N)%nat).
      { unfold req_valid, order_ok in Hv. cbn [req_cfg c_d]. lia. }
      pose proof (ureset_eq_fresh hp N u (req_cfg q) HI Hc) as H.
      destruct (fresh_accepts hp N q Hv Hq) as (uq & Eq). rewrite Eq in H.
      destruct (ureset hp N (Some u) (req_cfg q)) as [u1|]; [|contradiction]. cbn [after].
      destruct H as [H1 H2]. exact (IH q u1 uq Hrest H2 Eq H1).
    + rewrite (rejected_noop_strong hp N q es u Hes Hcf Hv). cbn [after].
      exact (IH acc u u2 Hrest HI E2 Heq).
Qed.

(* C11_requests_history: a system built with a valid request q0 and then given ANY sequence of requests,
   each accepted or rejected, is AT THE END (no closing reset needed) the system built directly with the
   last accepted request *)
Theorem requests_history hp N es q0 qs u0 : effects_ok es = true -> checks_first es = true ->
  q_d q0 < Z.of_nat N -> Forall (fun q => q_d q < Z.of_nat N) qs ->
  einit hp N es q0 = Some u0 ->
  exists u3, ureset hp N None (req_cfg (last_valid q0 qs)) = Some u3 /\
             usys_eq (rrun hp N es u0 (map RReq qs)) u3 /\ UInv N (rrun hp N es u0 (map RReq qs)).
Proof.
  intros Hes Hcf Hq0 Hqs H0.
  assert (Hv0 : req_valid q0 = true).
  { destruct (req_valid q0) eqn:Hv; [reflexivity|]. exfalso. unfold einit in H0.
    rewrite (exec_shape hp N q0 es false blank Hes), Hcf in H0. unfold req_valid in Hv.
    destruct (lam_ok q0) eqn:Hl; cbn [andb negb] in H0; [|discriminate].
    rewrite andb_true_r in Hv. unfold order_ok in Hv.
    unfold eff_orig in H0. cbv zeta in H0. cbn [negb orb] in H0.
    replace (disp_rejects (Z.of_nat N) (q_d q0)) with true in H0 by (unfold disp_rejects; lia).
    discriminate. }
  assert (E0 : ureset hp N None (req_cfg q0) = Some u0).
  { unfold einit in H0. rewrite (exec_shape hp N q0 es false blank Hes) in H0.
    unfold req_valid in Hv0. apply andb_true_iff in Hv0 as [Hd Hl]. rewrite Hl in H0.
    cbn [negb] in H0. rewrite andb_false_r in H0.
    unfold ureset, ureset_g, reset, no_elision. cbn [option_map]. cbv zeta.
    unfold eff_orig in H0. cbv zeta in H0. cbn [negb orb] in H0.
    assert (Hdz : Z.of_nat (c_d (req_cfg q0)) = q_d q0) by (apply req_cfg_d; unfold order_ok in Hd; lia).
    rewrite <- Hdz in H0.
    replace (0 <? c_lam (req_cfg q0)) with true by (unfold lam_ok in Hl; cbn [req_cfg c_lam]; lia).
    destruct (disp_rejects (Z.of_nat N) (Z.of_nat (c_d (req_cfg q0)))) eqn:Hrej; [discriminate|].
    destruct (dpd_core N (c_d (req_cfg q0)) (want_lower hp (req_cfg q0))) as [a| |]; try discriminate.
    injection H0 as <-. reflexivity. }
  assert (Hc0 : (c_d (req_cfg q0) < N)%nat).
  { unfold req_valid, order_ok in Hv0. cbn [req_cfg c_d]. lia. }
  exact (requests_history_gen hp N es qs Hes Hcf q0 u0 u0 Hqs
           (ureset_fresh_inv hp N (req_cfg q0) u0 Hc0 E0) E0 (usys_eq_refl u0)).
Qed.
