(* Executable model of pybaselines/_banded_utils.py: diff_penalty_diagonals, _pad_diagonals,
   _shift_rows, _lower_to_full and the PenalizedSystem reconfiguration state machine.
   No proofs here (they are in C11/History.v) so the model still runs when a proof breaks. *)
From Coq Require Import ZArith List Bool Lia ZifyBool.
From PB Require Import lib.SumZ lib.PySlice lib.Arr C11.DtD C11.Table gen.GenBands.
Import ListNotations.
Open Scope Z_scope.

(* specification: LAPACK bands (lower: row r = band r; full: row rho = band rho - d) of D'D *)
Definition spec_bands (d N : nat) (lower : bool) : arr :=
  mkarr (if lower then Z.of_nat d + 1 else 2 * Z.of_nat d + 1) (Z.of_nat N) (band_spec d N lower).

Fixpoint lookup (d : Z) (l : list (Z * table)) : option table :=
  match l with
  | [] => None
  | (k, t) :: l' => if k =? d then Some t else lookup d l'
  end.

Definition table_arr (t : table) (N : nat) (lower : bool) : arr :=
  mkarr (t_rows t lower) (Z.of_nat N) (eval t lower (Z.of_nat N)).

(* _pad_diagonals *)
Definition pad_diagonals (a : arr) (padding : Z) (lower_only : bool) : arr :=
  if 0 <? padding then
    if lower_only then mkarr (nr a + padding) (nc a) (fun r c => if r <? nr a then get a r c else 0)
    else mkarr (nr a + 2 * padding) (nc a)
           (fun r c => if (padding <=? r) && (r <? padding + nr a) then get a (r - padding) c else 0)
  else a.

Inductive dpd_result := DpdOk (a : arr) | DpdValueError | DpdKeyError.

(* diff_penalty_diagonals(data_size, diff_order, lower_only) before padding.
   The general path (scipy.sparse D.T @ D through _sparse_to_banded) is modelled as the
   specification itself: that path is library code (trusted, dense-checked by the harness). *)
Definition dpd_core (N d : nat) (lower : bool) : dpd_result :=
  let Nz := Z.of_nat N in let dz := Z.of_nat d in
  if disp_rejects Nz dz then DpdValueError
  else if disp_identity Nz dz then DpdOk (mkarr 1 Nz (fun _ _ => 1))
  else if disp_general Nz dz then DpdOk (spec_bands d N lower)
  else match lookup dz disp_tables with
       | Some t => DpdOk (table_arr t N lower)
       | None => DpdKeyError
       end.

Definition dpd (N d : nat) (lower : bool) (padding : Z) : dpd_result :=
  match dpd_core N d lower with
  | DpdOk a => DpdOk (pad_diagonals a padding lower)
  | e => e
  end.

(* _shift_rows(matrix, upper_diagonals, lower_diagonals), closed form of the two loops *)
Definition shift_upper (a : arr) (upper : Z) : arr :=
  mkarr (nr a) (nc a) (fun r c =>
    if r <? upper then let s := upper - r in if c <? s then 0 else get a r (c - s)
    else get a r c).
Definition shift_lower (a : arr) (lower : Z) : arr :=
  mkarr (nr a) (nc a) (fun r c =>
    let p := nr a - r in           (* pos_row: 1 for the last row *)
    if p <=? lower then let s := lower - p + 1 in if c <? nc a - s then get a r (c + s) else 0
    else get a r c).
Definition shift_rows (a : arr) (upper lower : Z) : arr := shift_lower (shift_upper a upper) lower.

(* _lower_to_full *)
Definition lower_to_full (ab : arr) : arr :=
  let R := nr ab in
  let pre := mkarr (2 * R - 1) (nc ab)
               (fun r c => if r <? R - 1 then get ab (R - 1 - r) c else get ab (r - (R - 1)) c) in
  shift_rows pre (R - 1) 0.

(* ---- PenalizedSystem ---- *)
Record cfg := { c_lam : Z; c_d : nat; c_allow_lower : bool; c_rev : option bool;
                c_allow_penta : bool; c_pad : Z }.

Record sys := { s_d : nat; s_lower : bool; s_rev : bool; s_penta : bool;
                s_orig : arr; s_pen : arr; s_lam : Z; s_num_bands : Z; s_main : Z }.

Definition want_penta (has_penta : bool) (c : cfg) : bool :=
  c_allow_penta c && has_penta && (Z.of_nat (c_d c) =? 2).
Definition want_lower (has_penta : bool) (c : cfg) : bool :=
  c_allow_lower c && negb (want_penta has_penta c).
Definition want_rev (has_penta : bool) (c : cfg) : bool :=
  match c_rev c with Some b => b | None => want_penta has_penta c end.

Definition maybe_rev (b : bool) (a : arr) : arr := if b then rev_rows a else a.

(* the else-branch of reset_diagonals: convert the stored diagonals between layouts *)
Definition convert (s : sys) (lower_only needs_reversed : bool) : arr :=
  let o0 := if s_rev s then rev_rows (s_orig s) else s_orig s in
  let o1 := if s_lower s && negb lower_only then lower_to_full o0
            else if negb (s_lower s) && lower_only then drop_rows (Z.of_nat (s_d s)) o0
            else o0 in
  if needs_reversed then rev_rows o1 else o1.

Definition finish (d : nat) (lower_only rev penta : bool) (orig : arr) (lam padding : Z) : sys :=
  let pen := scale lam (pad_diagonals orig padding lower_only) in
  let nb := if lower_only then nr pen - 1 else nr pen / 2 in
  {| s_d := d; s_lower := lower_only; s_rev := rev; s_penta := penta; s_orig := orig;
     s_pen := pen; s_lam := lam; s_num_bands := nb; s_main := if lower_only then 0 else nb |}.

(* reset_diagonals; None = the call raised (state is then left as it was by the caller) *)
Definition reset (has_penta : bool) (N : nat) (prev : option sys) (c : cfg) : option sys :=
  let penta := want_penta has_penta c in
  let lower_only := want_lower has_penta c in
  let rev := want_rev has_penta c in
  let fresh :=
    match dpd_core N (c_d c) lower_only with
    | DpdOk a => Some (maybe_rev rev a)
    | _ => None
    end in
  let orig :=
    match prev with
    | None => fresh
    | Some s => if negb (Nat.eqb (s_d s) (c_d c)) then fresh else Some (convert s lower_only rev)
    end in
  match orig with
  | Some o => if 0 <? c_lam c then Some (finish (c_d c) lower_only rev penta o (c_lam c) (c_pad c))
              else None
  | None => None
  end.

Inductive op := Reset (c : cfg) | Reverse.

(* reverse_penalty: raises (state unchanged) when lower *)
Definition reverse_penalty (s : sys) : sys :=
  if s_lower s then s
  else {| s_d := s_d s; s_lower := s_lower s; s_rev := negb (s_rev s); s_penta := s_penta s;
          s_orig := rev_rows (s_orig s); s_pen := rev_rows (s_pen s); s_lam := s_lam s;
          s_num_bands := s_num_bands s; s_main := s_main s |}.

Definition step (has_penta : bool) (N : nat) (s : sys) (o : op) : sys :=
  match o with
  | Reset c => match reset has_penta N (Some s) c with Some s' => s' | None => s end
  | Reverse => reverse_penalty s
  end.

Definition run (has_penta : bool) (N : nat) (s : sys) (ops : list op) : sys :=
  fold_left (step has_penta N) ops s.

(* observable state, for the correspondence check *)
Definition observe (s : sys) :=
  (Z.of_nat (s_d s), s_lower s, s_rev s, s_penta s, s_num_bands s, s_main s,
   tab (s_orig s), tab (s_pen s)).
