(* Executable model of pybaselines/_banded_utils.py: diff_penalty_diagonals, _pad_diagonals,
   _shift_rows, _lower_to_full and the PenalizedSystem reconfiguration state machine.
   No proofs here (they are in C11/History.v) so the model still runs when a proof breaks. *)
From Coq Require Import ZArith List Bool Lia ZifyBool.
From PB Require Import lib.SumZ lib.PySlice lib.Arr C11.DtD C11.Table gen.GenBands.
Import ListNotations.
Open Scope Z_scope.

(* specification: LAPACK bands (lower: row r = band r; full: row rho = band rho - d) of D'D *)
Definition spec_bands (d N : nat) (lower : bool) : arr :=
  mkarr (if lower then Z.of_nat d + 1 else 2 * Z.of_nat d + 1) (Z.of_nat N) (band_spec d N lower).

Fixpoint lookup (d : Z) (l : list (Z * table)) : option table :=
  match l with
  | [] => None
  | (k, t) :: l' => if k =? d then Some t else lookup d l'
  end.

Definition table_arr (t : table) (N : nat) (lower : bool) : arr :=
  mkarr (t_rows t lower) (Z.of_nat N) (eval t lower (Z.of_nat N)).

(* _pad_diagonals *)
Definition pad_diagonals (a : arr) (padding : Z) (lower_only : bool) : arr :=
  if 0 <? padding then
    if lower_only then mkarr (nr a + padding) (nc a) (fun r c => if r <? nr a then get a r c else 0)
    else mkarr (nr a + 2 * padding) (nc a)
           (fun r c => if (padding <=? r) && (r <? padding + nr a) then get a (r - padding) c else 0)
  else a.

Inductive dpd_result := DpdOk (a : arr) | DpdValueError | DpdKeyError.

(* diff_penalty_diagonals(data_size, diff_order, lower_only) before padding.
   The general path (scipy.sparse D.T @ D through _sparse_to_banded) is modelled as the
   specification itself: that path is library code (trusted, dense-checked by the harness). *)
Definition dpd_core (N d : nat) (lower : bool) : dpd_result :=
  let Nz := Z.of_nat N in let dz := Z.of_nat d in
  if disp_rejects Nz dz then DpdValueError
  else if disp_identity Nz dz then DpdOk (mkarr 1 Nz (fun _ _ => 1))
  else if disp_general Nz dz then DpdOk (spec_bands d N lower)
  else match lookup dz disp_tables with
       | Some t => DpdOk (table_arr t N lower)
       | None => DpdKeyError
       end.

Definition dpd (N d : nat) (lower : bool) (padding : Z) : dpd_result :=
  match dpd_core N d lower with
  | DpdOk a => DpdOk (pad_diagonals a padding lower)
  | e => e
  end.

(* _shift_rows(matrix, upper_diagonals, lower_diagonals), closed form of the two loops *)
Definition shift_upper (a : arr) (upper : Z) : arr :=
  mkarr (nr a) (nc a) (fun r c =>
    if r <? upper then let s := upper - r in if c <? s then 0 else get a r (c - s)
    else get a r c).
Definition shift_lower (a : arr) (lower : Z) : arr :=
  mkarr (nr a) (nc a) (fun r c =>
    let p := nr a - r in           (* pos_row: 1 for the last row *)
    if p <=? lower then let s := lower - p + 1 in if c <? nc a - s then get a r (c + s) else 0
    else get a r c).
Definition shift_rows (a : arr) (upper lower : Z) : arr := shift_lower (shift_upper a upper) lower.

(* _lower_to_full *)
Definition lower_to_full (ab : arr) : arr :=
  let R := nr ab in
  let pre := mkarr (2 * R - 1) (nc ab)
               (fun r c => if r <? R - 1 then get ab (R - 1 - r) c else get ab (r - (R - 1)) c) in
  shift_rows pre (R - 1) 0.

(* list-of-rows literal -> array (for operation arguments and the correspondence) *)
Definition of_rows (l : list (list Z)) : arr :=
  mkarr (Z.of_nat (length l)) (Z.of_nat (length (hd [] l)))
        (fun r c => nth (Z.to_nat c) (nth (Z.to_nat r) l []) 0).

(* _add_diagonals(array_1, array_2, lower_only) on 2-D inputs; None = ValueError *)
Definition add_arr (a b : arr) : arr := mkarr (nr a) (nc a) (fun r c => get a r c + get b r c).
Definition pad_rows (a : arr) (top bottom : Z) : arr :=
  mkarr (top + nr a + bottom) (nc a)
        (fun r c => if (top <=? r) && (r <? top + nr a) then get a (r - top) c else 0).
Definition add_diagonals (a b : arr) (lower_only : bool) : option arr :=
  if negb (nc a =? nc b) then None
  else
    let mm := nr a - nr b in
    if mm =? 0 then Some (add_arr a b)
    else
      let am := Z.abs mm in
      if lower_only then
        (if 0 <? mm then Some (add_arr a (pad_rows b 0 am)) else Some (add_arr (pad_rows a 0 am) b))
      else if Z.odd am then None
      else
        let h := am / 2 in
        if 0 <? mm then Some (add_arr a (pad_rows b h h)) else Some (add_arr (pad_rows a h h) b).

Definition set_row (a : arr) (i : Z) (f : Z -> Z) : arr :=
  mkarr (nr a) (nc a) (fun r c => if r =? i then f c else get a r c).

(* ---- PenalizedSystem ---- *)
Record cfg := { c_lam : Z; c_d : nat; c_allow_lower : bool; c_rev : option bool;
                c_allow_penta : bool; c_pad : Z }.

(* The two array attributes are modelled as CONTENT plus the IDENTITY of the memory buffer the
   attribute refers to: [s_obuf] / [s_pbuf] are buffer ids of original_diagonals / penalty, [s_next]
   is the next unused id.  A NumPy operation that allocates (diff_penalty_diagonals, np.concatenate,
   _lower_to_full, every binary operation such as lam * a or a + b, .copy()) takes a fresh id; a view
   (a[::-1], a[k:]) or returning the argument itself (_pad_diagonals with padding <= 0) keeps the id.
   penalty and original_diagonals share memory iff the ids are equal; an in-place write through
   penalty is then also a write into original_diagonals (see [write_pen]).
   [s_maind] is main_diagonal (a .copy() of the main-diagonal row made by _update_bands). *)
Record sys := { s_d : nat; s_lower : bool; s_rev : bool; s_penta : bool;
                s_orig : arr; s_pen : arr; s_lam : Z; s_num_bands : Z; s_main : Z;
                s_maind : Z -> Z; s_obuf : Z; s_pbuf : Z; s_next : Z }.

Definition aliased (s : sys) : bool := s_pbuf s =? s_obuf s.

Definition want_penta (has_penta : bool) (c : cfg) : bool :=
  c_allow_penta c && has_penta && (Z.of_nat (c_d c) =? 2).
Definition want_lower (has_penta : bool) (c : cfg) : bool :=
  c_allow_lower c && negb (want_penta has_penta c).
Definition want_rev (has_penta : bool) (c : cfg) : bool :=
  match c_rev c with Some b => b | None => want_penta has_penta c end.

Definition maybe_rev (b : bool) (a : arr) : arr := if b then rev_rows a else a.

(* the else-branch of reset_diagonals: convert the stored diagonals between layouts *)
Definition convert (s : sys) (lower_only needs_reversed : bool) : arr :=
  let o0 := if s_rev s then rev_rows (s_orig s) else s_orig s in
  let o1 := if s_lower s && negb lower_only then lower_to_full o0
            else if negb (s_lower s) && lower_only then drop_rows (Z.of_nat (s_d s)) o0
            else o0 in
  if needs_reversed then rev_rows o1 else o1.
(* ... and the buffer the converted diagonals live in: only _lower_to_full allocates *)
Definition convert_allocates (s : sys) (lower_only : bool) : bool := s_lower s && negb lower_only.

(* the tail of reset_diagonals:
     self.penalty = self.lam * _pad_diagonals(self.original_diagonals, padding, self.lower)
     self._update_bands()
   [elide lam] = true would mean "the multiplication by lam is skipped for this lam" (then penalty
   is whatever _pad_diagonals returned: for padding <= 0 the original_diagonals object itself).
   The code multiplies always: [finish] below is [finish_g (fun _ => false)]. *)
Definition finish_g (elide : Z -> bool) (d : nat) (lower_only rev penta : bool) (orig : arr)
    (obuf next : Z) (lam padding : Z) : sys :=
  let padded := pad_diagonals orig padding lower_only in
  let padbuf := if 0 <? padding then next else obuf in
  let next1 := if 0 <? padding then next + 1 else next in
  let pen := if elide lam then padded else scale lam padded in
  let pbuf := if elide lam then padbuf else next1 in
  let next2 := if elide lam then next1 else next1 + 1 in
  let nb := if lower_only then nr pen - 1 else nr pen / 2 in
  let mi := if lower_only then 0 else nb in
  {| s_d := d; s_lower := lower_only; s_rev := rev; s_penta := penta; s_orig := orig;
     s_pen := pen; s_lam := lam; s_num_bands := nb; s_main := mi;
     s_maind := fun c => get pen mi c; s_obuf := obuf; s_pbuf := pbuf; s_next := next2 |}.

(* reset_diagonals; None = the call raised (state is then left as it was by the caller) *)
Definition reset_g (elide : Z -> bool) (has_penta : bool) (N : nat) (prev : option sys) (c : cfg)
  : option sys :=
  let penta := want_penta has_penta c in
  let lower_only := want_lower has_penta c in
  let rev := want_rev has_penta c in
  let next0 := match prev with Some s => s_next s | None => 0 end in
  let fresh :=
    match dpd_core N (c_d c) lower_only with
    | DpdOk a => Some (maybe_rev rev a, next0, next0 + 1)
    | _ => None
    end in
  let orig :=
    match prev with
    | None => fresh
    | Some s => if negb (Nat.eqb (s_d s) (c_d c)) then fresh
                else Some (convert s lower_only rev,
                           (if convert_allocates s lower_only then next0 else s_obuf s),
                           (if convert_allocates s lower_only then next0 + 1 else next0))
    end in
  match orig with
  | Some (o, obuf, next) =>
      if 0 <? c_lam c
      then Some (finish_g elide (c_d c) lower_only rev penta o obuf next (c_lam c) (c_pad c))
      else None
  | None => None
  end.

Definition no_elision (_ : Z) : bool := false.
Definition finish := finish_g no_elision.
Definition reset := reset_g no_elision.

(* Operations on a system: the two reconfigurations, and every way the code writes self.penalty:
   add_diagonal (in place), add_penalty (re-binds to a new array + _update_bands), an in-place
   overwrite of the array that add_diagonal returned (solve(..., overwrite_ab=True) hands it to
   LAPACK, which stores the factorisation in it), and re-binding the attribute (mpspline). *)
Inductive op :=
  | Reset (c : cfg)
  | Reverse
  | AddDiag (w : list Z)
  | AddPen (p : list (list Z))
  | Clobber (v : list (list Z))
  | SetPen (v : list (list Z)).

(* reverse_penalty: raises (state unchanged) when lower; [::-1] are views (same buffers);
   main_diagonal / num_bands are not touched *)
Definition reverse_penalty (s : sys) : sys :=
  if s_lower s then s
  else {| s_d := s_d s; s_lower := s_lower s; s_rev := negb (s_rev s); s_penta := s_penta s;
          s_orig := rev_rows (s_orig s); s_pen := rev_rows (s_pen s); s_lam := s_lam s;
          s_num_bands := s_num_bands s; s_main := s_main s;
          s_maind := s_maind s; s_obuf := s_obuf s; s_pbuf := s_pbuf s; s_next := s_next s |}.

(* an in-place write through self.penalty: the new content is seen through every attribute that
   refers to the same buffer *)
Definition write_pen (s : sys) (p : arr) : sys :=
  {| s_d := s_d s; s_lower := s_lower s; s_rev := s_rev s; s_penta := s_penta s;
     s_orig := if aliased s then p else s_orig s; s_pen := p; s_lam := s_lam s;
     s_num_bands := s_num_bands s; s_main := s_main s;
     s_maind := s_maind s; s_obuf := s_obuf s; s_pbuf := s_pbuf s; s_next := s_next s |}.

(* self.penalty = <newly allocated array> *)
Definition bind_pen (s : sys) (p : arr) : sys :=
  {| s_d := s_d s; s_lower := s_lower s; s_rev := s_rev s; s_penta := s_penta s;
     s_orig := s_orig s; s_pen := p; s_lam := s_lam s;
     s_num_bands := s_num_bands s; s_main := s_main s;
     s_maind := s_maind s; s_obuf := s_obuf s; s_pbuf := s_next s; s_next := s_next s + 1 |}.

(* _update_bands *)
Definition update_bands (s : sys) : sys :=
  let nb := if s_lower s then nr (s_pen s) - 1 else nr (s_pen s) / 2 in
  let mi := if s_lower s then 0 else nb in
  let p := s_pen s in
  {| s_d := s_d s; s_lower := s_lower s; s_rev := s_rev s; s_penta := s_penta s;
     s_orig := s_orig s; s_pen := s_pen s; s_lam := s_lam s;
     s_num_bands := nb; s_main := mi;
     s_maind := fun c => get p mi c; s_obuf := s_obuf s; s_pbuf := s_pbuf s; s_next := s_next s |}.

(* add_diagonal(value): self.penalty[self.main_diagonal_index] = self.main_diagonal + value, with
   NumPy broadcasting of a length-1 value; any other length mismatch raises before the store *)
Definition add_diagonal (s : sys) (w : list Z) : sys :=
  let L := Z.of_nat (length w) in
  if (L =? nc (s_pen s)) || (L =? 1) then
    let wf := fun c => if L =? 1 then nth 0 w 0 else nth (Z.to_nat c) w 0 in
    let md := s_maind s in
    write_pen s (set_row (s_pen s) (s_main s) (fun c => md c + wf c))
  else s.

(* add_penalty(penalty): raises (state unchanged) when _add_diagonals raises *)
Definition add_penalty (s : sys) (p : arr) : sys :=
  match add_diagonals (s_pen s) p (s_lower s) with
  | Some q => update_bands (bind_pen s q)
  | None => s
  end.

(* self.penalty[...] = v  with v of the same shape (what an overwriting solver does) *)
Definition clobber (s : sys) (v : arr) : sys :=
  if (nr v =? nr (s_pen s)) && (nc v =? nc (s_pen s)) then write_pen s v else s.

Definition step_g (elide : Z -> bool) (has_penta : bool) (N : nat) (s : sys) (o : op) : sys :=
  match o with
  | Reset c => match reset_g elide has_penta N (Some s) c with Some s' => s' | None => s end
  | Reverse => reverse_penalty s
  | AddDiag w => add_diagonal s w
  | AddPen p => add_penalty s (of_rows p)
  | Clobber v => clobber s (of_rows v)
  | SetPen v => bind_pen s (of_rows v)
  end.

Definition run_g (elide : Z -> bool) (has_penta : bool) (N : nat) (s : sys) (ops : list op) : sys :=
  fold_left (step_g elide has_penta N) ops s.

Definition step := step_g no_elision.
Definition run := run_g no_elision.

(* observable state, for the correspondence check *)
Definition observe (s : sys) :=
  (Z.of_nat (s_d s), s_lower s, s_rev s, s_penta s, s_num_bands s, s_main s,
   tab (s_orig s), tab (s_pen s), map (s_maind s) (zrange 0 (nc (s_pen s))), aliased s).
