(* The d-th order finite-difference matrix D (np.diff(np.eye(N), d, axis=0)), its
   Toeplitz coefficients, D'D, and the edge-distance closed form of D'D. *)
From Coq Require Import ZArith List Bool Lia ZifyBool.
From PB Require Import lib.SumZ.
Open Scope Z_scope.

(* alternating binomial coefficients: c d m = (-1)^(d-m) * binom d m *)
Fixpoint c (d : nat) (m : Z) : Z :=
  match d with
  | O => if m =? 0 then 1 else 0
  | S d' => c d' (m - 1) - c d' m
  end.

(* np.diff(np.eye(N), d, axis=0)[k, i]  (row k, column i); independent of N *)
Fixpoint Dm (d : nat) (k i : Z) : Z :=
  match d with
  | O => if k =? i then 1 else 0
  | S d' => Dm d' (k + 1) i - Dm d' k i
  end.

(* (D'D)[i, j] for the (N-d) x N matrix D *)
Definition DtD (d N : nat) (i j : Z) : Z :=
  sumZ (N - d) (fun k => Dm d k i * Dm d k j).

(* edge-distance closed form: band r, capped distances a (left) and b (right) *)
Definition Sform (d : nat) (r a b : Z) : Z :=
  sumZ (S d) (fun m => if (m <=? a) && (Z.of_nat d - m - r <=? b)
                       then c d (m + r) * c d m else 0).

Lemma c_support d : forall m, m < 0 \/ m > Z.of_nat d -> c d m = 0.
Proof.
  induction d as [|d IH]; intros m Hm.
  - simpl. destruct (m =? 0) eqn:?; lia.
  - change (c (S d) m) with (c d (m - 1) - c d m).
    rewrite !IH by lia. reflexivity.
Qed.

Lemma D_toeplitz d : forall k i, Dm d k i = c d (i - k).
Proof.
  induction d as [|d IH]; intros k i.
  - simpl. destruct (k =? i) eqn:?, (i - k =? 0) eqn:?; lia.
  - change (Dm (S d) k i) with (Dm d (k + 1) i - Dm d k i).
    change (c (S d) (i - k)) with (c d (i - k - 1) - c d (i - k)).
    rewrite !IH. replace (i - (k + 1)) with (i - k - 1) by lia. reflexivity.
Qed.

Lemma DtD_sym d N i j : DtD d N i j = DtD d N j i.
Proof. unfold DtD. apply sumZ_ext. intros; ring. Qed.

Theorem edge_form (d N : nat) (r j : Z) :
  (d < N)%nat -> 0 <= r <= Z.of_nat d -> 0 <= j -> j + r < Z.of_nat N ->
  DtD d N (j + r) j
  = Sform d r (Z.min j (Z.of_nat d)) (Z.min (Z.of_nat N - 1 - j - r) (Z.of_nat d)).
Proof.
  intros HdN Hr Hj HjN. unfold DtD, Sform.
  rewrite (sumZ_window d (N - d) j).
  2:{ intros k Hk. rewrite (D_toeplitz d k j), (c_support d (j - k)) by lia. ring. }
  apply sumZ_ext. intros m Hm.
  rewrite !D_toeplitz.
  replace (j + r - (j - m)) with (m + r) by lia.
  replace (j - (j - m)) with m by lia.
  destruct (0 <=? j - m) eqn:?, (j - m <? Z.of_nat (N - d)) eqn:?,
           (m <=? Z.min j (Z.of_nat d)) eqn:?,
           (Z.of_nat d - m - r <=? Z.min (Z.of_nat N - 1 - j - r) (Z.of_nat d)) eqn:?;
    cbn [andb]; try reflexivity; try lia.
Qed.

(* out of the band, D'D vanishes *)
Lemma DtD_band d N i j : j - i > Z.of_nat d \/ i - j > Z.of_nat d -> DtD d N i j = 0.
Proof.
  intros H. unfold DtD. apply sumZ_zero. intros k Hk. rewrite !D_toeplitz.
  destruct (Z_lt_le_dec (i - k) 0); [rewrite (c_support d (i - k)) by lia; ring|].
  destruct (Z_lt_le_dec (Z.of_nat d) (i - k)); [rewrite (c_support d (i - k)) by lia; ring|].
  rewrite (c_support d (j - k)) by lia. ring.
Qed.

(* the iteration used by pybaselines.utils.difference_matrix:
   diagonals = zeros(2d+1); diagonals[d] = 1; d times: diagonals = diagonals[:-1] - diagonals[1:] *)
Fixpoint coef_iter (t : nat) (d : Z) (m : Z) : Z :=
  match t with
  | O => if m =? d then 1 else 0
  | S t' => coef_iter t' d m - coef_iter t' d (m + 1)
  end.

Lemma coef_iter_c t : forall d m, coef_iter t d m = c t (m - (d - Z.of_nat t)).
Proof.
  induction t as [|t IH]; intros d m.
  - simpl. destruct (m =? d) eqn:?, (m - (d - 0) =? 0) eqn:?; lia.
  - change (coef_iter (S t) d m) with (coef_iter t d m - coef_iter t d (m + 1)).
    change (c (S t) (m - (d - Z.of_nat (S t))))
      with (c t (m - (d - Z.of_nat (S t)) - 1) - c t (m - (d - Z.of_nat (S t)))).
    rewrite !IH.
    replace (m - (d - Z.of_nat (S t)) - 1) with (m - (d - Z.of_nat t)) by lia.
    replace (m + 1 - (d - Z.of_nat t)) with (m - (d - Z.of_nat (S t))) by lia.
    reflexivity.
Qed.

(* after d steps the remaining d+1 entries are exactly c d 0 .. c d d *)
Corollary coef_iter_final d m : coef_iter d (Z.of_nat d) m = c d m.
Proof. rewrite coef_iter_c. f_equal. lia. Qed.
