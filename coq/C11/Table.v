(* Interpreter for the hard-coded band tables (_diff_k_diags) as emitted by
   tools/translate.py into gen/GenBands.v, and the reflective soundness proof:
   a finite check at sizes 2d+1 .. M lifts to every N. *)
From Coq Require Import ZArith List Bool Lia ZifyBool.
From PB Require Import lib.SumZ lib.PySlice lib.Arr C11.DtD.
Import ListNotations.
Open Scope Z_scope.

Inductive cond_t := Always | IfFull.   (* IfFull: inside `if not lower_only:` *)

Record asg := { a_cond : cond_t; a_row : Z; a_col : colspec; a_val : Z }.

Record table := {
  t_order : nat;            (* d *)
  t_rows_lower : Z;         (* first dimension of np.full/np.ones when lower_only *)
  t_rows_full : Z;          (* ... otherwise *)
  t_fill : Z;               (* base fill value *)
  t_asgs : list asg         (* slice assignments in source order; last writer wins *)
}.

Definition t_rows (t : table) (lower : bool) : Z := if lower then t_rows_lower t else t_rows_full t.

Definition cond_on (c : cond_t) (lower : bool) : bool :=
  match c with Always => true | IfFull => negb lower end.

Definition applies (t : table) (lower : bool) (N : Z) (a : asg) (rho j : Z) : bool :=
  cond_on (a_cond a) lower && (rho =? pos (t_rows t lower) (a_row a)) && sel N (a_col a) j.

Definition eval (t : table) (lower : bool) (N rho j : Z) : Z :=
  fold_left (fun acc a => if applies t lower N a rho j then a_val a else acc) (t_asgs t) (t_fill t).

(* what LAPACK band row rho, column j must hold: the matrix entry (j + r, j), r = i - j *)
Definition band_r (d : nat) (lower : bool) (rho : Z) : Z := if lower then rho else rho - Z.of_nat d.

Definition band_spec (d N : nat) (lower : bool) (rho j : Z) : Z :=
  let r := band_r d lower rho in
  if (0 <=? j + r) && (j + r <? Z.of_nat N) then DtD d N (j + r) j else 0.

Definition band_closed (d : nat) (N : Z) (lower : bool) (rho j : Z) : Z :=
  let r := band_r d lower rho in
  let dz := Z.of_nat d in
  if (0 <=? j + r) && (j + r <? N) then
    if 0 <=? r then Sform d r (Z.min j dz) (Z.min (N - 1 - j - r) dz)
    else Sform d (- r) (Z.min (j + r) dz) (Z.min (N - 1 - j) dz)
  else 0.

Lemma band_closed_spec (d N : nat) lower rho j :
  (d < N)%nat -> 0 <= j < Z.of_nat N -> - Z.of_nat d <= band_r d lower rho <= Z.of_nat d ->
  band_closed d (Z.of_nat N) lower rho j = band_spec d N lower rho j.
Proof.
  intros HdN Hj Hr. unfold band_closed, band_spec. cbv zeta.
  set (r := band_r d lower rho) in *. clearbody r.
  destruct ((0 <=? j + r) && (j + r <? Z.of_nat N)) eqn:Hin; [|reflexivity].
  destruct (0 <=? r) eqn:Hr0.
  - rewrite (edge_form d N r j); [reflexivity|lia|lia|lia|lia].
  - rewrite DtD_sym.
    replace (DtD d N j (j + r)) with (DtD d N ((j + r) + (- r)) (j + r)) by (f_equal; lia).
    rewrite edge_form by lia. f_equal; f_equal; lia.
Qed.

(* ---- representative column ---- *)
Section Canon.
  Variables (K d : Z).
  Hypothesis HK : 0 <= d <= K.
  Let W := K + d + 1.
  Let M := 2 * W + 1.

  Definition canonW (W N j : Z) : Z :=
    if j <? W then j else if N - 1 - j <? W then (2 * W + 1) - 1 - (N - 1 - j) else W.
  Let canon := canonW W.

  Variables (N j : Z).
  Hypothesis HN : M <= N.
  Hypothesis Hj : 0 <= j < N.

  Lemma canon_range : 0 <= canon N j < M.
  Proof. unfold canon, canonW, M, W in *. destruct (j <? K + d + 1) eqn:?, (N - 1 - j <? K + d + 1) eqn:?; lia. Qed.

  Lemma canon_pos_le c : Z.abs c <= K -> (pos N c <=? j) = (pos M c <=? canon N j).
  Proof. intros Hc. unfold canon, canonW, pos, M, W in *.
    destruct (c <? 0) eqn:?, (j <? K + d + 1) eqn:?, (N - 1 - j <? K + d + 1) eqn:?; lia. Qed.

  Lemma canon_pos_lt c : Z.abs c <= K -> (j <? pos N c) = (canon N j <? pos M c).
  Proof. intros Hc. unfold canon, canonW, pos, M, W in *.
    destruct (c <? 0) eqn:?, (j <? K + d + 1) eqn:?, (N - 1 - j <? K + d + 1) eqn:?; lia. Qed.

  Lemma canon_pos_eq c : Z.abs c <= K -> (j =? pos N c) = (canon N j =? pos M c).
  Proof. intros Hc. unfold canon, canonW, pos, M, W in *.
    destruct (c <? 0) eqn:?, (j <? K + d + 1) eqn:?, (N - 1 - j <? K + d + 1) eqn:?; lia. Qed.

  Lemma canon_sel s : col_offset s <= K -> sel N s j = sel M s (canon N j).
  Proof.
    assert (HMK : K <= M) by (unfold M, W; lia).
    destruct s as [c0|a b]; cbn [sel col_offset]; intros Hs.
    - apply canon_pos_eq; exact Hs.
    - f_equal.
      + destruct a as [a|]; cbn [sl_start opt_abs] in *.
        * rewrite !clamp_pos by lia. apply canon_pos_le. lia.
        * pose proof canon_range. destruct (0 <=? j) eqn:?, (0 <=? canon N j) eqn:?; lia.
      + destruct b as [b|]; cbn [sl_stop opt_abs] in *.
        * rewrite !clamp_pos by lia. apply canon_pos_lt. lia.
        * pose proof canon_range. destruct (j <? N) eqn:?, (canon N j <? M) eqn:?; lia.
  Qed.

  Lemma canon_dist r : - d <= r <= d ->
    ((0 <=? j + r) = (0 <=? canon N j + r)) /\
    ((j + r <? N) = (canon N j + r <? M)) /\
    Z.min j d = Z.min (canon N j) d /\
    Z.min (j + r) d = Z.min (canon N j + r) d /\
    Z.min (N - 1 - j) d = Z.min (M - 1 - canon N j) d /\
    Z.min (N - 1 - j - r) d = Z.min (M - 1 - canon N j - r) d.
  Proof. intros Hr. unfold canon, canonW, M, W in *.
    destruct (j <? K + d + 1) eqn:?, (N - 1 - j <? K + d + 1) eqn:?; repeat split; lia. Qed.
End Canon.

(* ---- the reflective checker ---- *)
Definition max_offset (t : table) : Z :=
  fold_right (fun a m => Z.max (col_offset (a_col a)) m) (Z.of_nat (t_order t)) (t_asgs t).

Definition Wof (t : table) : Z := max_offset t + Z.of_nat (t_order t) + 1.
Definition Mof (t : table) : Z := 2 * Wof t + 1.

Definition rows_ok (t : table) : bool :=
  (t_rows_lower t =? Z.of_nat (t_order t) + 1) && (t_rows_full t =? 2 * Z.of_nat (t_order t) + 1)
  && forallb (fun a => idx_ok (t_rows_lower t) (a_row a) || negb (cond_on (a_cond a) true)) (t_asgs t)
  && forallb (fun a => idx_ok (t_rows_full t) (a_row a)) (t_asgs t)
  (* scalar column subscripts are legal at the smallest size the dispatch sends here *)
  && forallb (fun a => match a_col a with Idx c0 => idx_ok (2 * Z.of_nat (t_order t) + 1) c0 | _ => true end) (t_asgs t).

Definition check_at (t : table) (N : Z) : bool :=
  forallb (fun lower =>
    forallb (fun rho =>
      forallb (fun j => eval t lower N rho j =? band_closed (t_order t) N lower rho j)
              (zrange 0 N))
            (zrange 0 (t_rows t lower)))
          [true; false].

Definition check (t : table) : bool :=
  rows_ok t &&
  forallb (check_at t) (zrange (2 * Z.of_nat (t_order t) + 1) (Mof t - 2 * Z.of_nat (t_order t))).

Lemma max_offset_ge t : Z.of_nat (t_order t) <= max_offset t.
Proof. unfold max_offset. induction (t_asgs t) as [|a l IH]; simpl; lia. Qed.

Lemma max_offset_In t a : In a (t_asgs t) -> col_offset (a_col a) <= max_offset t.
Proof.
  unfold max_offset. induction (t_asgs t) as [|a' l IH]; simpl; [tauto|].
  intros [->|H]; [lia|]. specialize (IH H). lia.
Qed.

Lemma eval_canon t lower N rho j :
  Mof t <= N -> 0 <= j < N ->
  eval t lower N rho j = eval t lower (Mof t) rho (canonW (Wof t) N j).
Proof.
  intros HN Hj. unfold eval.
  assert (Hall : forall a, In a (t_asgs t) -> col_offset (a_col a) <= max_offset t)
    by (intros; apply max_offset_In; assumption).
  revert Hall. generalize (t_fill t). induction (t_asgs t) as [|a l IH]; intros acc Hall; [reflexivity|].
  cbn [fold_left].
  assert (Ha : applies t lower N a rho j = applies t lower (Mof t) a rho (canonW (Wof t) N j)).
  { unfold applies. f_equal.
    pose proof (max_offset_ge t).
    apply (canon_sel (max_offset t) (Z.of_nat (t_order t))); try (unfold Mof, Wof in *; lia).
    apply Hall; left; reflexivity. }
  rewrite Ha. apply IH. intros a' Ha'. apply Hall. right; exact Ha'.
Qed.

Lemma band_closed_canon t lower N rho j :
  Mof t <= N -> 0 <= j < N ->
  - Z.of_nat (t_order t) <= band_r (t_order t) lower rho <= Z.of_nat (t_order t) ->
  band_closed (t_order t) N lower rho j
  = band_closed (t_order t) (Mof t) lower rho (canonW (Wof t) N j).
Proof.
  intros HN Hj Hr. unfold band_closed. cbv zeta.
  set (r := band_r (t_order t) lower rho) in *. clearbody r.
  pose proof (max_offset_ge t) as HK.
  assert (HKd : 0 <= Z.of_nat (t_order t) <= max_offset t) by lia.
  destruct (canon_dist (max_offset t) (Z.of_nat (t_order t)) HKd N j HN Hj r Hr)
    as (E1 & E2 & E3 & E4 & E5 & E6).
  destruct (canon_dist (max_offset t) (Z.of_nat (t_order t)) HKd N j HN Hj (- r) ltac:(lia))
    as (_ & _ & _ & _ & _ & _).
  fold (Wof t) in E1, E2, E3, E4, E5, E6. fold (Mof t) in E1, E2, E3, E4, E5, E6.
  rewrite <- E1, <- E2, <- E3, <- E4, <- E5, <- E6. reflexivity.
Qed.

Theorem check_sound t :
  check t = true ->
  forall (N : nat) lower rho j,
    (2 * t_order t + 1 <= N)%nat -> 0 <= rho < t_rows t lower -> 0 <= j < Z.of_nat N ->
    eval t lower (Z.of_nat N) rho j = band_spec (t_order t) N lower rho j.
Proof.
  unfold check. intros Hc N lower rho j HN Hrho Hj.
  apply andb_true_iff in Hc as [Hrows Hc].
  unfold rows_ok in Hrows.
  apply andb_true_iff in Hrows as [Hrows _]. apply andb_true_iff in Hrows as [Hrows _].
  apply andb_true_iff in Hrows as [Hrows _]. apply andb_true_iff in Hrows as [Hrl Hrf].
  assert (Hr : - Z.of_nat (t_order t) <= band_r (t_order t) lower rho <= Z.of_nat (t_order t)).
  { unfold band_r, t_rows in *. destruct lower; lia. }
  rewrite <- band_closed_spec by (try lia; assumption).
  rewrite forallb_forall in Hc.
  assert (Hat : forall n rho' j', 2 * Z.of_nat (t_order t) + 1 <= n <= Mof t ->
            0 <= rho' < t_rows t lower -> 0 <= j' < n ->
            eval t lower n rho' j' = band_closed (t_order t) n lower rho' j').
  { intros n rho' j' Hn Hr' Hj'.
    assert (Hin : In n (zrange (2 * Z.of_nat (t_order t) + 1) (Mof t - 2 * Z.of_nat (t_order t))))
      by (apply zrange_In; lia).
    specialize (Hc n Hin). unfold check_at in Hc. rewrite forallb_forall in Hc.
    assert (Hl : In lower [true; false]) by (destruct lower; simpl; tauto).
    specialize (Hc lower Hl). rewrite forallb_forall in Hc.
    specialize (Hc rho' ltac:(apply zrange_In; lia)). rewrite forallb_forall in Hc.
    specialize (Hc j' ltac:(apply zrange_In; lia)). lia. }
  destruct (Z_le_gt_dec (Z.of_nat N) (Mof t)) as [Hsmall|Hbig].
  - apply Hat; lia.
  - rewrite eval_canon, band_closed_canon by (try lia; assumption).
    pose proof (max_offset_ge t) as HK.
    pose proof (canon_range (max_offset t) (Z.of_nat (t_order t)) ltac:(lia) (Z.of_nat N) j
                  ltac:(unfold Mof, Wof in *; lia) Hj) as Hcr.
    fold (Wof t) in Hcr. fold (Mof t) in Hcr.
    apply Hat; try lia. unfold Mof, Wof in *; lia.
Qed.
