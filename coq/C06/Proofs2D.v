(* Proofs for the 2-D half of property C06 (num_eigens=None path): what the 2-D Whittaker methods hand to
   spsolve IS the documented Kronecker system lam_r kron(D_r'D_r, I_N) + lam_c kron(I_M, D_c'D_c) (+ the
   per-method terms) on row-major raveled indices, for every grid M x N, every (d_r, d_c), (lam_r, lam_c),
   weights, data, and every pass.  diff_penalty_matrix is tied to the C11 band tables. *)
From Coq Require Import ZArith List Bool Lia ZifyBool.
From PB Require Import lib.SumZ lib.PySlice lib.Arr C11.DtD C11.Table gen.GenBands C11.Banded C11.History
                       C06.Model C06.Proofs C06.Model2D.
Import ListNotations.
Open Scope Z_scope.

(* ------------------------------------------------------------------ diff_penalty_matrix *)
Lemma dpm_spec (n d : nat) : (d < n)%nat ->
  exists A, dpm n d = Some A /\
    forall i j, 0 <= i < Z.of_nat n -> 0 <= j < Z.of_nat n -> A i j = DtD d n i j.
Proof.
  intros Hd. unfold dpm. replace (Z.of_nat n <=? Z.of_nat d) with false by lia.
  destruct (dpd_core_exact n d false Hd) as (a & Ha & (A1 & A2 & A3)). rewrite Ha.
  cbn [spec_bands nr nc get] in A1, A2, A3.
  eexists. split; [reflexivity|]. intros i j Hi Hj. cbv beta.
  destruct (Z.abs (i - j) <=? Z.of_nat d) eqn:Hb.
  - rewrite A3 by lia. apply bs_full; assumption.
  - symmetry. apply DtD_out. lia.
Qed.

(* ------------------------------------------------------------------ raveled indices *)
Lemma ravel_range (M N p : Z) : 0 < N -> 0 <= p < M * N -> 0 <= p / N < M /\ 0 <= p mod N < N.
Proof.
  intros HN Hp. split; [|apply Z.mod_pos_bound; lia]. split.
  - apply Z.div_pos; lia.
  - apply Z.div_lt_upper_bound; lia.
Qed.

Lemma ravel_pair (N i j : Z) : 0 <= j < N -> (i * N + j) / N = i /\ (i * N + j) mod N = j.
Proof.
  intros Hj. split.
  - symmetry. apply (Z.div_unique (i * N + j) N i j); lia.
  - symmetry. apply (Z.mod_unique (i * N + j) N i j); lia.
Qed.

Lemma ravel_eq (N p q : Z) : 0 < N -> (p =? q) = ((p / N =? q / N) && (p mod N =? q mod N)).
Proof.
  intros HN. pose proof (Z.div_mod p N ltac:(lia)). pose proof (Z.div_mod q N ltac:(lia)).
  destruct (p =? q) eqn:E.
  - assert (p = q) by lia. subst. rewrite !Z.eqb_refl. reflexivity.
  - destruct (p / N =? q / N) eqn:E1, (p mod N =? q mod N) eqn:E2; cbn [andb]; try reflexivity.
    assert (p / N = q / N) by lia. assert (p mod N = q mod N) by lia. exfalso.
    assert (p = q) by congruence. lia.
Qed.

(* C06_kron_penalty in pair coordinates *)
Lemma P2r_pairs M N lr lc dr dc i j i' j' :
  0 <= j < Z.of_nat N -> 0 <= j' < Z.of_nat N ->
  P2r M N lr lc dr dc (i * Z.of_nat N + j) (i' * Z.of_nat N + j') = P2 M N lr lc dr dc i j i' j'.
Proof.
  intros Hj Hj'. unfold P2r.
  destruct (ravel_pair (Z.of_nat N) i j Hj) as [-> ->].
  destruct (ravel_pair (Z.of_nat N) i' j' Hj') as [-> ->]. reflexivity.
Qed.

(* ------------------------------------------------------------------ PenalizedSystem2D *)
Definition rng (M N : nat) (p : Z) : Prop := 0 <= p < Z.of_nat M * Z.of_nat N.

Lemma mk2_spec M N lr lc dr dc :
  (1 <= dr < M)%nat -> (1 <= dc < N)%nat -> 0 < lr -> 0 < lc ->
  exists s, mk2 M N lr lc dr dc = Some s /\
    (forall p q, rng M N p -> rng M N q -> q_pen s p q = P2r M N lr lc dr dc p q) /\
    (forall p, q_maind s p = q_pen s p p).
Proof.
  intros Hr Hc Hlr Hlc. unfold mk2.
  replace ((Z.of_nat dr <? 1) || (Z.of_nat dc <? 1) || (lr <=? 0) || (lc <=? 0)) with false by lia.
  destruct (dpm_spec M dr ltac:(lia)) as (Pr & -> & HPr).
  destruct (dpm_spec N dc ltac:(lia)) as (Pc & -> & HPc).
  eexists. split; [reflexivity|]. split; [|reflexivity].
  intros p q Hp Hq. unfold rng in *.
  destruct (ravel_range (Z.of_nat M) (Z.of_nat N) p ltac:(lia) Hp) as [Hp1 Hp2].
  destruct (ravel_range (Z.of_nat M) (Z.of_nat N) q ltac:(lia) Hq) as [Hq1 Hq2].
  unfold update_bands2, madd, kron, smul, P2r, P2. cbn [q_pen].
  rewrite HPr, HPc by assumption. ring.
Qed.

(* the system holds the matrix B off the diagonal and remembers its diagonal *)
Definition Inv2 (M N : nat) (B : mat) (s : sys2) : Prop :=
  (forall p q, rng M N p -> rng M N q -> p <> q -> q_pen s p q = B p q) /\
  (forall p, rng M N p -> q_maind s p = B p p).

Definition sys2_ok (M N : nat) (A : mat) (b : Z -> Z) (k : call2) : Prop :=
  (forall p q, rng M N p -> rng M N q -> c2_lhs k p q = A p q) /\
  (forall p, rng M N p -> c2_rhs k p = b p).

Lemma passes2_spec M N B : forall l s, Inv2 M N B s ->
  Forall2 (fun (vr : (Z -> Z) * (Z -> Z)) k =>
             sys2_ok M N (fun p q => B p q + diagm (fst vr) p q) (snd vr) k) l (passes2 s l).
Proof.
  induction l as [|[v rhs] rest IH]; intros s [H1 H2]; cbn [passes2]; constructor.
  - split; [|intros; reflexivity]. intros p q Hp Hq. cbn [c2_lhs add_diagonal2 q_pen fst].
    unfold setdiag, diagm. destruct (p =? q) eqn:E.
    + assert (p = q) by lia. subst q. rewrite H2 by assumption. reflexivity.
    + rewrite H1 by (assumption || lia). ring.
  - apply IH. split; cbn [add_diagonal2 q_pen q_maind].
    + intros p q Hp Hq Hne. unfold setdiag. replace (p =? q) with false by lia. apply H1; assumption.
    + exact H2.
Qed.

Lemma clean_Inv2 M N B s :
  (forall p q, rng M N p -> rng M N q -> q_pen s p q = B p q) -> (forall p, q_maind s p = q_pen s p p) ->
  Inv2 M N B s.
Proof. intros H1 H2. split; [intros; apply H1; assumption|]. intros p Hp. rewrite H2. apply H1; assumption. Qed.

(* ------------------------------------------------------------------ the methods *)
Theorem asls2_system M N lr lc dr dc wl y :
  (1 <= dr < M)%nat -> (1 <= dc < N)%nat -> 0 < lr -> 0 < lc ->
  exists cs, asls2 M N lr lc dr dc wl y = Some cs /\
    Forall2 (fun w k => sys2_ok M N (doc2_asls M N lr lc dr dc w) (mulv w y) k) wl cs.
Proof.
  intros Hr Hc Hlr Hlc. unfold asls2.
  destruct (mk2_spec M N lr lc dr dc Hr Hc Hlr Hlc) as (s & -> & Hpen & Hmd).
  eexists. split; [reflexivity|].
  pose proof (passes2_spec M N _ (map (fun w => (w, mulv w y)) wl) s (clean_Inv2 M N _ s Hpen Hmd)) as HF.
  eapply Forall2_map_l; [exact HF|]. intros w k [W1 W2]. cbn [fst snd] in *. split.
  - intros p q Hp Hq. rewrite W1 by assumption. unfold doc2_asls. ring.
  - exact W2.
Qed.

Lemma matvec2_diag_plus M N v A y p : rng M N p ->
  matvec2 M N (fun p q => diagm v p q + A p q) y p = v p * y p + matvec2 M N A y p.
Proof.
  intros Hp. unfold matvec2, diagm, rng in *.
  rewrite (sumZ_ext (M * N) _ (fun q => (if q =? p then v p * y p else 0) + A p q * y q)).
  2:{ intros q Hq. destruct (p =? q) eqn:?, (q =? p) eqn:?; try lia;
        try (replace q with p by lia); ring. }
  rewrite sumZ_add, sumZ_point. rewrite Nat2Z.inj_mul.
  destruct ((0 <=? p) && (p <? Z.of_nat M * Z.of_nat N)) eqn:?; lia.
Qed.

Theorem iasls2_system M N lr lc l1r l1c dr dc wl y :
  (2 <= dr < M)%nat -> (2 <= dc < N)%nat -> 0 < lr -> 0 < lc -> 0 < l1r -> 0 < l1c ->
  exists cs, iasls2 M N lr lc l1r l1c dr dc wl y = Some cs /\
    Forall2 (fun w k => sys2_ok M N (doc2_iasls M N lr lc l1r l1c dr dc w)
                                 (doc2_iasls_rhs M N l1r l1c w y) k) wl cs.
Proof.
  intros Hr Hc Hlr Hlc Hl1r Hl1c. unfold iasls2.
  replace ((Z.of_nat dr <? 2) || (Z.of_nat dc <? 2)) with false by lia.
  destruct (mk2_spec M N lr lc dr dc ltac:(lia) ltac:(lia) Hlr Hlc) as (s & -> & Hpen & Hmd).
  destruct (mk2_spec M N l1r l1c 1 1 ltac:(lia) ltac:(lia) Hl1r Hl1c) as (s1 & -> & Hpen1 & _).
  eexists. split; [reflexivity|].
  set (B := fun p q => P2r M N lr lc dr dc p q + P2r M N l1r l1c 1 1 p q).
  assert (HI : Inv2 M N B (add_penalty2 s (q_pen s1))).
  { apply clean_Inv2; [|reflexivity]. intros p q Hp Hq. unfold add_penalty2, update_bands2, madd, B.
    cbn [q_pen]. rewrite Hpen, Hpen1 by assumption. reflexivity. }
  pose proof (passes2_spec M N B
     (map (fun w => (mulv w w, fun p => w p * w p * y p + matvec2 M N (q_pen s1) y p)) wl) _ HI) as HF.
  eapply Forall2_map_l; [exact HF|]. intros w k [W1 W2]. cbn [fst snd] in *. split.
  - intros p q Hp Hq. rewrite W1 by assumption. unfold doc2_iasls, B. ring.
  - intros p Hp. rewrite W2 by assumption. unfold doc2_iasls_rhs.
    rewrite matvec2_diag_plus by assumption. unfold mulv. f_equal.
    unfold matvec2. apply sumZ_ext. intros q Hq. rewrite Hpen1; [reflexivity|assumption|].
    unfold rng. rewrite Nat2Z.inj_mul in Hq. lia.
Qed.

Theorem drpls2_system M N lr lc eta dr dc wl y :
  (2 <= dr < M)%nat -> (2 <= dc < N)%nat -> 0 < lr -> 0 < lc ->
  exists cs, drpls2 M N lr lc eta dr dc wl y = Some cs /\
    Forall2 (fun w k => sys2_ok M N (doc2_drpls M N lr lc eta dr dc w) (mulv w y) k) wl cs.
Proof.
  intros Hr Hc Hlr Hlc. unfold drpls2.
  replace ((Z.of_nat dr <? 2) || (Z.of_nat dc <? 2)) with false by lia.
  destruct (mk2_spec M N lr lc dr dc ltac:(lia) ltac:(lia) Hlr Hlc) as (s & -> & Hpen & Hmd).
  destruct (mk2_spec M N 1 1 1 1 ltac:(lia) ltac:(lia) ltac:(lia) ltac:(lia)) as (s1 & -> & Hpen1 & _).
  eexists. split; [reflexivity|]. apply Forall2_map_r. intros w. split; [|intros; reflexivity].
  intros p q Hp Hq. cbn [c2_lhs]. unfold madd, rowscale, setdiag, diagonal, smul, doc2_drpls, diagm.
  rewrite Hpen1 by assumption.
  destruct (p =? q) eqn:E.
  - assert (p = q) by lia. subst q. rewrite !Hpen by assumption. ring.
  - rewrite !Hpen by assumption. ring.
Qed.

Theorem aspls2_system M N lr lc dr dc wal y :
  (1 <= dr < M)%nat -> (1 <= dc < N)%nat -> 0 < lr -> 0 < lc ->
  exists cs, aspls2 M N lr lc dr dc wal y = Some cs /\
    Forall2 (fun (wa : (Z -> Z) * (Z -> Z)) k =>
               sys2_ok M N (doc2_aspls M N lr lc dr dc (fst wa) (snd wa)) (mulv (fst wa) y) k) wal cs.
Proof.
  intros Hr Hc Hlr Hlc. unfold aspls2.
  destruct (mk2_spec M N lr lc dr dc Hr Hc Hlr Hlc) as (s & -> & Hpen & Hmd).
  eexists. split; [reflexivity|]. apply Forall2_map_r. intros [w al]. cbn [fst snd].
  split; [|intros; reflexivity].
  intros p q Hp Hq. cbn [c2_lhs]. unfold rowscale, setdiag, diagonal, doc2_aspls, diagm.
  destruct (p =? q) eqn:E.
  - assert (p = q) by lia. subst q. rewrite !Hpen by assumption. ring.
  - rewrite !Hpen by assumption. ring.
Qed.

(* any vector solving what spsolve was handed solves the documented Kronecker system *)
Definition solves2 (M N : nat) (A : mat) (b v : Z -> Z) : Prop :=
  forall p, rng M N p -> matvec2 M N A v p = b p.

Lemma sys2_ok_solves M N A b k v :
  sys2_ok M N A b k -> solves2 M N (c2_lhs k) (c2_rhs k) v -> solves2 M N A b v.
Proof.
  intros [HA Hb] Hv p Hp. rewrite <- Hb by assumption. rewrite <- (Hv p Hp).
  unfold matvec2. apply sumZ_ext. intros q Hq. rewrite HA; [reflexivity|assumption|].
  unfold rng. rewrite Nat2Z.inj_mul in Hq. lia.
Qed.

Lemma systems2_nonvacuous :
  match asls2 4 3 2 8 2 1 [fun p => p mod 3; fun _ => 1] (fun p => p * p - 7),
        drpls2 4 5 4 2 1 2 3 [fun p => p mod 2] (fun p => 9 - p) with
  | Some [k1; k2], Some [k3] =>
      dense 12 (c2_lhs k2) = dense 12 (doc2_asls 4 3 2 8 2 1 (fun _ => 1)) /\
      dense 20 (c2_lhs k3) = dense 20 (doc2_drpls 4 5 4 2 1 2 3 (fun p => p mod 2)) /\
      P2r 4 3 2 8 2 1 (1 * 3 + 2) (2 * 3 + 2) = 2 * DtD 2 4 1 2
  | _, _ => False
  end.
Proof. vm_compute. repeat split. Qed.
