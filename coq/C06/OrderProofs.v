From Coq Require Import ZArith List Bool String Lia ZifyBool.
From PB Require Import lib.SumZ C11.DtD C06.Model C06.Order gen.GenC06Order.
Import ListNotations.
Open Scope Z_scope.

(* the assignment semantics of scatter: b[s k] = a k *)
Lemma scatter_spec n s sinv a k : inverse_on n s sinv -> 0 <= k < n -> scatter a sinv (s k) = a k.
Proof. intros H Hk. unfold scatter. destruct (H k Hk) as (_ & _ & E & _). rewrite E. reflexivity. Qed.

(* for an involution (sorted x: identity; exactly reversed x: k -> n-1-k) scatter and gather coincide *)
Lemma scatter_involution n s a : inverse_on n s s -> forall k, 0 <= k < n -> scatter a s k = gather a s k.
Proof. intros _ k _. reflexivity. Qed.

Lemma reversal_involution n : inverse_on n (fun k => n - 1 - k) (fun k => n - 1 - k).
Proof. intros k Hk. repeat split; lia. Qed.

(* ... and for nothing else in general: a rotation of three points *)
Lemma scatter_refuted :
  exists (s sinv a : Z -> Z) k, inverse_on 3 s sinv /\ 0 <= k < 3 /\ scatter a sinv k <> gather a s k.
Proof.
  exists (fun k => (k + 1) mod 3), (fun k => (k + 2) mod 3), (fun k => k), 0.
  split; [|split; [lia|vm_compute; discriminate]].
  intros k Hk. assert (k = 0 \/ k = 1 \/ k = 2) as [-> | [-> | ->]] by lia; vm_compute; repeat split; discriminate.
Qed.

(* the order convention on the aspls system: assembled from the gathers of the supplied arrays, row k (sorted
   position k) carries the weight, alpha and datum of the supplied point s k *)
Lemma aspls_order_convention N d lam (w al y s : Z -> Z) k j :
  doc_aspls N d lam (gather w s) (gather al s) k j = diagm (fun k => w (s k)) k j + lam * al (s k) * DtD d N k j /\
  mulv (gather w s) (gather y s) k = w (s k) * y (s k).
Proof. split; reflexivity. Qed.

Lemma ocheck_sound l req : ocheck l req = true ->
  (forall s, In s l -> o_kind s = Gather) /\
  (forall r, In r req -> exists s, In s l /\ is_osite r s = true).
Proof.
  unfold ocheck. intros H. apply andb_true_iff in H as [H1 H2]. rewrite forallb_forall in H1, H2. split.
  - intros s Hs. specialize (H1 s Hs). unfold is_gather in H1. destruct (o_kind s); [reflexivity|discriminate].
  - intros r Hr. apply existsb_exists. apply H2, Hr.
Qed.

Lemma osites_checked : ocheck GenC06Order.osites required = true.
Proof. vm_compute. reflexivity. Qed.
