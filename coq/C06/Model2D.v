(* Executable model of the 2-D Whittaker assembly (property C06, num_eigens=None path):
     pybaselines/_banded_utils.py        : diff_penalty_matrix (DIA matrix from diff_penalty_diagonals)
     pybaselines/two_d/_whittaker_utils.py: PenalizedSystem2D.reset_diagonals / _update_bands /
                                            add_penalty / add_diagonal / solve / direct_solve
     pybaselines/two_d/whittaker.py       : asls-type methods, iasls, drpls, aspls
   A sparse matrix is modelled by its dense index function on row-major raveled indices
   (p = i * N + j for the data point (i, j) of an M x N grid).  This is the vec convention of C06/Vec.v:
   vec = ROW-MAJOR flatten of the LOGICAL (M, N) array of values, independent of the strides of the ndarray that
   holds them; the weights / data / alpha vectors of this model are vec of the user's logical arrays, and the
   reshape of the outputs is unvec (C06/VecProofs.v; the source sites are pinned by gen/GenC06Vec.v).  Library operations are modelled by
   their contracts: scipy.sparse.kron (block structure through div / mod), dia_matrix (offset k holds
   A[j - k, j] in column j), +, scalar *, diag(v) @ A (row scaling), setdiag, diagonal, A @ y.
   Models only; proofs in C06/Proofs2D.v. *)
From Coq Require Import ZArith List Bool Lia ZifyBool.
From PB Require Import lib.SumZ lib.PySlice lib.Arr C11.DtD C11.Table gen.GenBands C11.Banded C06.Model.
Import ListNotations.
Open Scope Z_scope.

Definition mat := Z -> Z -> Z.

Definition eye : mat := fun i j => if i =? j then 1 else 0.
Definition smul (l : Z) (A : mat) : mat := fun i j => l * A i j.
Definition madd (A B : mat) : mat := fun i j => A i j + B i j.
(* scipy.sparse.kron(A, B) for B of shape (nB, nB) *)
Definition kron (nB : Z) (A B : mat) : mat :=
  fun p q => A (p / nB) (q / nB) * B (p mod nB) (q mod nB).
Definition diagonal (A : mat) : Z -> Z := fun p => A p p.
Definition setdiag (A : mat) (f : Z -> Z) : mat := fun p q => if p =? q then f p else A p q.
Definition rowscale (v : Z -> Z) (A : mat) : mat := fun p q => v p * A p q.     (* diags(v) @ A *)

(* diff_penalty_matrix(n, d): the full LAPACK bands of diff_penalty_diagonals placed on the offsets
   d, d-1, ..., -d of a DIA matrix: row rho of the bands is offset d - rho, and DIA stores A[j - k, j]
   of offset k in column j; None = ValueError *)
Definition dpm (n d : nat) : option mat :=
  if Z.of_nat n <=? Z.of_nat d then None
  else match dpd_core n d false with
       | DpdOk a => Some (fun i j => if Z.abs (i - j) <=? Z.of_nat d then get a (Z.of_nat d + i - j) j else 0)
       | _ => None
       end.

(* PenalizedSystem2D: penalty and main_diagonal (a copy) *)
Record sys2 := { q_pen : mat; q_maind : Z -> Z }.

Definition update_bands2 (pen : mat) : sys2 := {| q_pen := pen; q_maind := diagonal pen |}.

(* PenalizedSystem2D((M, N), lam, diff_order): None = the constructor raised *)
Definition mk2 (M N : nat) (lr lc : Z) (dr dc : nat) : option sys2 :=
  if (Z.of_nat dr <? 1) || (Z.of_nat dc <? 1) || (lr <=? 0) || (lc <=? 0) then None
  else match dpm M dr, dpm N dc with
       | Some Pr, Some Pc =>
           Some (update_bands2 (madd (kron (Z.of_nat N) (smul lr Pr) eye) (kron (Z.of_nat N) eye (smul lc Pc))))
       | _, _ => None
       end.

Definition add_penalty2 (s : sys2) (P : mat) : sys2 := update_bands2 (madd (q_pen s) P).
(* add_diagonal: self.penalty.setdiag(self.main_diagonal + value), in place *)
Definition add_diagonal2 (s : sys2) (v : Z -> Z) : sys2 :=
  {| q_pen := setdiag (q_pen s) (fun p => q_maind s p + v p); q_maind := q_maind s |}.

(* what reaches scipy.sparse.linalg.spsolve *)
Record call2 := { c2_lhs : mat; c2_rhs : Z -> Z }.

(* solve(y, weights, penalty=None, rhs_extra) at successive passes (add_diagonal writes in place) *)
Fixpoint passes2 (s : sys2) (l : list ((Z -> Z) * (Z -> Z))) : list call2 :=
  match l with
  | [] => []
  | (v, rhs) :: rest =>
      let s' := add_diagonal2 s v in
      {| c2_lhs := q_pen s'; c2_rhs := rhs |} :: passes2 s' rest
  end.

(* asls, airpls, arpls, iarpls, psalsa, brpls, lsrpls with num_eigens=None *)
Definition asls2 (M N : nat) (lr lc : Z) (dr dc : nat) (wl : list (Z -> Z)) (y : Z -> Z) : option (list call2) :=
  match mk2 M N lr lc dr dc with
  | Some s => Some (passes2 s (map (fun w => (w, mulv w y)) wl))
  | None => None
  end.

Definition matvec2 (M N : nat) (A : mat) (y : Z -> Z) : Z -> Z :=
  fun p => sumZ (M * N) (fun q => A p q * y q).

Definition iasls2 (M N : nat) (lr lc l1r l1c : Z) (dr dc : nat) (wl : list (Z -> Z)) (y : Z -> Z)
  : option (list call2) :=
  if (Z.of_nat dr <? 2) || (Z.of_nat dc <? 2) then None
  else match mk2 M N lr lc dr dc, mk2 M N l1r l1c 1 1 with
       | Some s, Some s1 =>
           let sa := add_penalty2 s (q_pen s1) in
           let p1y := matvec2 M N (q_pen s1) y in
           Some (passes2 sa (map (fun w => (mulv w w, fun p => w p * w p * y p + p1y p)) wl))
       | _, _ => None
       end.

Definition drpls2 (M N : nat) (lr lc eta : Z) (dr dc : nat) (wl : list (Z -> Z)) (y : Z -> Z)
  : option (list call2) :=
  if (Z.of_nat dr <? 2) || (Z.of_nat dc <? 2) then None
  else match mk2 M N lr lc dr dc, mk2 M N 1 1 1 1 with
       | Some s, Some s1 =>
           let partial := madd (q_pen s) (q_pen s1) in
           let pp0 := smul (- eta) (q_pen s) in
           let pp2 := setdiag pp0 (fun p => diagonal pp0 p + 1) in
           Some (map (fun w => {| c2_lhs := madd partial (rowscale w pp2); c2_rhs := mulv w y |}) wl)
       | _, _ => None
       end.

Definition aspls2 (M N : nat) (lr lc : Z) (dr dc : nat) (wal : list ((Z -> Z) * (Z -> Z))) (y : Z -> Z)
  : option (list call2) :=
  match mk2 M N lr lc dr dc with
  | Some s =>
      Some (map (fun wa : (Z -> Z) * (Z -> Z) =>
              let (w, al) := wa in
              let pen := rowscale al (q_pen s) in
              {| c2_lhs := setdiag pen (fun p => diagonal pen p + w p); c2_rhs := mulv w y |}) wal)
  | None => None
  end.

(* ------------------------------------------------------------------ documented Kronecker systems *)
(* lam_r kron(D_r'D_r, I_N) + lam_c kron(I_M, D_c'D_c) at ((i,j),(i',j')) *)
Definition P2 (M N : nat) (lr lc : Z) (dr dc : nat) (i j i' j' : Z) : Z :=
  lr * DtD dr M i i' * eye j j' + lc * eye i i' * DtD dc N j j'.
(* the same on raveled indices p = i*N + j *)
Definition P2r (M N : nat) (lr lc : Z) (dr dc : nat) : mat := fun p q =>
  P2 M N lr lc dr dc (p / Z.of_nat N) (p mod Z.of_nat N) (q / Z.of_nat N) (q mod Z.of_nat N).

Definition doc2_asls M N lr lc dr dc (w : Z -> Z) : mat := fun p q => diagm w p q + P2r M N lr lc dr dc p q.
Definition doc2_iasls M N lr lc l1r l1c dr dc (w : Z -> Z) : mat := fun p q =>
  diagm (mulv w w) p q + P2r M N l1r l1c 1 1 p q + P2r M N lr lc dr dc p q.
Definition doc2_iasls_rhs M N l1r l1c (w y : Z -> Z) : Z -> Z :=
  matvec2 M N (fun p q => diagm (mulv w w) p q + P2r M N l1r l1c 1 1 p q) y.
Definition doc2_drpls M N lr lc eta dr dc (w : Z -> Z) : mat := fun p q =>
  diagm w p q + P2r M N 1 1 1 1 p q + (1 - eta * w p) * P2r M N lr lc dr dc p q.
Definition doc2_aspls M N lr lc dr dc (w al : Z -> Z) : mat := fun p q =>
  diagm w p q + al p * P2r M N lr lc dr dc p q.

(* observation *)
Definition observe_call2 (n : Z) (k : call2) := (dense n (c2_lhs k), vec n (c2_rhs k)).
