(* Per-axis eigen-decompositions of the 2-D eigendecomposition path (property C06).
   The documented reduced system uses on each axis the eigenpairs of D_d'D_d of THAT axis; they are a function E of
   the axis key (points, diff_order, num_eigens).  The source computes E(rows) and re-uses it for the columns when a
   condition made of per-component equalities holds.  Model + reflective check + proofs (small, one file). *)
From Coq Require Import ZArith List Bool String Lia.
From PB Require Import gen.GenC06EigShare.
Import ListNotations.
Open Scope Z_scope.

Definition key := (Z * Z * Z)%type.                (* points, diff_order, num_eigens of one axis *)
Record flags := { f_points : bool; f_order : bool; f_eigens : bool }.   (* which components the condition compares *)

Definition mem (x : string) (l : list string) : bool := existsb (String.eqb x) l.
Definition flags_of (c : option (list string)) : option flags :=
  match c with
  | None => None                                    (* nothing is shared: both axes are decomposed *)
  | Some l => Some {| f_points := mem "_num_points" l; f_order := mem "diff_order" l; f_eigens := mem "_num_bases" l |}
  end.

Definition agree (f : flags) (a b : key) : bool :=
  let '(n, d, g) := a in let '(n', d', g') := b in
  (if f_points f then n =? n' else true) && (if f_order f then d =? d' else true) && (if f_eigens f then g =? g' else true).

(* what the columns get *)
Definition cols_used {T} (E : key -> T) (c : option flags) (krow kcol : key) : T :=
  match c with
  | Some f => if agree f krow kcol then E krow else E kcol
  | None => E kcol
  end.

Definition flags_ok (c : option flags) : bool :=
  match c with Some f => f_points f && f_order f && f_eigens f | None => true end.

(* the two calls take the three components of axis 0 resp. axis 1, in the order (points, diff_order, num_eigens) *)
Definition call_ok (ax : Z) (c : (string * Z) * (string * Z) * (string * Z)) : bool :=
  let '((a, i), (b, j), (e, k)) := c in
  String.eqb a "_num_points" && String.eqb b "diff_order" && String.eqb e "_num_bases" && (i =? ax) && (j =? ax) && (k =? ax).
Definition calls_ok (l : list ((string * Z) * (string * Z) * (string * Z))) : bool :=
  match l with [r; c] => call_ok 0 r && call_ok 1 c | _ => false end.

Definition echeck : bool := calls_ok eig_calls && flags_ok (flags_of share_conds).

(* a condition that compares all three components never hands the columns a foreign decomposition *)
Lemma share_sound {T} (E : key -> T) c krow kcol : flags_ok c = true -> cols_used E c krow kcol = E kcol.
Proof.
  destruct c as [f|]; [|reflexivity]. cbn. intros H.
  apply andb_true_iff in H as [H H3]. apply andb_true_iff in H as [H1 H2].
  destruct krow as [[n d] g], kcol as [[n' d'] g']. unfold agree. rewrite H1, H2, H3.
  destruct (n =? n') eqn:E1, (d =? d') eqn:E2, (g =? g') eqn:E3; cbn [andb]; try reflexivity.
  apply Z.eqb_eq in E1, E2, E3. subst. reflexivity.
Qed.

(* one that omits a component does, for some axis keys *)
Lemma share_refuted f : flags_ok (Some f) = false ->
  exists krow kcol : key, cols_used (fun k => k) (Some f) krow kcol <> kcol.
Proof.
  destruct f as [[|] [|] [|]]; cbn; intros H; try discriminate.
  - exists (16, 2, 6), (16, 2, 7). vm_compute. discriminate.
  - exists (16, 2, 6), (16, 1, 6). vm_compute. discriminate.
  - exists (16, 2, 6), (16, 1, 6). vm_compute. discriminate.
  - exists (16, 2, 6), (15, 2, 6). vm_compute. discriminate.
  - exists (16, 2, 6), (15, 2, 6). vm_compute. discriminate.
  - exists (16, 2, 6), (15, 2, 6). vm_compute. discriminate.
  - exists (16, 2, 6), (15, 2, 6). vm_compute. discriminate.
Qed.

(* pinned source *)
Lemma eigshare_checked : echeck = true.
Proof. vm_compute. reflexivity. Qed.
