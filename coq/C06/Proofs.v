(* Proofs for property C06: what every Whittaker method hands to the banded solver DENOTES the
   documented penalized least-squares system, for every size N > d, every diff_order, every
   weights / data / lam, every banded_solver setting with pentapy present or absent, and at every
   pass of the loop.  Built on C11 (the penalty bands denote D'D for every N and layout). *)
From Coq Require Import ZArith List Bool Lia ZifyBool.
From PB Require Import lib.SumZ lib.PySlice lib.Arr C11.DtD C11.Table gen.GenBands C11.Banded C11.History C06.Model.
Import ListNotations.
Open Scope Z_scope.

Ltac Zify.zify_post_hook ::= Z.to_euclidean_division_equations.

(* ------------------------------------------------------------------ reading D'D out of the C11 layouts *)
Lemma bs_full d N i j : 0 <= i < Z.of_nat N -> 0 <= j < Z.of_nat N ->
  band_spec d N false (Z.of_nat d + i - j) j = DtD d N i j.
Proof.
  intros Hi Hj. unfold band_spec, band_r. cbv zeta.
  replace (j + (Z.of_nat d + i - j - Z.of_nat d)) with i by lia.
  destruct (0 <=? i) eqn:?, (i <? Z.of_nat N) eqn:?; cbn [andb]; try lia; try reflexivity.
Qed.

(* row-aligned reading (column index = matrix row): the reversed layout of the symmetric D'D *)
Lemma bs_full_T d N i j : 0 <= i < Z.of_nat N -> 0 <= j < Z.of_nat N ->
  band_spec d N false (Z.of_nat d - i + j) i = DtD d N i j.
Proof.
  intros Hi Hj. replace (Z.of_nat d - i + j) with (Z.of_nat d + j - i) by lia.
  rewrite bs_full by lia. apply DtD_sym.
Qed.

Lemma bs_lower d N i j : 0 <= i < Z.of_nat N -> 0 <= j < Z.of_nat N ->
  band_spec d N true (Z.abs (i - j)) (Z.min i j) = DtD d N i j.
Proof.
  intros Hi Hj. unfold band_spec, band_r. cbv zeta.
  destruct (Z_le_gt_dec j i).
  - replace (Z.min i j + Z.abs (i - j)) with i by lia. replace (Z.min i j) with j by lia.
    destruct (0 <=? i) eqn:?, (i <? Z.of_nat N) eqn:?; cbn [andb]; try lia; try reflexivity.
  - replace (Z.min i j + Z.abs (i - j)) with j by lia. replace (Z.min i j) with i by lia.
    destruct (0 <=? j) eqn:?, (j <? Z.of_nat N) eqn:?; cbn [andb]; try lia; apply DtD_sym.
Qed.

Lemma DtD_out d N i j : Z.of_nat d < Z.abs (i - j) -> DtD d N i j = 0.
Proof. intros H. apply DtD_band. lia. Qed.

(* ------------------------------------------------------------------ _setup_whittaker *)
Definition pt_of (hp : bool) (bs : Z) (d : nat) : bool := (bs <? 3) && hp && (Z.of_nat d =? 2).
Definition lo_of (hp : bool) (bs : Z) (d : nat) (al : bool) : bool := (al && (bs <? 4)) && negb (pt_of hp bs d).
Definition rev_of (hp : bool) (bs : Z) (d : nat) (rv : option bool) : bool :=
  match rv with Some b => b | None => pt_of hp bs d end.

Lemma setup_spec hp bs N lam d al rv :
  (1 <= d < N)%nat -> 0 < lam ->
  let lo := lo_of hp bs d al in let rev := rev_of hp bs d rv in
  exists ws, setup hp bs N lam d al rv = Some ws /\
    w_lower ws = lo /\ w_rev ws = rev /\ w_penta ws = pt_of hp bs d /\
    nr (w_pen ws) = (if lo then Z.of_nat d + 1 else 2 * Z.of_nat d + 1) /\
    nc (w_pen ws) = Z.of_nat N /\ w_nb ws = Z.of_nat d /\
    w_main ws = (if lo then 0 else Z.of_nat d) /\
    (forall r c, 0 <= r < nr (w_pen ws) -> 0 <= c < Z.of_nat N ->
        get (w_pen ws) r c = lam * get (layout d N lo rev) r c) /\
    (forall c, w_maind ws c = get (w_pen ws) (w_main ws) c).
Proof.
  intros Hd Hlam lo rev. unfold setup.
  replace (Z.of_nat d <? 1) with false by lia.
  set (c := {| c_lam := lam; c_d := d; c_allow_lower := al && (bs <? 4); c_rev := rv;
               c_allow_penta := bs <? 3; c_pad := 0 |}).
  assert (Elo : want_lower hp c = lo) by reflexivity.
  assert (Erev : want_rev hp c = rev) by reflexivity.
  assert (Ept : want_penta hp c = pt_of hp bs d) by reflexivity.
  destruct (fresh_layout N d lo rev ltac:(lia)) as (a & Ha & Hal).
  unfold reset. rewrite Elo, Erev, Ept. cbn [c_d c_lam c_pad c]. rewrite Ha.
  replace (0 <? lam) with true by lia.
  eexists. split; [reflexivity|].
  destruct Hal as (H1 & H2 & H3).
  assert (Hnr : nr (maybe_rev rev a) = if lo then Z.of_nat d + 1 else 2 * Z.of_nat d + 1).
  { rewrite H1. unfold layout, spec_bands. destruct rev, lo; reflexivity. }
  assert (Hnc : nc (maybe_rev rev a) = Z.of_nat N).
  { rewrite H2. unfold layout, spec_bands. destruct rev; reflexivity. }
  unfold finish, of_sys, pad_diagonals. rewrite Z.ltb_irrefl.
  cbn [w_lower w_rev w_penta w_pen w_nb w_main w_maind s_lower s_rev s_penta s_pen s_num_bands s_main scale nr nc get].
  repeat split; try assumption.
  - rewrite Hnr. destruct lo; lia.
  - rewrite Hnr. destruct lo; lia.
  - intros r c0 Hr Hc. rewrite H3 by lia. reflexivity.
Qed.

(* ------------------------------------------------------------------ add_diagonal passes *)
Lemma Forall2_map_r {A B} (P : A -> B -> Prop) (f : A -> B) (l : list A) :
  (forall a, P a (f a)) -> Forall2 P l (map f l).
Proof. intros H. induction l; cbn [map]; constructor; auto. Qed.

Section Diag.
  Variable N : Z.
  Variable u : Z.

  (* where the entry (i, j) of the matrix sits in the stored bands *)
  Definition coord (ws : wsys) (i j : Z) : Z * Z :=
    if w_penta ws then (u + i - j, i)
    else if w_lower ws then (Z.abs (i - j), Z.min i j)
    else (u + i - j, j).

  (* the penalty with its main row as remembered in main_diagonal *)
  Definition rd (ws : wsys) (r c : Z) : Z :=
    if r =? w_main ws then w_maind ws c else get (w_pen ws) r c.

  Record SInv (B : Z -> Z -> Z) (ws : wsys) : Prop := {
    si_u : 0 <= u;
    si_nc : nc (w_pen ws) = N;
    si_penta : w_penta ws = true -> w_lower ws = false /\ u = 2;
    si_nr : nr (w_pen ws) = if w_lower ws then u + 1 else 2 * u + 1;
    si_main : w_main ws = if w_lower ws then 0 else u;
    si_get : forall i j, 0 <= i < N -> 0 <= j < N -> Z.abs (i - j) <= u ->
               rd ws (fst (coord ws i j)) (snd (coord ws i j)) = B i j
  }.

  Definition Banded (B : Z -> Z -> Z) : Prop :=
    forall i j, 0 <= i < N -> 0 <= j < N -> u < Z.abs (i - j) -> B i j = 0.

  Lemma rd_add_diagonal ws v r c : rd (add_diagonal ws v) r c = rd ws r c.
  Proof.
    unfold rd, add_diagonal, set_row; cbn [w_main w_maind w_pen get].
    destruct (r =? w_main ws); reflexivity.
  Qed.

  Lemma add_diagonal_inv B ws v : SInv B ws -> SInv B (add_diagonal ws v).
  Proof.
    intros [H1 H2 H3 H4 H5 H6]. constructor; try assumption.
    intros i j Hi Hj Hb. rewrite rd_add_diagonal.
    change (coord (add_diagonal ws v) i j) with (coord ws i j). apply H6; assumption.
  Qed.

  Lemma coord_main ws i j : w_main ws = (if w_lower ws then 0 else u) ->
    (w_penta ws = true -> w_lower ws = false) ->
    (fst (coord ws i j) =? w_main ws) = (i =? j).
  Proof.
    intros Hm Hp. unfold coord. rewrite Hm.
    destruct (w_penta ws) eqn:Ep.
    - rewrite (Hp eq_refl). cbn [fst]. lia.
    - destruct (w_lower ws); cbn [fst]; lia.
  Qed.

  (* the pass: lhs = add_diagonal(v), solve(lhs, rhs) with l_and_u = None *)
  Lemma pass_den B ws v rhs :
    SInv B ws -> Banded B ->
    let ws' := add_diagonal ws v in
    let k := solve_call ws' (w_pen ws') rhs None in
    call_wf N k = true /\
    (forall i j, 0 <= i < N -> 0 <= j < N -> den k i j = B i j + diagm v i j) /\
    k_rhs k = rhs.
  Proof.
    intros [H1 H2 H3 H4 H5 H6] HB ws' k.
    assert (Hpl : w_penta ws = true -> w_lower ws = false) by (intros E; apply (H3 E)).
    assert (Hget : forall i j, 0 <= i < N -> 0 <= j < N -> Z.abs (i - j) <= u ->
              get (w_pen ws') (fst (coord ws i j)) (snd (coord ws i j))
              = B i j + (if i =? j then v (snd (coord ws i j)) else 0)).
    { intros i j Hi Hj Hb. specialize (H6 i j Hi Hj Hb). unfold rd in H6.
      unfold ws', add_diagonal, set_row; cbn [w_pen get].
      pose proof (coord_main ws i j H5 Hpl) as Hc. rewrite Hc in *.
      destruct (i =? j); rewrite H6; ring. }
    unfold k, solve_call. change (w_penta ws') with (w_penta ws). change (w_lower ws') with (w_lower ws).
    change (nr (w_pen ws')) with (nr (w_pen ws)). unfold call_wf, den, diagm.
    destruct (w_penta ws) eqn:Ep.
    - destruct (H3 eq_refl) as [El Eu]. rewrite El in *.
      cbn [k_solver k_lhs k_rhs]. change (nc (w_pen ws')) with (nc (w_pen ws)).
      change (nr (w_pen ws')) with (nr (w_pen ws)).
      split; [lia|]. split; [|reflexivity]. intros i j Hi Hj.
      destruct (Z.abs (i - j) <=? 2) eqn:Hb.
      + specialize (Hget i j Hi Hj ltac:(lia)). unfold coord in Hget. rewrite Ep in Hget.
        cbn [fst snd] in Hget. rewrite Eu in Hget. rewrite Hget.
        destruct (i =? j) eqn:?; reflexivity.
      + rewrite HB by lia. destruct (i =? j) eqn:?; lia.
    - destruct (w_lower ws) eqn:El.
      + cbn [k_solver k_lhs k_rhs]. change (nc (w_pen ws')) with (nc (w_pen ws)).
        change (nr (w_pen ws')) with (nr (w_pen ws)).
        split; [lia|]. split; [|reflexivity]. intros i j Hi Hj. rewrite H4.
        destruct (Z.abs (i - j) <? u + 1) eqn:Hb.
        * specialize (Hget i j Hi Hj ltac:(lia)). unfold coord in Hget. rewrite Ep, El in Hget.
          cbn [fst snd] in Hget. rewrite Hget.
          destruct (i =? j) eqn:?; [replace (Z.min i j) with i by lia|]; reflexivity.
        * rewrite HB by lia. destruct (i =? j) eqn:?; lia.
      + cbn [k_solver k_lhs k_rhs]. change (nc (w_pen ws')) with (nc (w_pen ws)).
        change (nr (w_pen ws')) with (nr (w_pen ws)). rewrite H4.
        replace ((2 * u + 1) / 2) with u by lia.
        split; [lia|]. split; [|reflexivity]. intros i j Hi Hj.
        destruct ((- u <=? i - j) && (i - j <=? u)) eqn:Hb.
        * specialize (Hget i j Hi Hj ltac:(lia)). unfold coord in Hget. rewrite Ep, El in Hget.
          cbn [fst snd] in Hget. rewrite Hget.
          destruct (i =? j) eqn:?; [replace j with i by lia|]; reflexivity.
        * rewrite HB by lia. destruct (i =? j) eqn:?; lia.
  Qed.

  Definition pass_ok (B : Z -> Z -> Z) (p : (Z -> Z) * (Z -> Z)) (k : call) : Prop :=
    call_wf N k = true /\
    (forall i j, 0 <= i < N -> 0 <= j < N -> den k i j = B i j + diagm (fst p) i j) /\
    k_rhs k = snd p.

  (* every pass of an add_diagonal loop, whatever happened in the passes before *)
  Lemma diag_passes_spec B : Banded B -> forall passes ws, SInv B ws ->
    Forall2 (pass_ok B) passes (diag_passes ws passes).
  Proof.
    intros HB. induction passes as [|[v rhs] rest IH]; intros ws HI; cbn [diag_passes]; constructor.
    - exact (pass_den B ws v rhs HI HB).
    - apply IH. apply add_diagonal_inv, HI.
  Qed.
End Diag.

(* ------------------------------------------------------------------ asls-type methods *)
Lemma rd_clean ws r c : (forall c, w_maind ws c = get (w_pen ws) (w_main ws) c) ->
  rd ws r c = get (w_pen ws) r c.
Proof. intros H. unfold rd. destruct (r =? w_main ws) eqn:E; [|reflexivity].
  rewrite H. f_equal. lia. Qed.

Lemma pt_of_d hp bs d : pt_of hp bs d = true -> Z.of_nat d = 2.
Proof. unfold pt_of. lia. Qed.

(* the freshly set-up system (reverse_diags=None) holds lam D'D in the layout its flags claim *)
Lemma fresh_SInv hp bs N lam d al ws :
  (1 <= d < N)%nat -> 0 < lam -> setup hp bs N lam d al None = Some ws ->
  SInv (Z.of_nat N) (Z.of_nat d) (fun i j => lam * DtD d N i j) ws /\
  (forall c, w_maind ws c = get (w_pen ws) (w_main ws) c) /\
  w_penta ws = pt_of hp bs d /\ w_lower ws = lo_of hp bs d al.
Proof.
  intros Hd Hlam Hs.
  destruct (setup_spec hp bs N lam d al None Hd Hlam) as (ws0 & Hs0 & Hlo & Hrev & Hpt & Hnr & Hnc & Hnb & Hmain & Hget & Hmd).
  rewrite Hs in Hs0. injection Hs0 as <-.
  split; [|split; [exact Hmd|split; [exact Hpt|exact Hlo]]].
  cbn [rev_of] in Hrev. change (rev_of hp bs d None) with (pt_of hp bs d) in Hget.
  constructor.
  - lia.
  - exact Hnc.
  - intros Ep. rewrite Hpt in Ep. rewrite Hlo. unfold lo_of. rewrite Ep. split; [destruct (al && (bs <? 4)); reflexivity|].
    apply (pt_of_d _ _ _ Ep).
  - rewrite Hnr, Hlo. reflexivity.
  - rewrite Hmain, Hlo. reflexivity.
  - intros i j Hi Hj Hb. rewrite (rd_clean _ _ _ Hmd).
    unfold coord. rewrite Hpt, Hlo. unfold lo_of in *.
    destruct (pt_of hp bs d) eqn:Ep.
    + cbn [fst snd]. rewrite andb_false_r in *. rewrite Hget by (rewrite ?Hnr; lia).
      unfold layout. cbn [maybe_rev rev_rows spec_bands nr nc get]. f_equal.
      replace (2 * Z.of_nat d + 1 - 1 - (Z.of_nat d + i - j)) with (Z.of_nat d - i + j) by lia.
      apply bs_full_T; lia.
    + rewrite andb_true_r in *. destruct (al && (bs <? 4)) eqn:El; cbn [fst snd].
      * rewrite Hget by (rewrite ?Hnr; lia). unfold layout. cbn [maybe_rev spec_bands get]. f_equal.
        apply bs_lower; lia.
      * rewrite Hget by (rewrite ?Hnr; lia). unfold layout. cbn [maybe_rev spec_bands get]. f_equal.
        apply bs_full; lia.
Qed.

Lemma lamDtD_banded N d lam : Banded (Z.of_nat N) (Z.of_nat d) (fun i j => lam * DtD d N i j).
Proof. intros i j Hi Hj Hb. rewrite DtD_out by lia. ring. Qed.

Lemma setup_some hp bs N lam d al rv :
  (1 <= d < N)%nat -> 0 < lam -> exists ws, setup hp bs N lam d al rv = Some ws.
Proof. intros Hd Hl. destruct (setup_spec hp bs N lam d al rv Hd Hl) as (ws & H & _). eauto. Qed.

(* what a pass must satisfy: the call is well-formed for its library entry point, denotes A, and
   carries the right-hand side b *)
Definition sys_ok (N : nat) (A : Z -> Z -> Z) (b : Z -> Z) (k : call) : Prop :=
  call_wf (Z.of_nat N) k = true /\
  (forall i j, 0 <= i < Z.of_nat N -> 0 <= j < Z.of_nat N -> den k i j = A i j) /\
  (forall i, 0 <= i < Z.of_nat N -> k_rhs k i = b i).

Theorem asls_system hp bs N lam d wl y :
  (1 <= d < N)%nat -> 0 < lam ->
  exists cs, asls hp bs N lam d wl y = Some cs /\
    Forall2 (fun w k => sys_ok N (doc_asls N d lam w) (mulv w y) k) wl cs.
Proof.
  intros Hd Hlam. unfold asls.
  destruct (setup_some hp bs N lam d true None Hd Hlam) as (ws & Hs). rewrite Hs.
  eexists. split; [reflexivity|].
  destruct (fresh_SInv hp bs N lam d true ws Hd Hlam Hs) as (HI & _).
  pose proof (diag_passes_spec _ _ _ (lamDtD_banded N d lam) (map (fun w => (w, mulv w y)) wl) ws HI) as HF.
  clear - HF. revert HF. generalize (diag_passes ws (map (fun w : Z -> Z => (w, mulv w y)) wl)).
  induction wl as [|w wl IH]; intros cs HF; cbn [map] in HF; inversion HF; subst; constructor.
  - destruct H1 as (W1 & W2 & W3). cbn [fst snd] in *. split; [exact W1|]. split.
    + intros i j Hi Hj. rewrite W2 by assumption. unfold doc_asls. ring.
    + intros i Hi. rewrite W3. reflexivity.
  - apply IH. assumption.
Qed.

(* utils.whittaker_smooth builds the system that _setup_whittaker builds for banded_solver = 1 and
   runs one add_diagonal pass: a corollary of asls_system *)
Theorem whittaker_smooth_system hp N lam d w y :
  (1 <= d < N)%nat -> 0 < lam ->
  exists k, whittaker_smooth hp N lam d w y = Some k /\ sys_ok N (doc_asls N d lam w) (mulv w y) k.
Proof.
  intros Hd Hlam.
  destruct (asls_system hp 1 N lam d [w] y Hd Hlam) as (cs & Hcs & HF).
  unfold asls, setup in Hcs. replace (Z.of_nat d <? 1) with false in Hcs by lia.
  change (true && (1 <? 4)) with true in Hcs. change (1 <? 3) with true in Hcs.
  unfold whittaker_smooth.
  destruct (reset hp N None {| c_lam := lam; c_d := d; c_allow_lower := true; c_rev := None;
                               c_allow_penta := true; c_pad := 0 |}) as [s|]; [|discriminate].
  cbn [map diag_passes] in Hcs. injection Hcs as <-.
  eexists. split; [reflexivity|]. inversion HF; subst. assumption.
Qed.

(* ------------------------------------------------------------------ add_penalty / _add_diagonals *)
Section AddPen.
  Variables (N u u' : Z).

  Lemma add_penalty_inv B B' ws p :
    SInv N u B ws -> (forall c, w_maind ws c = get (w_pen ws) (w_main ws) c) ->
    0 <= u' <= u -> nc p = N -> nr p = (if w_lower ws then u' + 1 else 2 * u' + 1) ->
    (forall i j, 0 <= i < N -> 0 <= j < N -> Z.abs (i - j) <= u' ->
        get p (fst (coord u' ws i j)) (snd (coord u' ws i j)) = B' i j) ->
    Banded N u' B' ->
    exists ws', add_penalty ws p = Some ws' /\
      SInv N u (fun i j => B i j + B' i j) ws' /\
      (forall c, w_maind ws' c = get (w_pen ws') (w_main ws') c) /\
      w_penta ws' = w_penta ws /\ w_lower ws' = w_lower ws.
  Proof.
    intros [H1 H2 H3 H4 H5 H6] Hcl Hu Hncp Hnrp Hp HB'.
    (* the padded summand q reads B' at the coordinates of the big system *)
    assert (Hq : exists q, add_diagonals (w_pen ws) p (w_lower ws) = Some (add_arr (w_pen ws) q) /\
              forall i j, 0 <= i < N -> 0 <= j < N -> Z.abs (i - j) <= u ->
                get q (fst (coord u ws i j)) (snd (coord u ws i j)) = B' i j).
    { unfold add_diagonals. rewrite H2, Hncp, Z.eqb_refl. cbn [negb]. rewrite H4, Hnrp. cbv zeta.
      destruct (w_lower ws) eqn:El.
      - destruct (u + 1 - (u' + 1) =? 0) eqn:E0.
        + exists p. split; [reflexivity|]. intros i j Hi Hj Hb.
          specialize (Hp i j Hi Hj ltac:(lia)). unfold coord in *. rewrite El in *.
          destruct (w_penta ws); [destruct (H3 eq_refl); discriminate|]. exact Hp.
        + replace (0 <? u + 1 - (u' + 1)) with true by lia.
          eexists. split; [reflexivity|]. intros i j Hi Hj Hb.
          unfold coord. rewrite El. destruct (w_penta ws) eqn:Ep; [destruct (H3 eq_refl); discriminate|].
          cbn [fst snd pad_bottom get]. rewrite Hnrp.
          destruct (Z.abs (i - j) <? u' + 1) eqn:Hb'.
          * specialize (Hp i j Hi Hj ltac:(lia)). unfold coord in Hp. rewrite El, Ep in Hp. exact Hp.
          * symmetry. apply HB'; lia.
      - destruct (2 * u + 1 - (2 * u' + 1) =? 0) eqn:E0.
        + exists p. split; [reflexivity|]. intros i j Hi Hj Hb.
          specialize (Hp i j Hi Hj ltac:(lia)). unfold coord in *. rewrite El in *.
          replace u with u' by lia. exact Hp.
        + replace (Z.abs (2 * u + 1 - (2 * u' + 1)) mod 2 =? 0) with true by lia. cbn [negb].
          replace (0 <? 2 * u + 1 - (2 * u' + 1)) with true by lia.
          replace (Z.abs (2 * u + 1 - (2 * u' + 1)) / 2) with (u - u') by lia.
          eexists. split; [reflexivity|]. intros i j Hi Hj Hb.
          assert (Hc : coord u ws i j = (u + i - j, snd (coord u' ws i j)) /\
                       coord u' ws i j = (u' + i - j, snd (coord u' ws i j))).
          { unfold coord. rewrite El. destruct (w_penta ws); split; reflexivity. }
          destruct Hc as [Hc1 Hc2]. rewrite Hc1. cbn [fst snd pad_both get]. rewrite Hnrp.
          destruct ((u - u' <=? u + i - j) && (u + i - j <? u - u' + (2 * u' + 1))) eqn:Hb'.
          * specialize (Hp i j Hi Hj ltac:(lia)). rewrite Hc2 in Hp. cbn [fst] in Hp.
            replace (u + i - j - (u - u')) with (u' + i - j) by lia. exact Hp.
          * symmetry. apply HB'; lia. }
    destruct Hq as (q & Hadd & Hqget).
    unfold add_penalty. rewrite Hadd. eexists. split; [reflexivity|].
    assert (Hnb : (if w_lower ws then nr (add_arr (w_pen ws) q) - 1 else nr (add_arr (w_pen ws) q) / 2) = u).
    { cbn [add_arr nr]. rewrite H4. destruct (w_lower ws); lia. }
    unfold update_bands. rewrite Hnb.
    split; [|split; [|split]]; cbn [w_pen w_main w_maind w_penta w_lower]; try reflexivity.
    constructor; cbn [w_pen w_main w_maind w_penta w_lower add_arr nr nc]; try assumption.
    - destruct (w_lower ws); reflexivity.
    - intros i j Hi Hj Hb.
      rewrite rd_clean by (intros; reflexivity).
      change (coord u {| w_lower := w_lower ws; w_rev := w_rev ws; w_penta := w_penta ws;
                         w_pen := add_arr (w_pen ws) q; w_nb := u;
                         w_main := if w_lower ws then 0 else u;
                         w_maind := fun c => get (add_arr (w_pen ws) q) (if w_lower ws then 0 else u) c |} i j)
        with (coord u ws i j).
      cbn [w_pen add_arr get]. rewrite Hqget by assumption.
      rewrite <- (H6 i j Hi Hj Hb). rewrite (rd_clean _ _ _ Hcl). reflexivity.
  Qed.
End AddPen.

(* ------------------------------------------------------------------ D1'D1 explicitly, and the d1_y closed form *)
Definition T1 (N i j : Z) : Z :=
  if i =? j then (if (i =? 0) || (i =? N - 1) then 1 else 2)
  else if Z.abs (i - j) =? 1 then -1 else 0.

Lemma DtD1_lower N j r : (2 <= N)%nat -> 0 <= r <= 1 -> 0 <= j -> j + r < Z.of_nat N ->
  DtD 1 N (j + r) j = T1 (Z.of_nat N) (j + r) j.
Proof.
  intros HN Hr Hj Hjr. rewrite edge_form by (cbn; lia). unfold T1.
  change (Z.of_nat 1) with 1.
  remember (Z.min j 1) as a eqn:Ea. remember (Z.min (Z.of_nat N - 1 - j - r) 1) as b eqn:Eb.
  remember (j + r) as i eqn:Ei.
  assert (Ha : a = 0 /\ j = 0 \/ a = 1 /\ 1 <= j) by lia.
  assert (Hb : b = 0 /\ i = Z.of_nat N - 1 \/ b = 1 /\ i < Z.of_nat N - 1) by lia.
  assert (Hr' : r = 0 \/ r = 1) by lia.
  clear Ea Eb.
  destruct Ha as [[-> Ha]|[-> Ha]], Hb as [[-> Hb]|[-> Hb]], Hr' as [-> | ->];
    match goal with |- ?l = _ => let v := eval vm_compute in l in change l with v end;
    destruct (i =? j) eqn:?, ((i =? 0) || (i =? Z.of_nat N - 1)) eqn:?,
             (Z.abs (i - j) =? 1) eqn:?; lia.
Qed.

Lemma T1_sym N i j : T1 N i j = T1 N j i.
Proof. unfold T1. destruct (i =? j) eqn:?, (j =? i) eqn:?; try lia.
  - replace j with i by lia. reflexivity.
  - replace (Z.abs (j - i)) with (Z.abs (i - j)) by lia. reflexivity. Qed.

Lemma DtD1_explicit N i j : (2 <= N)%nat -> 0 <= i < Z.of_nat N -> 0 <= j < Z.of_nat N ->
  DtD 1 N i j = T1 (Z.of_nat N) i j.
Proof.
  intros HN Hi Hj.
  destruct (Z_lt_le_dec 1 (Z.abs (i - j))) as [Hb|Hb].
  - rewrite DtD_out by (cbn; lia). unfold T1.
    destruct (i =? j) eqn:?, (Z.abs (i - j) =? 1) eqn:?; lia.
  - destruct (Z_le_gt_dec j i).
    + pose proof (DtD1_lower N j (i - j) HN ltac:(lia) ltac:(lia) ltac:(lia)) as H.
      replace (j + (i - j)) with i in H by lia. exact H.
    + rewrite DtD_sym, T1_sym.
      pose proof (DtD1_lower N i (j - i) HN ltac:(lia) ltac:(lia) ltac:(lia)) as H.
      replace (i + (j - i)) with j in H by lia. exact H.
Qed.

(* C06_d1y_closed_form: the three-slice formula of iasls is D1'D1 y, for every N >= 2 *)
Theorem d1y_closed_form (N : nat) (y : Z -> Z) (i : Z) :
  (2 <= N)%nat -> 0 <= i < Z.of_nat N ->
  d1y (Z.of_nat N) y i = matvec N (DtD 1 N) y i.
Proof.
  intros HN Hi. unfold matvec.
  rewrite (sumZ_ext N _ (fun j => ((if j =? i - 1 then - y (i - 1) else 0)
                                  + (if j =? i then T1 (Z.of_nat N) i i * y i else 0))
                                  + (if j =? i + 1 then - y (i + 1) else 0))).
  2:{ intros j Hj. rewrite DtD1_explicit by lia. unfold T1.
      destruct (i =? j) eqn:?, (j =? i - 1) eqn:?, (j =? i) eqn:?, (j =? i + 1) eqn:?,
               (Z.abs (i - j) =? 1) eqn:?; try lia.
      - rewrite Z.eqb_refl. replace j with i by lia. ring.
      - replace j with (i - 1) by lia. ring.
      - replace j with (i + 1) by lia. ring. }
  rewrite !sumZ_add, !sumZ_point. unfold d1y, T1. rewrite Z.eqb_refl.
  destruct ((1 <=? i) && (i <? Z.of_nat N - 1)) eqn:?, (i =? Z.of_nat N - 1) eqn:?, (i =? 0) eqn:?,
           ((0 <=? i - 1) && (i - 1 <? Z.of_nat N)) eqn:?, ((0 <=? i) && (i <? Z.of_nat N)) eqn:?,
           ((0 <=? i + 1) && (i + 1 <? Z.of_nat N)) eqn:?; cbn [orb]; try lia.
  - assert (E : i = Z.of_nat N - 1) by lia. subst i.
    replace (Z.of_nat N - 1 - 1) with (Z.of_nat N - 2) by lia. ring.
  - assert (E : i = 0) by lia. subst i. change (0 + 1) with 1. ring.
Qed.

(* ------------------------------------------------------------------ iasls *)
Lemma Forall2_map_l {A B C} (P : A -> C -> Prop) (Q : B -> C -> Prop) (f : A -> B) (l : list A) :
  forall cs, Forall2 Q (map f l) cs -> (forall a c, Q (f a) c -> P a c) -> Forall2 P l cs.
Proof.
  induction l as [|a l IH]; intros cs HF HPQ; cbn [map] in HF; inversion HF; subst; constructor; auto.
Qed.

Lemma dpd1 N lower pad : (2 <= N)%nat ->
  exists a0, dpd N 1 lower pad = DpdOk (pad_diagonals a0 pad lower) /\ aeq a0 (spec_bands 1 N lower).
Proof.
  intros HN. destruct (dpd_core_exact N 1 lower ltac:(lia)) as (a & Ha & Haeq).
  exists a. unfold dpd. rewrite Ha. split; [reflexivity|assumption].
Qed.

Lemma matvec_diag_plus N v lam1 A y i : 0 <= i < Z.of_nat N ->
  matvec N (fun i j => diagm v i j + lam1 * A i j) y i = v i * y i + lam1 * matvec N A y i.
Proof.
  intros Hi. unfold matvec, diagm.
  rewrite (sumZ_ext N _ (fun j => (if j =? i then v i * y i else 0) + lam1 * (A i j * y j))).
  2:{ intros j Hj. destruct (i =? j) eqn:?, (j =? i) eqn:?; try lia;
        try (replace j with i by lia); ring. }
  rewrite sumZ_add, sumZ_point, sumZ_scale.
  destruct ((0 <=? i) && (i <? Z.of_nat N)) eqn:?; lia.
Qed.

Theorem iasls_system hp bs N lam lam1 d wl y :
  (2 <= d < N)%nat -> 0 < lam ->
  exists cs, iasls hp bs N lam lam1 d wl y = Some cs /\
    Forall2 (fun w k => sys_ok N (doc_iasls N d lam lam1 w) (doc_iasls_rhs N lam1 w y) k) wl cs.
Proof.
  intros Hd Hlam. unfold iasls. replace (Z.of_nat d <? 2) with false by lia.
  destruct (setup_some hp bs N lam d true None ltac:(lia) Hlam) as (ws & Hs). rewrite Hs.
  destruct (fresh_SInv hp bs N lam d true ws ltac:(lia) Hlam Hs) as (HI & Hcl & Hpt & Hlo).
  destruct (dpd1 N (w_lower ws) 1 ltac:(lia)) as (a0 & Hd1 & (A1 & A2 & A3)). rewrite Hd1.
  cbn [spec_bands nr nc get] in A1, A2, A3.
  set (d1 := pad_diagonals a0 1 (w_lower ws)).
  set (p := scale lam1 (if w_penta ws then rev_rows d1 else d1)).
  assert (Hnrd1 : nr d1 = if w_lower ws then 3 else 5).
  { unfold d1, pad_diagonals. change (0 <? 1) with true. destruct (w_lower ws); cbn [nr]; rewrite A1; cbn; lia. }
  assert (Hncd1 : nc d1 = Z.of_nat N).
  { unfold d1, pad_diagonals. change (0 <? 1) with true. destruct (w_lower ws); cbn [nc]; exact A2. }
  pose proof (si_penta _ _ _ _ HI) as Hpen.
  destruct (add_penalty_inv (Z.of_nat N) (Z.of_nat d) 2 _ (fun i j => lam1 * DtD 1 N i j) ws p HI Hcl)
    as (ws1 & Hap & HI1 & Hcl1 & Hpt1 & Hlo1).
  - lia.
  - unfold p. destruct (w_penta ws); cbn [scale rev_rows nc]; exact Hncd1.
  - unfold p. destruct (w_penta ws); cbn [scale rev_rows nr]; exact Hnrd1.
  - intros i j Hi Hj Hb. unfold coord, p.
    destruct (w_penta ws) eqn:Ep.
    + destruct (Hpen eq_refl) as [El _]. cbn [fst snd scale rev_rows get nr]. f_equal.
      rewrite El in A1, A3, Hnrd1. change (nr d1 = 5) in Hnrd1.
      rewrite Hnrd1. unfold d1, pad_diagonals. change (0 <? 1) with true. rewrite El. cbn [get]. change (2 * Z.of_nat 1 + 1) with 3 in A1. rewrite A1.
      destruct ((1 <=? 5 - 1 - (2 + i - j)) && (5 - 1 - (2 + i - j) <? 1 + 3)) eqn:Hb'.
      * rewrite A3 by lia.
        replace (5 - 1 - (2 + i - j) - 1) with (Z.of_nat 1 - i + j) by (change (Z.of_nat 1) with 1; lia).
        apply bs_full_T; lia.
      * symmetry. apply DtD_out; change (Z.of_nat 1) with 1; lia.
    + destruct (w_lower ws) eqn:El; cbn [fst snd scale get]; f_equal;
        unfold d1, pad_diagonals; change (0 <? 1) with true; cbn [get].
      * change (Z.of_nat 1 + 1) with 2 in A1. rewrite A1.
        destruct (Z.abs (i - j) <? 2) eqn:Hb'.
        -- rewrite A3 by lia. apply bs_lower; lia.
        -- symmetry. apply DtD_out; change (Z.of_nat 1) with 1; lia.
      * change (2 * Z.of_nat 1 + 1) with 3 in A1. rewrite A1.
        destruct ((1 <=? 2 + i - j) && (2 + i - j <? 1 + 3)) eqn:Hb'.
        -- rewrite A3 by lia. replace (2 + i - j - 1) with (Z.of_nat 1 + i - j) by (change (Z.of_nat 1) with 1; lia).
           apply bs_full; lia.
        -- symmetry. apply DtD_out; change (Z.of_nat 1) with 1; lia.
  - intros i j Hi Hj Hb. rewrite DtD_out by (change (Z.of_nat 1) with 1; lia). ring.
  - fold d1. fold p. rewrite Hap. eexists. split; [reflexivity|].
    assert (HB : Banded (Z.of_nat N) (Z.of_nat d) (fun i j => lam * DtD d N i j + lam1 * DtD 1 N i j)).
    { intros i j Hi Hj Hb. rewrite !DtD_out by (change (Z.of_nat 1) with 1; lia). ring. }
    pose proof (diag_passes_spec _ _ _ HB
                  (map (fun w => (mulv w w, fun i => w i * w i * y i + lam1 * d1y (Z.of_nat N) y i)) wl) ws1 HI1) as HF.
    eapply Forall2_map_l; [exact HF|].
    intros w k (W1 & W2 & W3). cbn [fst snd] in *. split; [exact W1|]. split.
    + intros i j Hi Hj. rewrite W2 by assumption. unfold doc_iasls. ring.
    + intros i Hi. rewrite W3. unfold doc_iasls_rhs. rewrite matvec_diag_plus by assumption.
      rewrite d1y_closed_form by lia. unfold mulv. ring.
Qed.

(* ------------------------------------------------------------------ _shift_rows *)
(* row-aligned bands (what NumPy broadcasting of a row-scaled, reversed symmetric band array gives,
   and what pentapy's index_row_wise=True expects): data[u + i - j, i] = A[i, j];
   LAPACK bands (scipy solve_banded): ab[u + i - j, j] = A[i, j] *)
Definition den_rowaligned (u l : Z) (a : arr) (i j : Z) : Z :=
  if (- u <=? i - j) && (i - j <=? l) then get a (u + i - j) i else 0.
Definition den_lapack (u l : Z) (a : arr) (i j : Z) : Z :=
  if (- u <=? i - j) && (i - j <=? l) then get a (u + i - j) j else 0.

Theorem shift_rows_spec (a : arr) (u l i j : Z) :
  0 <= u -> 0 <= l -> nr a = u + l + 1 -> 0 <= i < nc a -> 0 <= j < nc a ->
  den_lapack u l (shift_rows a u l) i j = den_rowaligned u l a i j.
Proof.
  intros Hu Hl Hnr Hi Hj. unfold den_lapack, den_rowaligned.
  destruct ((- u <=? i - j) && (i - j <=? l)) eqn:Hb; [|reflexivity].
  unfold shift_rows, shift_lower, shift_upper. cbn [nr nc get]. cbv zeta. rewrite Hnr.
  destruct (u + l + 1 - (u + i - j) <=? l) eqn:E1.
  - destruct (j <? nc a - (l - (u + l + 1 - (u + i - j)) + 1)) eqn:E2; [|lia].
    destruct (u + i - j <? u) eqn:E3; [lia|]. f_equal. lia.
  - destruct (u + i - j <? u) eqn:E3.
    + destruct (j <? u - (u + i - j)) eqn:E4; [lia|]. f_equal. lia.
    + f_equal. lia.
Qed.

(* the closed form used inside the methods: u = l = d, 2d+1 rows *)
Lemma shift_rows_get (a : arr) (d i j : Z) :
  0 <= d -> nr a = 2 * d + 1 -> 0 <= i < nc a -> 0 <= j < nc a -> Z.abs (i - j) <= d ->
  get (shift_rows a d d) (d + i - j) j = get a (d + i - j) i.
Proof.
  intros Hd Hnr Hi Hj Hb.
  pose proof (shift_rows_spec a d d i j Hd Hd ltac:(lia) Hi Hj) as H.
  unfold den_lapack, den_rowaligned in H.
  replace ((- d <=? i - j) && (i - j <=? d)) with true in H by lia. exact H.
Qed.

(* ------------------------------------------------------------------ full-band solves with explicit l_and_u *)
Lemma solve_call_full ws lhs rhs (d : Z) (N : nat) (A : Z -> Z -> Z) :
  w_lower ws = false -> (w_penta ws = true -> d = 2) -> 0 <= d ->
  nr lhs = 2 * d + 1 -> nc lhs = Z.of_nat N ->
  (forall i j, 0 <= i < Z.of_nat N -> 0 <= j < Z.of_nat N -> Z.abs (i - j) <= d ->
      get lhs (d + i - j) (if w_penta ws then i else j) = A i j) ->
  (forall i j, 0 <= i < Z.of_nat N -> 0 <= j < Z.of_nat N -> d < Z.abs (i - j) -> A i j = 0) ->
  sys_ok N A rhs (solve_call ws lhs rhs (Some (d, d))).
Proof.
  intros Hlo Hpt Hd Hnr Hnc Hget HA. unfold solve_call, sys_ok, call_wf, den. rewrite Hlo.
  destruct (w_penta ws) eqn:Ep; cbn [k_solver k_lhs k_rhs].
  - rewrite (Hpt eq_refl) in *. split; [lia|]. split; [|reflexivity]. intros i j Hi Hj.
    destruct (Z.abs (i - j) <=? 2) eqn:Hb; [apply Hget; lia|symmetry; apply HA; lia].
  - split; [lia|]. split; [|reflexivity]. intros i j Hi Hj.
    destruct ((- d <=? i - j) && (i - j <=? d)) eqn:Hb; [apply Hget; lia|symmetry; apply HA; lia].
Qed.

(* the penalty of a full-band system built with reverse_diags = rv *)
Lemma setup_full hp bs N lam d rv ws :
  (1 <= d < N)%nat -> 0 < lam -> setup hp bs N lam d false (Some rv) = Some ws ->
  w_lower ws = false /\ w_rev ws = rv /\ (w_penta ws = true -> Z.of_nat d = 2) /\
  nr (w_pen ws) = 2 * Z.of_nat d + 1 /\ nc (w_pen ws) = Z.of_nat N /\ w_main ws = Z.of_nat d /\
  (forall c, w_maind ws c = get (w_pen ws) (w_main ws) c) /\
  (forall i j, 0 <= i < Z.of_nat N -> 0 <= j < Z.of_nat N -> Z.abs (i - j) <= Z.of_nat d ->
      get (w_pen ws) (Z.of_nat d + i - j) (if rv then i else j) = lam * DtD d N i j /\
      get (w_pen ws) (Z.of_nat d - i + j) (if rv then j else i) = lam * DtD d N i j).
Proof.
  intros Hd Hlam Hs.
  destruct (setup_spec hp bs N lam d false (Some rv) Hd Hlam)
    as (ws0 & Hs0 & Hlo & Hrev & Hpt & Hnr & Hnc & Hnb & Hmain & Hget & Hmd).
  rewrite Hs in Hs0. injection Hs0 as <-.
  change (lo_of hp bs d false) with false in *. cbn [rev_of] in *.
  repeat split; try assumption.
  - rewrite Hpt. apply pt_of_d.
  - destruct rv; rewrite Hget by lia; f_equal; unfold layout; cbn [maybe_rev rev_rows spec_bands nr get].
    + replace (2 * Z.of_nat d + 1 - 1 - (Z.of_nat d + i - j)) with (Z.of_nat d - i + j) by lia.
      apply bs_full_T; lia.
    + apply bs_full; lia.
  - destruct rv; rewrite Hget by lia; f_equal; unfold layout; cbn [maybe_rev rev_rows spec_bands nr get].
    + replace (2 * Z.of_nat d + 1 - 1 - (Z.of_nat d - i + j)) with (Z.of_nat d + i - j) by lia.
      apply bs_full; lia.
    + apply bs_full_T; lia.
Qed.

(* ------------------------------------------------------------------ aspls *)
Theorem aspls_system hp bs N lam d wal y :
  (1 <= d < N)%nat -> 0 < lam ->
  exists cs, aspls hp bs N lam d wal y = Some cs /\
    Forall2 (fun (wa : (Z -> Z) * (Z -> Z)) k =>
               sys_ok N (doc_aspls N d lam (fst wa) (snd wa)) (mulv (fst wa) y) k) wal cs.
Proof.
  intros Hd Hlam. unfold aspls.
  destruct (setup_some hp bs N lam d false (Some true) Hd Hlam) as (ws & Hs). rewrite Hs.
  destruct (setup_full hp bs N lam d true ws Hd Hlam Hs) as (Hlo & Hrev & Hpt & Hnr & Hnc & Hmain & Hmd & Hget).
  eexists. split; [reflexivity|]. apply Forall2_map_r. intros [w al]. cbn [fst snd].
  set (l0 := colscale (w_pen ws) al).
  set (l1 := set_row l0 (w_main ws) (fun c => get l0 (w_main ws) c + w c)).
  assert (Hl1 : forall i j, 0 <= i < Z.of_nat N -> 0 <= j < Z.of_nat N -> Z.abs (i - j) <= Z.of_nat d ->
            get l1 (Z.of_nat d + i - j) i = doc_aspls N d lam w al i j).
  { intros i j Hi Hj Hb. unfold l1, l0, set_row, colscale, doc_aspls, diagm. cbn [get]. rewrite Hmain.
    destruct (Hget i j Hi Hj Hb) as [G1 _]. cbn iota in G1.
    destruct (Z.of_nat d + i - j =? Z.of_nat d) eqn:E, (i =? j) eqn:E'; try lia;
      try (replace (Z.of_nat d + i - j) with (Z.of_nat d) in G1 by lia); rewrite G1; ring. }
  apply solve_call_full; try assumption; try lia.
  - destruct (w_penta ws); exact Hnr.
  - destruct (w_penta ws); exact Hnc.
  - intros i j Hi Hj Hb. destruct (w_penta ws).
    + apply Hl1; assumption.
    + rewrite shift_rows_get; [apply Hl1; assumption|lia|exact Hnr|cbn [l1 l0 set_row colscale nc]; lia..|lia].
  - intros i j Hi Hj Hb. unfold doc_aspls, diagm. rewrite DtD_out by lia.
    destruct (i =? j) eqn:?; lia.
Qed.

(* ------------------------------------------------------------------ drpls *)
Lemma d1_pad_read (N : nat) (d : Z) a0 i j :
  aeq a0 (spec_bands 1 N false) -> 2 <= d ->
  0 <= i < Z.of_nat N -> 0 <= j < Z.of_nat N -> Z.abs (i - j) <= d ->
  get (pad_diagonals a0 (d - 1) false) (d + i - j) j = DtD 1 N i j /\
  get (pad_diagonals a0 (d - 1) false) (d - i + j) i = DtD 1 N i j.
Proof.
  intros (A1 & A2 & A3) Hd Hi Hj Hb. cbn [spec_bands nr nc get] in A1, A2, A3.
  change (2 * Z.of_nat 1 + 1) with 3 in A1.
  unfold pad_diagonals. replace (0 <? d - 1) with true by lia. cbn [get]. rewrite A1. split.
  - destruct ((d - 1 <=? d + i - j) && (d + i - j <? d - 1 + 3)) eqn:E.
    + rewrite A3 by lia. replace (d + i - j - (d - 1)) with (Z.of_nat 1 + i - j) by (change (Z.of_nat 1) with 1; lia).
      apply bs_full; lia.
    + symmetry. apply DtD_out. change (Z.of_nat 1) with 1. lia.
  - destruct ((d - 1 <=? d - i + j) && (d - i + j <? d - 1 + 3)) eqn:E.
    + rewrite A3 by lia. replace (d - i + j - (d - 1)) with (Z.of_nat 1 - i + j) by (change (Z.of_nat 1) with 1; lia).
      apply bs_full_T; lia.
    + symmetry. apply DtD_out. change (Z.of_nat 1) with 1. lia.
Qed.

Theorem drpls_system hp bs N lam eta d wl y :
  (2 <= d < N)%nat -> 0 < lam ->
  exists cs, drpls hp bs N lam eta d wl y = Some cs /\
    Forall2 (fun w k => sys_ok N (doc_drpls N d lam eta w) (mulv w y) k) wl cs.
Proof.
  intros Hd Hlam. unfold drpls. replace (Z.of_nat d <? 2) with false by lia.
  destruct (setup_some hp bs N lam d false (Some false) ltac:(lia) Hlam) as (ws & Hs). rewrite Hs.
  destruct (setup_full hp bs N lam d false ws ltac:(lia) Hlam Hs) as (Hlo & Hrev & Hpt & Hnr & Hnc & Hmain & Hmd & Hget).
  destruct (dpd1 N false (Z.of_nat d - 1) ltac:(lia)) as (a0 & Hd1 & Ha0). rewrite Hd1.
  set (d1 := pad_diagonals a0 (Z.of_nat d - 1) false).
  assert (Hd1nr : nr d1 = 2 * Z.of_nat d + 1).
  { destruct Ha0 as (A1 & _). cbn [spec_bands nr] in A1. unfold d1, pad_diagonals.
    replace (0 <? Z.of_nat d - 1) with true by lia. cbn [nr]. rewrite A1. change (Z.of_nat 1) with 1. lia. }
  assert (Hd1nc : nc d1 = Z.of_nat N).
  { destruct Ha0 as (_ & A2 & _). cbn [spec_bands nc] in A2. unfold d1, pad_diagonals.
    replace (0 <? Z.of_nat d - 1) with true by lia. exact A2. }
  unfold add_penalty, add_diagonals. rewrite Hlo, Hnc, Hd1nc, Z.eqb_refl, Hnr, Hd1nr. cbn [negb].
  replace (2 * Z.of_nat d + 1 - (2 * Z.of_nat d + 1) =? 0) with true by lia.
  unfold update_bands, reverse_pen. cbn [w_lower w_penta w_pen w_rev w_nb w_main w_maind]. rewrite Hlo.
  set (pen1 := add_arr (w_pen ws) d1).
  set (dn0 := scale (- eta) (rev_rows (w_pen ws))).
  set (dn := set_row dn0 (w_main ws) (fun c => get dn0 (w_main ws) c + 1)).
  assert (Hdn : forall i j, 0 <= i < Z.of_nat N -> 0 <= j < Z.of_nat N -> Z.abs (i - j) <= Z.of_nat d ->
            get dn (Z.of_nat d + i - j) i = - eta * (lam * DtD d N i j) + (if i =? j then 1 else 0)).
  { intros i j Hi Hj Hb. unfold dn, dn0, set_row, scale, rev_rows. cbn [get nr]. rewrite Hmain, Hnr.
    destruct (Hget i j Hi Hj Hb) as [_ G2]. cbn iota in G2.
    replace (2 * Z.of_nat d + 1 - 1 - (Z.of_nat d + i - j)) with (Z.of_nat d - i + j) by lia.
    destruct (Z.of_nat d + i - j =? Z.of_nat d) eqn:E, (i =? j) eqn:E'; try lia;
      try (replace (2 * Z.of_nat d + 1 - 1 - Z.of_nat d) with (Z.of_nat d - i + j) by lia); rewrite G2; ring. }
  assert (Hbanded : forall w i j, 0 <= i < Z.of_nat N -> 0 <= j < Z.of_nat N -> Z.of_nat d < Z.abs (i - j) ->
            doc_drpls N d lam eta w i j = 0).
  { intros w i j Hi Hj Hb. unfold doc_drpls, diagm. rewrite !DtD_out by (change (Z.of_nat 1) with 1; lia).
    destruct (i =? j) eqn:?; lia. }
  destruct (w_penta ws) eqn:Ep.
  - (* pentapy: reversed penalty, unshifted row-aligned W-scaled part *)
    eexists. split; [reflexivity|]. apply Forall2_map_r. intros w. cbn [w_penta w_pen].
    apply solve_call_full; cbn [w_lower w_penta]; try assumption; try lia; try (intros _; apply Hpt; reflexivity).
    + intros i j Hi Hj Hb. cbn [add_arr rev_rows get nr pen1 colscale]. rewrite Hnr.
      replace (2 * Z.of_nat d + 1 - 1 - (Z.of_nat d + i - j)) with (Z.of_nat d - i + j) by lia.
      destruct (Hget i j Hi Hj Hb) as [_ G2]. cbn iota in G2. rewrite G2.
      destruct (d1_pad_read N (Z.of_nat d) a0 i j Ha0 ltac:(lia) Hi Hj Hb) as [_ D2]. fold d1 in D2. rewrite D2.
      rewrite Hdn by assumption. unfold doc_drpls, diagm. destruct (i =? j); ring.
    + apply Hbanded.
  - eexists. split; [reflexivity|]. apply Forall2_map_r. intros w. cbn [w_penta w_pen].
    apply solve_call_full; cbn [w_lower w_penta]; try assumption; try lia; try discriminate.
    + intros i j Hi Hj Hb. cbn [add_arr get pen1].
      destruct (Hget i j Hi Hj Hb) as [G1 _]. cbn iota in G1. rewrite G1.
      destruct (d1_pad_read N (Z.of_nat d) a0 i j Ha0 ltac:(lia) Hi Hj Hb) as [D1 _]. fold d1 in D1. rewrite D1.
      rewrite shift_rows_get; [|lia|exact Hnr|cbn [colscale dn dn0 set_row scale rev_rows nc]; lia..|lia].
      cbn [colscale get]. rewrite Hdn by assumption. unfold doc_drpls, diagm. destruct (i =? j); ring.
    + apply Hbanded.
Qed.

(* ------------------------------------------------------------------ solutions, and the returned pair *)
From PB Require Import lib.Loop lib.LoopProofs.

Definition solves (N : nat) (A : Z -> Z -> Z) (b v : Z -> Z) : Prop :=
  forall i, 0 <= i < Z.of_nat N -> matvec N A v i = b i.

(* whatever solves the banded system handed to the library solves the documented system *)
Lemma sys_ok_solves N A b k v : sys_ok N A b k -> solves N (den k) (k_rhs k) v -> solves N A b v.
Proof.
  intros (_ & HA & Hb) Hv i Hi. rewrite <- Hb by assumption. rewrite <- (Hv i Hi).
  unfold matvec. apply sumZ_ext. intros j Hj. rewrite HA by lia. reflexivity.
Qed.

Section ReturnedPair.
  Variable N : nat.
  Variable W D : Type.                      (* loop state: the weights, or (weights, alpha) for aspls *)
  Variable docA : W -> Z -> Z -> Z.         (* documented matrix and right-hand side for a state *)
  Variable docb : W -> Z -> Z.
  Variable asm : nat -> W -> call.          (* what pass k hands to the library for state w *)
  Hypothesis asm_ok : forall k w, sys_ok N (docA w) (docb w) (asm k w).
  Variable solver : call -> Z -> Z.         (* pentapy / LAPACK: a library, not modelled *)
  Variable reweight : nat -> (Z -> Z) -> W -> W * bool.
  Variable diff : nat -> W -> W -> (Z -> Z) -> D.
  Variable below : D -> bool.
  Variable w0 : W.
  Variable budget : nat.
  Let solve (k : nat) (w : W) : Z -> Z := solver (asm k w).
  Notation wseq := (wseq W (Z -> Z) solve reweight w0).
  (* the library contract, required only of the calls this run makes *)
  Hypothesis solver_ok : forall k, (k < budget)%nat ->
    solves N (den (asm k (wseq k))) (k_rhs (asm k (wseq k))) (solver (asm k (wseq k))).

  Theorem returned_pair r :
    loop W (Z -> Z) D solve reweight diff below budget w0 = Some r ->
    match r_reason r with
    | Converged | EarlyExit => solves N (docA (r_state r)) (docb (r_state r)) (r_base r)
    | Exhausted => exists wprev, solves N (docA wprev) (docb wprev) (r_base r) /\
                                 r_state r = fst (reweight (budget - 1) (r_base r) wprev)
    end.
  Proof.
    assert (Hsol : forall k, (k < budget)%nat -> solves N (docA (wseq k)) (docb (wseq k)) (solve k (wseq k))).
    { intros k Hk. eapply sys_ok_solves; [apply asm_ok|]. apply solver_ok, Hk. }
    rewrite loop_spec. unfold spec. destruct budget as [|b]; [discriminate|].
    destruct (first_stop W (Z -> Z) D solve reweight diff below w0 (S b) 0) as [j|] eqn:Hfs.
    - apply first_stop_range in Hfs as (Hj & _ & _).
      destruct (eseq W (Z -> Z) solve reweight w0 j); intros [= <-]; cbn [r_base r_state r_reason];
        apply Hsol; lia.
    - intros [= <-]; cbn [r_base r_state r_reason]. exists (wseq b).
      replace (S b - 1)%nat with b by lia. rewrite ?Nat.sub_0_r.
      split; [apply (Hsol b); lia|reflexivity].
  Qed.
End ReturnedPair.

(* instances: the single-pass assembly of each method as the [asm] of the loop *)
Definition dummy_call : call := {| k_solver := Solveh; k_lhs := mkarr 0 0 (fun _ _ => 0); k_rhs := fun _ => 0 |}.
Definition first_call (o : option (list call)) : call :=
  match o with Some (c :: _) => c | _ => dummy_call end.

Lemma first_call_ok {X} (P : X -> call -> Prop) (x : X) o :
  (exists cs, o = Some cs /\ Forall2 P [x] cs) -> P x (first_call o).
Proof. intros (cs & -> & HF). inversion HF; subst. exact H1. Qed.

Lemma asls_asm_ok hp bs N lam d y : (1 <= d < N)%nat -> 0 < lam ->
  forall (k : nat) w, sys_ok N (doc_asls N d lam w) (mulv w y) (first_call (asls hp bs N lam d [w] y)).
Proof. intros Hd Hl k w. apply (first_call_ok (fun w k => sys_ok N (doc_asls N d lam w) (mulv w y) k)).
  apply asls_system; assumption. Qed.

Lemma iasls_asm_ok hp bs N lam lam1 d y : (2 <= d < N)%nat -> 0 < lam ->
  forall (k : nat) w, sys_ok N (doc_iasls N d lam lam1 w) (doc_iasls_rhs N lam1 w y)
                        (first_call (iasls hp bs N lam lam1 d [w] y)).
Proof. intros Hd Hl k w.
  apply (first_call_ok (fun w k => sys_ok N (doc_iasls N d lam lam1 w) (doc_iasls_rhs N lam1 w y) k)).
  apply iasls_system; assumption. Qed.

Lemma drpls_asm_ok hp bs N lam eta d y : (2 <= d < N)%nat -> 0 < lam ->
  forall (k : nat) w, sys_ok N (doc_drpls N d lam eta w) (mulv w y) (first_call (drpls hp bs N lam eta d [w] y)).
Proof. intros Hd Hl k w. apply (first_call_ok (fun w k => sys_ok N (doc_drpls N d lam eta w) (mulv w y) k)).
  apply drpls_system; assumption. Qed.

Lemma aspls_asm_ok hp bs N lam d y : (1 <= d < N)%nat -> 0 < lam ->
  forall (k : nat) (wa : (Z -> Z) * (Z -> Z)),
    sys_ok N (doc_aspls N d lam (fst wa) (snd wa)) (mulv (fst wa) y) (first_call (aspls hp bs N lam d [wa] y)).
Proof. intros Hd Hl k wa.
  apply (first_call_ok (fun (wa : (Z -> Z) * (Z -> Z)) k => sys_ok N (doc_aspls N d lam (fst wa) (snd wa)) (mulv (fst wa) y) k)).
  apply aspls_system; assumption. Qed.

(* ------------------------------------------------------------------ non-vacuity *)
Lemma systems_nonvacuous :
  match asls true 1 7 4 2 [fun i => i mod 3; fun _ => 1] (fun i => i * i - 5),
        drpls false 4 6 8 1 3 [fun i => i mod 2] (fun i => 7 - i),
        aspls true 2 5 2 2 [(fun i => 1 + i mod 2, fun i => i)] (fun i => i) with
  | Some [k1; k2], Some [k3], Some [k4] =>
      k_solver k1 = Penta /\ k_solver k3 = SolveBanded 3 3 /\ k_solver k4 = Penta /\
      dense 7 (den k2) = dense 7 (doc_asls 7 2 4 (fun _ => 1)) /\
      dense 6 (den k3) = dense 6 (doc_drpls 6 3 8 1 (fun i => i mod 2)) /\
      dense 5 (den k4) = dense 5 (doc_aspls 5 2 2 (fun i => 1 + i mod 2) (fun i => i))
  | _, _, _ => False
  end.
Proof. vm_compute. repeat split. Qed.

Lemma returned_pair_nonvacuous :
  let y := fun _ : Z => 0 in
  let asm := fun (k : nat) (w : Z -> Z) => first_call (asls false 4 3 1 1 [w] y) in
  let solver := fun (_ : call) (_ : Z) => 0 in
  (forall k w, sys_ok 3 (doc_asls 3 1 1 w) (mulv w y) (asm k w)) /\
  (forall k w, solves 3 (den (asm k w)) (k_rhs (asm k w)) (solver (asm k w))) /\
  exists r, loop (Z -> Z) (Z -> Z) unit (fun k w => solver (asm k w)) (fun _ _ w => (w, false))
                 (fun _ _ _ _ => tt) (fun _ => true) 1 (fun _ => 1) = Some r /\ r_reason r = Converged.
Proof.
  intros y asm solver.
  assert (Hok : forall k w, sys_ok 3 (doc_asls 3 1 1 w) (mulv w y) (asm k w)).
  { intros k w. exact (asls_asm_ok false 4 3 1 1 y ltac:(lia) ltac:(lia) k w). }
  split; [exact Hok|]. split.
  - intros k w i Hi. destruct (Hok k w) as (_ & _ & Hb). rewrite Hb by assumption.
    unfold matvec, solver, mulv, y. rewrite sumZ_zero by (intros; ring). ring.
  - eexists. split; [reflexivity|reflexivity].
Qed.
