(* utils.whittaker_smooth accepts diff_order = 0 (the penalty is lam * I): the case C06_whittaker_smooth_system
   excludes.  (W + lam D_0'D_0) v = W y with D_0 = I, for every N >= 1, weights, lam > 0, pentapy on/off. *)
From Coq Require Import ZArith List Bool Lia ZifyBool.
From PB Require Import lib.SumZ lib.PySlice lib.Arr C11.DtD C11.Table gen.GenBands C11.Banded C11.History C06.Model C06.Proofs.
Import ListNotations.
Open Scope Z_scope.

Theorem whittaker_smooth_d0_system hp N lam w y :
  (0 < N)%nat -> 0 < lam ->
  exists k, whittaker_smooth hp N lam 0 w y = Some k /\ sys_ok N (doc_asls N 0 lam w) (mulv w y) k.
Proof.
  intros HN Hlam. unfold whittaker_smooth.
  set (c := {| c_lam := lam; c_d := 0%nat; c_allow_lower := true; c_rev := None; c_allow_penta := true; c_pad := 0 |}).
  assert (Ept : want_penta hp c = false) by (unfold want_penta; cbn; destruct hp; reflexivity).
  assert (Elo : want_lower hp c = true) by (unfold want_lower; rewrite Ept; reflexivity).
  assert (Erev : want_rev hp c = false) by (unfold want_rev; cbn [c_rev c]; exact Ept).
  destruct (fresh_layout N 0 true false HN) as (a & Ha & (H1 & H2 & H3)).
  unfold reset. rewrite Elo, Erev, Ept. cbn [c_d c_lam c_pad c]. rewrite Ha.
  replace (0 <? lam) with true by lia.
  eexists. split; [reflexivity|].
  cbn [maybe_rev layout spec_bands nr nc get] in H1, H2, H3. unfold layout in H1, H2, H3. cbn [maybe_rev spec_bands nr nc get] in H1, H2, H3.
  set (ws := of_sys (finish 0 true false false (maybe_rev false a) lam 0)).
  assert (HI : SInv (Z.of_nat N) 0 (fun i j => lam * DtD 0 N i j) ws).
  { unfold ws, finish, of_sys, pad_diagonals. rewrite Z.ltb_irrefl.
    constructor; cbn [w_lower w_penta w_pen w_main w_maind s_lower s_penta s_pen s_main scale nr nc get maybe_rev].
    - lia.
    - exact H2.
    - discriminate.
    - rewrite H1. reflexivity.
    - reflexivity.
    - intros i j Hi Hj Hb. assert (i = j) by lia. subst j.
      unfold rd, coord. cbn [w_penta w_lower w_main w_maind w_pen fst snd get scale].
      replace (Z.abs (i - i)) with 0 by lia. rewrite Z.eqb_refl. replace (Z.min i i) with i by lia.
      rewrite H3 by lia. f_equal.
      pose proof (bs_lower 0 N i i Hi Hi) as E. replace (Z.abs (i - i)) with 0 in E by lia.
      replace (Z.min i i) with i in E by lia. exact E. }
  destruct (pass_den (Z.of_nat N) 0 _ ws w (mulv w y) HI) as (W1 & W2 & W3).
  { intros i j Hi Hj Hb. rewrite DtD_out by (cbn; lia). ring. }
  split; [exact W1|]. split.
  - intros i j Hi Hj. rewrite W2 by assumption. unfold doc_asls. ring.
  - intros i Hi. rewrite W3. reflexivity.
Qed.
