(* The vec convention of the 2-D half of property C06, stated explicitly, and the order semantics of NumPy's
   flatten operations as far as the 2-D Whittaker code path uses them.

   vec = ROW-MAJOR flatten of the LOGICAL (M, N) array: vec N a p = a (p / N) (p mod N), p = i * N + j.
   It is a function of the values a i j only -- independent of the strides / memory layout of the array
   that holds them.  The documented Kronecker system (Model2D.P2r, doc2_asls ...) is stated on vec, and
   reshape((M, N)) with the default order is its inverse (unvec).
   Models and the reflective checker only; proofs in C06/VecProofs.v. *)
From Coq Require Import ZArith List Bool String.
Import ListNotations.
Open Scope Z_scope.

Definition vec (N : Z) (a : Z -> Z -> Z) : Z -> Z := fun p => a (p / N) (p mod N).
Definition unvec (N : Z) (v : Z -> Z) : Z -> Z -> Z := fun i j => v (i * N + j).
(* column-major flatten: what order='F' gives, and what order='K' / 'A' give for column-major memory *)
Definition vecF (M : Z) (a : Z -> Z -> Z) : Z -> Z := fun p => a (p mod M) (p / M).

Inductive ord := OrdDefault | OrdC | OrdF | OrdA | OrdK | OrdUnknown.
(* memory layout of the array an operation is applied to *)
Inductive layout := LayC | LayF | LayOther.     (* C-contiguous, Fortran-contiguous, anything else (views) *)

(* ndarray.ravel / flatten / np.ravel: None = not determined by this model *)
Definition np_ravel (o : ord) (l : layout) (M N : Z) (a : Z -> Z -> Z) : option (Z -> Z) :=
  match o with
  | OrdDefault | OrdC => Some (vec N a)
  | OrdF => Some (vecF M a)
  | OrdA | OrdK => match l with LayC => Some (vec N a) | LayF => Some (vecF M a) | LayOther => None end
  | OrdUnknown => None
  end.

Definition ord_ok (o : ord) : bool := match o with OrdDefault | OrdC => true | _ => false end.

(* a flatten / reshape / order= site of the source, as emitted by tools/gen_c06_vec.py *)
Record site := mk_site { s_file : string; s_func : string; s_op : string; s_recv : string; s_ord : ord }.

Definition is_site (func op recv : string) (s : site) : bool :=
  String.eqb (s_func s) func && String.eqb (s_op s) op && String.eqb (s_recv s) recv.

(* every site keeps the default / C order, and _setup_whittaker flattens data and weights *)
Definition check (l : list site) : bool :=
  forallb (fun s => ord_ok (s_ord s)) l
  && existsb (is_site "_Algorithm2D._setup_whittaker" "ravel" "y") l
  && existsb (is_site "_Algorithm2D._setup_whittaker" "ravel" "weight_array") l.
