(* Executable model of the Whittaker assembly code (property C06):
     pybaselines/_banded_utils.py : _add_diagonals, PenalizedSystem.add_penalty / _update_bands /
                                    add_diagonal / reverse_penalty / solve (dispatch)
     pybaselines/_algorithm_setup.py : _setup_whittaker (banded_solver -> allow_lower / allow_pentapy)
     pybaselines/whittaker.py : asls-type methods, iasls, drpls, aspls (what reaches the solver at every pass)
   built on the C11 model of diff_penalty_diagonals / _shift_rows / PenalizedSystem.reset_diagonals.
   Models only; the proofs are in C06/Proofs.v so that the model still runs when a proof breaks.
   Values are integers: the assembly is ring arithmetic (+, *, negation), evaluated by the
   correspondence harness on inputs for which the float computation is exact. *)
From Coq Require Import ZArith List Bool Lia ZifyBool.
From PB Require Import lib.SumZ lib.PySlice lib.Arr C11.DtD C11.Table gen.GenBands C11.Banded.
Import ListNotations.
Open Scope Z_scope.

(* ------------------------------------------------------------------ PenalizedSystem as used here *)
Record wsys := { w_lower : bool; w_rev : bool; w_penta : bool;
                 w_pen : arr;            (* self.penalty *)
                 w_nb : Z;               (* self.num_bands *)
                 w_main : Z;             (* self.main_diagonal_index *)
                 w_maind : Z -> Z }.     (* self.main_diagonal (a copy) *)

Definition of_sys (s : sys) : wsys :=
  {| w_lower := s_lower s; w_rev := s_rev s; w_penta := s_penta s; w_pen := s_pen s;
     w_nb := s_num_bands s; w_main := s_main s; w_maind := fun c => get (s_pen s) (s_main s) c |}.

(* _Algorithm._setup_whittaker: None = the call raised *)
Definition setup (hp : bool) (bs : Z) (N : nat) (lam : Z) (d : nat) (allow_lower : bool)
                 (rev : option bool) : option wsys :=
  if Z.of_nat d <? 1 then None
  else
    let c := {| c_lam := lam; c_d := d; c_allow_lower := allow_lower && (bs <? 4); c_rev := rev;
                c_allow_penta := bs <? 3; c_pad := 0 |} in
    match reset hp N None c with Some s => Some (of_sys s) | None => None end.

(* _add_diagonals *)
Definition add_arr (a b : arr) : arr := mkarr (nr a) (nc a) (fun r c => get a r c + get b r c).
Definition pad_bottom (k : Z) (a : arr) : arr :=
  mkarr (nr a + k) (nc a) (fun r c => if r <? nr a then get a r c else 0).
Definition pad_both (k : Z) (a : arr) : arr :=
  mkarr (nr a + 2 * k) (nc a) (fun r c => if (k <=? r) && (r <? k + nr a) then get a (r - k) c else 0).

Definition add_diagonals (a b : arr) (lower : bool) : option arr :=
  if negb (nc a =? nc b) then None
  else
    let mm := nr a - nr b in
    if mm =? 0 then Some (add_arr a b)
    else
      let am := Z.abs mm in
      if lower then
        if 0 <? mm then Some (add_arr a (pad_bottom am b)) else Some (add_arr (pad_bottom am a) b)
      else if negb (am mod 2 =? 0) then None
      else if 0 <? mm then Some (add_arr a (pad_both (am / 2) b))
      else Some (add_arr (pad_both (am / 2) a) b).

(* _update_bands on a new penalty *)
Definition update_bands (ws : wsys) (pen : arr) : wsys :=
  let nb := if w_lower ws then nr pen - 1 else nr pen / 2 in
  let main := if w_lower ws then 0 else nb in
  {| w_lower := w_lower ws; w_rev := w_rev ws; w_penta := w_penta ws; w_pen := pen;
     w_nb := nb; w_main := main; w_maind := fun c => get pen main c |}.

Definition add_penalty (ws : wsys) (p : arr) : option wsys :=
  match add_diagonals (w_pen ws) p (w_lower ws) with
  | Some pen => Some (update_bands ws pen)
  | None => None
  end.

Definition set_row (a : arr) (r0 : Z) (f : Z -> Z) : arr :=
  mkarr (nr a) (nc a) (fun r c => if r =? r0 then f c else get a r c).

(* add_diagonal: self.penalty[main] = self.main_diagonal + value   (in place; main_diagonal kept) *)
Definition add_diagonal (ws : wsys) (v : Z -> Z) : wsys :=
  {| w_lower := w_lower ws; w_rev := w_rev ws; w_penta := w_penta ws;
     w_pen := set_row (w_pen ws) (w_main ws) (fun c => w_maind ws c + v c);
     w_nb := w_nb ws; w_main := w_main ws; w_maind := w_maind ws |}.

(* reverse_penalty: raises when lower (None) *)
Definition reverse_pen (ws : wsys) : option wsys :=
  if w_lower ws then None
  else Some {| w_lower := w_lower ws; w_rev := negb (w_rev ws); w_penta := w_penta ws;
               w_pen := rev_rows (w_pen ws); w_nb := w_nb ws; w_main := w_main ws;
               w_maind := w_maind ws |}.

(* ------------------------------------------------------------------ what reaches the libraries *)
Inductive solver := Penta | Solveh | SolveBanded (l u : Z).
Record call := { k_solver : solver; k_lhs : arr; k_rhs : Z -> Z }.

(* PenalizedSystem.solve *)
Definition solve_call (ws : wsys) (lhs : arr) (rhs : Z -> Z) (l_and_u : option (Z * Z)) : call :=
  if w_penta ws then {| k_solver := Penta; k_lhs := lhs; k_rhs := rhs |}
  else if w_lower ws then {| k_solver := Solveh; k_lhs := lhs; k_rhs := rhs |}
  else match l_and_u with
       | Some (l, u) => {| k_solver := SolveBanded l u; k_lhs := lhs; k_rhs := rhs |}
       | None => let nb := nr lhs / 2 in {| k_solver := SolveBanded nb nb; k_lhs := lhs; k_rhs := rhs |}
       end.

(* the matrix a library call denotes (the conventions of the three entry points):
   pentapy.solve(is_flat=True, index_row_wise=True): mat[r, i] = A[i, i + 2 - r];
   scipy.linalg.solveh_banded(lower=True): ab[i - j, j] = A[i, j] (i >= j), symmetric;
   scipy.linalg.solve_banded((l, u)): ab[u + i - j, j] = A[i, j]. *)
Definition den (k : call) (i j : Z) : Z :=
  match k_solver k with
  | Penta => if Z.abs (i - j) <=? 2 then get (k_lhs k) (2 + i - j) i else 0
  | Solveh => let r := Z.abs (i - j) in
              if r <? nr (k_lhs k) then get (k_lhs k) r (Z.min i j) else 0
  | SolveBanded l u => if (- u <=? i - j) && (i - j <=? l) then get (k_lhs k) (u + i - j) j else 0
  end.

(* shape requirements of the entry points *)
Definition call_wf (N : Z) (k : call) : bool :=
  (nc (k_lhs k) =? N) &&
  match k_solver k with
  | Penta => nr (k_lhs k) =? 5
  | Solveh => 1 <=? nr (k_lhs k)
  | SolveBanded l u => (0 <=? l) && (0 <=? u) && (nr (k_lhs k) =? l + u + 1)
  end.

(* ------------------------------------------------------------------ the methods *)
Definition mulv (w y : Z -> Z) : Z -> Z := fun i => w i * y i.
Definition colscale (a : arr) (w : Z -> Z) : arr := mkarr (nr a) (nc a) (fun r c => get a r c * w c).

(* one pass of an asls-type method: solve(add_diagonal(v), rhs); the state is threaded because
   add_diagonal writes self.penalty in place *)
Fixpoint diag_passes (ws : wsys) (passes : list ((Z -> Z) * (Z -> Z))) : list call :=
  match passes with
  | [] => []
  | (v, rhs) :: rest =>
      let ws' := add_diagonal ws v in
      solve_call ws' (w_pen ws') rhs None :: diag_passes ws' rest
  end.

(* asls, airpls, arpls, iarpls, psalsa, derpsalsa, brpls, lsrpls: wl = the weights in force at
   the successive passes *)
Definition asls (hp : bool) (bs : Z) (N : nat) (lam : Z) (d : nat) (wl : list (Z -> Z)) (y : Z -> Z)
  : option (list call) :=
  match setup hp bs N lam d true None with
  | Some ws => Some (diag_passes ws (map (fun w => (w, mulv w y)) wl))
  | None => None
  end.

(* utils.whittaker_smooth: PenalizedSystem(len_y, lam=lam, diff_order=diff_order) with the constructor
   defaults (allow_lower=True, reverse_diags=None, allow_pentapy=True, padding=0), then
   solve(add_diagonal(weight_array), weight_array * y).  diff_order = 0 is accepted by the code. *)
Definition whittaker_smooth (hp : bool) (N : nat) (lam : Z) (d : nat) (w y : Z -> Z) : option call :=
  let c := {| c_lam := lam; c_d := d; c_allow_lower := true; c_rev := None; c_allow_penta := true;
              c_pad := 0 |} in
  match reset hp N None c with
  | Some s => let ws' := add_diagonal (of_sys s) w in
              Some (solve_call ws' (w_pen ws') (mulv w y) None)
  | None => None
  end.

(* iasls: d1_y[0] = y[0]-y[1]; d1_y[-1] = y[-1]-y[-2]; d1_y[1:-1] = 2y[1:-1]-y[:-2]-y[2:]  (N >= 2) *)
Definition d1y (N : Z) (y : Z -> Z) : Z -> Z := fun i =>
  if (1 <=? i) && (i <? N - 1) then 2 * y i - y (i - 1) - y (i + 1)
  else if i =? N - 1 then y (N - 1) - y (N - 2)
  else if i =? 0 then y 0 - y 1
  else y i.

Definition iasls (hp : bool) (bs : Z) (N : nat) (lam lam1 : Z) (d : nat) (wl : list (Z -> Z)) (y : Z -> Z)
  : option (list call) :=
  if Z.of_nat d <? 2 then None
  else match setup hp bs N lam d true None with
  | None => None
  | Some ws =>
      match dpd N 1 (w_lower ws) 1 with
      | DpdOk d1 =>
          let d1' := if w_penta ws then rev_rows d1 else d1 in
          match add_penalty ws (scale lam1 d1') with
          | Some ws1 =>
              let dy := fun i => lam1 * d1y (Z.of_nat N) y i in
              Some (diag_passes ws1
                      (map (fun w => (mulv w w, fun i => w i * w i * y i + dy i)) wl))
          | None => None
          end
      | _ => None
      end
  end.

(* drpls *)
Definition drpls (hp : bool) (bs : Z) (N : nat) (lam eta : Z) (d : nat) (wl : list (Z -> Z)) (y : Z -> Z)
  : option (list call) :=
  if Z.of_nat d <? 2 then None
  else match setup hp bs N lam d false (Some false) with
  | None => None
  | Some ws =>
      let dz := Z.of_nat d in
      let dn0 := scale (- eta) (rev_rows (w_pen ws)) in
      let dn := set_row dn0 (w_main ws) (fun c => get dn0 (w_main ws) c + 1) in
      match dpd N 1 false (dz - 1) with
      | DpdOk d1 =>
          match add_penalty ws d1 with
          | Some ws1 =>
              match (if w_penta ws1 then reverse_pen ws1 else Some ws1) with
              | Some ws2 =>
                  Some (map (fun w =>
                         let pww := colscale dn w in
                         let pww' := if w_penta ws2 then pww else shift_rows pww dz dz in
                         solve_call ws2 (add_arr (w_pen ws2) pww') (mulv w y) (Some (dz, dz))) wl)
              | None => None
              end
          | None => None
          end
      | _ => None
      end
  end.

(* aspls: wal = (weights, alpha) in force at the successive passes *)
Definition aspls (hp : bool) (bs : Z) (N : nat) (lam : Z) (d : nat) (wal : list ((Z -> Z) * (Z -> Z)))
                 (y : Z -> Z) : option (list call) :=
  match setup hp bs N lam d false (Some true) with
  | None => None
  | Some ws =>
      let dz := Z.of_nat d in
      Some (map (fun wa : (Z -> Z) * (Z -> Z) =>
             let (w, al) := wa in
             let l0 := colscale (w_pen ws) al in
             let l1 := set_row l0 (w_main ws) (fun c => get l0 (w_main ws) c + w c) in
             let l2 := if w_penta ws then l1 else shift_rows l1 dz dz in
             solve_call ws l2 (mulv w y) (Some (dz, dz))) wal)
  end.

(* ------------------------------------------------------------------ the documented systems *)
Definition diagm (w : Z -> Z) (i j : Z) : Z := if i =? j then w i else 0.
Definition matvec (N : nat) (A : Z -> Z -> Z) (v : Z -> Z) (i : Z) : Z := sumZ N (fun j => A i j * v j).

(* (W + lam D'D) v = W y *)
Definition doc_asls (N d : nat) (lam : Z) (w : Z -> Z) (i j : Z) : Z := diagm w i j + lam * DtD d N i j.
(* (W'W + lam_1 D1'D1 + lam D'D) v = (W'W + lam_1 D1'D1) y *)
Definition doc_iasls (N d : nat) (lam lam1 : Z) (w : Z -> Z) (i j : Z) : Z :=
  diagm (mulv w w) i j + lam1 * DtD 1 N i j + lam * DtD d N i j.
Definition doc_iasls_rhs (N : nat) (lam1 : Z) (w y : Z -> Z) (i : Z) : Z :=
  matvec N (fun i j => diagm (mulv w w) i j + lam1 * DtD 1 N i j) y i.
(* (W + D1'D1 + lam (I - eta W) D'D) v = W y *)
Definition doc_drpls (N d : nat) (lam eta : Z) (w : Z -> Z) (i j : Z) : Z :=
  diagm w i j + DtD 1 N i j + lam * (1 - eta * w i) * DtD d N i j.
(* (W + lam diag(alpha) D'D) v = W y *)
Definition doc_aspls (N d : nat) (lam : Z) (w al : Z -> Z) (i j : Z) : Z :=
  diagm w i j + lam * al i * DtD d N i j.

(* ------------------------------------------------------------------ observation (correspondence) *)
Definition vec (N : Z) (f : Z -> Z) : list Z := map f (zrange 0 N).
Definition solver_code (s : solver) : Z * Z * Z :=
  match s with Penta => (0, 0, 0) | Solveh => (1, 0, 0) | SolveBanded l u => (2, l, u) end.
Definition observe_call (N : Z) (k : call) := (solver_code (k_solver k), tab (k_lhs k), vec N (k_rhs k)).
Definition dense (N : Z) (A : Z -> Z -> Z) : list (list Z) :=
  map (fun i => map (fun j => A i j) (zrange 0 N)) (zrange 0 N).
Definition of_list (l : list Z) : Z -> Z := fun i => nth (Z.to_nat i) l 0.
