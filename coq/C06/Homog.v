(* Homogeneity of the asls-type and iasls assemblies (property C06): what the exact-input correspondence harness
   relies on when it rescales dyadic weights by a power of two S to integers -- running the model on (S*lam, S*w)
   (iasls: (S^2*lam, S^2*lam_1, S*w)) gives, at every pass and for every solver setting, a system that DENOTES S times
   (iasls: S^2 times) the system of (lam, w), with the right-hand side scaled alike. *)
From Coq Require Import ZArith List Bool Lia ZifyBool.
From PB Require Import lib.SumZ lib.Arr C11.DtD C06.Model C06.Proofs.
Import ListNotations.
Open Scope Z_scope.

Lemma Forall2_pair {A B C} (P : A -> C -> Prop) (Q : B -> C -> Prop) (f : A -> B) (l : list A) :
  forall cs cs', Forall2 P l cs -> Forall2 Q (map f l) cs' ->
  Forall2 (fun k k' => exists a, P a k /\ Q (f a) k') cs cs'.
Proof.
  induction l as [|a l IH]; intros cs cs' H1 H2; cbn [map] in H2; inversion H1; inversion H2; subst; constructor.
  - exists a. split; assumption.
  - apply IH; assumption.
Qed.

Lemma Forall2_weaken {A B} (P Q : A -> B -> Prop) l l' :
  (forall a b, P a b -> Q a b) -> Forall2 P l l' -> Forall2 Q l l'.
Proof. intros H HF. induction HF; constructor; auto. Qed.

Definition scaled (N : nat) (S : Z) (k k' : call) : Prop :=
  (forall i j, 0 <= i < Z.of_nat N -> 0 <= j < Z.of_nat N -> den k' i j = S * den k i j) /\
  (forall i, 0 <= i < Z.of_nat N -> k_rhs k' i = S * k_rhs k i).

Theorem asls_homogeneous hp bs N lam d wl y S :
  (1 <= d < N)%nat -> 0 < lam -> 0 < S ->
  exists cs cs', asls hp bs N lam d wl y = Some cs /\
    asls hp bs N (S * lam) d (map (fun w i => S * w i) wl) y = Some cs' /\
    Forall2 (scaled N S) cs cs'.
Proof.
  intros Hd Hlam HS.
  destruct (asls_system hp bs N lam d wl y Hd Hlam) as (cs & Hcs & HF).
  destruct (asls_system hp bs N (S * lam) d (map (fun w i => S * w i) wl) y Hd ltac:(lia)) as (cs' & Hcs' & HF').
  exists cs, cs'. split; [exact Hcs|]. split; [exact Hcs'|].
  pose proof (Forall2_pair _ _ _ wl cs cs' HF HF') as HP.
  eapply Forall2_weaken; [|exact HP]. intros k k' (w & (_ & A1 & B1) & (_ & A2 & B2)). split.
  - intros i j Hi Hj. rewrite A1, A2 by assumption. unfold doc_asls, diagm. destruct (i =? j); ring.
  - intros i Hi. rewrite B1, B2 by assumption. unfold mulv. ring.
Qed.

Theorem iasls_homogeneous hp bs N lam lam1 d wl y S :
  (2 <= d < N)%nat -> 0 < lam -> 0 < S ->
  exists cs cs', iasls hp bs N lam lam1 d wl y = Some cs /\
    iasls hp bs N (S * S * lam) (S * S * lam1) d (map (fun w i => S * w i) wl) y = Some cs' /\
    Forall2 (scaled N (S * S)) cs cs'.
Proof.
  intros Hd Hlam HS.
  destruct (iasls_system hp bs N lam lam1 d wl y Hd Hlam) as (cs & Hcs & HF).
  destruct (iasls_system hp bs N (S * S * lam) (S * S * lam1) d (map (fun w i => S * w i) wl) y Hd ltac:(nia))
    as (cs' & Hcs' & HF').
  exists cs, cs'. split; [exact Hcs|]. split; [exact Hcs'|].
  pose proof (Forall2_pair _ _ _ wl cs cs' HF HF') as HP.
  eapply Forall2_weaken; [|exact HP]. intros k k' (w & (_ & A1 & B1) & (_ & A2 & B2)). split.
  - intros i j Hi Hj. rewrite A1, A2 by assumption. unfold doc_iasls, diagm, mulv. destruct (i =? j); ring.
  - intros i Hi. rewrite B1, B2 by assumption. unfold doc_iasls_rhs.
    rewrite !matvec_diag_plus by assumption. unfold mulv. ring.
Qed.
