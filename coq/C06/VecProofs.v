(* Proofs about the vec convention (C06, 2-D): default-order flatten/reshape are vec/unvec for EVERY memory
   layout; any other order is not (witness); the reflective check of the flatten sites read off the source;
   the 2-D system theorems restated on logical (M, N) arrays. *)
From Coq Require Import ZArith List Bool String Lia ZifyBool.
From PB Require Import lib.SumZ lib.Arr C11.DtD C06.Model C06.Model2D C06.Proofs C06.Proofs2D C06.Vec gen.GenC06Vec.
Import ListNotations.
Open Scope Z_scope.

(* reshape((M, N)) with the default order inverts the flatten, whatever the strides of the input were *)
Lemma unvec_vec N a i j : 0 <= j < N -> unvec N (vec N a) i j = a i j.
Proof. intros Hj. unfold unvec, vec. destruct (ravel_pair N i j Hj) as [-> ->]. reflexivity. Qed.

Lemma vec_unvec M N v p : 0 < N -> 0 <= p < M * N -> vec N (unvec N v) p = v p.
Proof.
  intros HN Hp. unfold vec, unvec. f_equal. pose proof (Z.div_mod p N ltac:(lia)). lia.
Qed.

(* an accepted order gives vec for every layout of the array *)
Lemma ravel_ok_is_vec o : ord_ok o = true ->
  forall (l : layout) M N a, np_ravel o l M N a = Some (vec N a).
Proof. destruct o; cbn; intros H; try discriminate; reflexivity. Qed.

(* and nothing else does: order K/A/F on column-major memory flattens in a different order *)
Lemma ravel_other_refuted : forall o, ord_ok o = false -> o <> OrdUnknown ->
  exists (l : layout) (a : Z -> Z -> Z) f p,
    np_ravel o l 2 3 a = Some f /\ 0 <= p < 2 * 3 /\ f p <> vec 3 a p.
Proof.
  intros o Ho Hu. exists LayF, (fun i j => 10 * i + j).
  destruct o; cbn in Ho; try discriminate; try (exfalso; apply Hu; reflexivity);
    (eexists; exists 1; split; [reflexivity|split; [lia|vm_compute; discriminate]]).
Qed.

Lemma check_sound sites : check sites = true ->
  (forall s, In s sites -> forall (l : layout) M N a, np_ravel (s_ord s) l M N a = Some (vec N a)) /\
  (exists s, In s sites /\ is_site "_Algorithm2D._setup_whittaker" "ravel" "y" s = true) /\
  (exists s, In s sites /\ is_site "_Algorithm2D._setup_whittaker" "ravel" "weight_array" s = true).
Proof.
  unfold check. intros H. apply andb_true_iff in H as [H H3]. apply andb_true_iff in H as [H1 H2].
  rewrite forallb_forall in H1. apply existsb_exists in H2. apply existsb_exists in H3.
  split; [|split; assumption]. intros s Hs. apply ravel_ok_is_vec, H1, Hs.
Qed.

(* the sites read off the current source pass the check *)
Lemma sites_checked : check GenC06Vec.sites = true.
Proof. vm_compute. reflexivity. Qed.

Lemma ravel_in_range M N i j : 0 <= i < M -> 0 <= j < N -> 0 <= i * N + j < M * N.
Proof.
  intros Hi Hj. split.
  - apply Z.add_nonneg_nonneg; [apply Z.mul_nonneg_nonneg|]; lia.
  - assert (i * N <= (M - 1) * N) by (apply Z.mul_le_mono_nonneg_r; lia).
    replace ((M - 1) * N) with (M * N - N) in H by ring. lia.
Qed.

(* the asls-type 2-D theorem on logical arrays: weights W and data Y are (M, N) arrays of values; what reaches
   spsolve is the documented Kronecker system in pair coordinates, with right-hand side W i j * Y i j *)
Theorem asls2_logical M N lr lc dr dc (Wl : list (Z -> Z -> Z)) (Y : Z -> Z -> Z) :
  (1 <= dr < M)%nat -> (1 <= dc < N)%nat -> 0 < lr -> 0 < lc ->
  exists cs, asls2 M N lr lc dr dc (map (vec (Z.of_nat N)) Wl) (vec (Z.of_nat N) Y) = Some cs /\
    Forall2 (fun W k =>
      forall i j i' j', 0 <= i < Z.of_nat M -> 0 <= j < Z.of_nat N -> 0 <= i' < Z.of_nat M -> 0 <= j' < Z.of_nat N ->
        c2_lhs k (i * Z.of_nat N + j) (i' * Z.of_nat N + j')
          = (if (i =? i') && (j =? j') then W i j else 0) + P2 M N lr lc dr dc i j i' j' /\
        c2_rhs k (i * Z.of_nat N + j) = W i j * Y i j) Wl cs.
Proof.
  intros Hr Hc Hlr Hlc.
  destruct (asls2_system M N lr lc dr dc (map (vec (Z.of_nat N)) Wl) (vec (Z.of_nat N) Y) Hr Hc Hlr Hlc) as (cs & Hcs & HF).
  exists cs. split; [exact Hcs|].
  eapply Forall2_map_l; [exact HF|]. intros W k [H1 H2] i j i' j' Hi Hj Hi' Hj'.
  assert (Hp : rng M N (i * Z.of_nat N + j)) by (apply ravel_in_range; assumption).
  assert (Hq : rng M N (i' * Z.of_nat N + j')) by (apply ravel_in_range; assumption).
  split.
  - rewrite H1 by assumption. unfold doc2_asls, diagm. rewrite P2r_pairs by assumption.
    f_equal. unfold vec.
    rewrite (ravel_eq (Z.of_nat N)) by lia.
    destruct (ravel_pair (Z.of_nat N) i j Hj) as [E1 E2]. rewrite E1, E2.
    destruct (ravel_pair (Z.of_nat N) i' j' Hj') as [E3 E4]. rewrite E3, E4. reflexivity.
  - rewrite H2 by assumption. unfold mulv, vec.
    destruct (ravel_pair (Z.of_nat N) i j Hj) as [-> ->]. reflexivity.
Qed.
