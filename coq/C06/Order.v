(* The order convention of property C06, next to the vec convention (C06/Vec.v).

   The documented systems are stated for the data AS SUPPLIED: weight_i and alpha_i belong to data point i
   as supplied.  The implementation assembles the system in x-sorted order; with s the sort order (sorted position k
   holds the supplied point s k, x_sorted = x[s]) every per-point array the system is assembled from must be the
   GATHER a[s] of the supplied array.  Assigning through the sort order (b[s] = a) is a SCATTER: a gather through
   the inverse permutation -- the same thing only for involutions (sorted x, exactly reversed x).
   Models and the reflective checker only; proofs in C06/OrderProofs.v. *)
From Coq Require Import ZArith List Bool String.
Import ListNotations.
Open Scope Z_scope.

Definition gather (a : Z -> Z) (s : Z -> Z) : Z -> Z := fun k => a (s k).           (* a[s] *)
(* b = empty_like(a); b[s] = a   for a permutation s of 0..n-1 with inverse sinv *)
Definition scatter (a : Z -> Z) (sinv : Z -> Z) : Z -> Z := fun k => a (sinv k).
Definition inverse_on (n : Z) (s sinv : Z -> Z) : Prop :=
  forall k, 0 <= k < n -> 0 <= s k < n /\ 0 <= sinv k < n /\ sinv (s k) = k /\ s (sinv k) = k.

Inductive okind := Gather | Scatter.
Record osite := mk_osite { o_file : string; o_func : string; o_arr : string; o_kind : okind }.

Definition is_gather (s : osite) : bool := match o_kind s with Gather => true | Scatter => false end.
Definition is_osite (r : string * string * string) (s : osite) : bool :=
  let '(f, g, a) := r in String.eqb (o_file s) f && String.eqb (o_func s) g && String.eqb (o_arr s) a.

(* the sites that must exist: where the user's weights (1-D and 2-D set-up) and alpha (aspls) are brought into sorted order *)
Open Scope string_scope.
Definition required : list (string * string * string) := [
  ("pybaselines/_algorithm_setup.py", "_Algorithm._setup_whittaker", "weight_array");
  ("pybaselines/whittaker.py", "_Whittaker.aspls", "alpha_array");
  ("pybaselines/two_d/_algorithm_setup.py", "_Algorithm2D._setup_whittaker", "weight_array");
  ("pybaselines/two_d/whittaker.py", "_Whittaker.aspls", "alpha_array")
].
Close Scope string_scope.

(* every use of the sort order as an index is a gather, and the sites that sort the user's weights / alpha exist *)
Definition ocheck (l : list osite) (required : list (string * string * string)) : bool :=
  forallb is_gather l && forallb (fun r => existsb (is_osite r) l) required.
