(* C18 -- proofs about _get_edges / pad_edges: length, interior, least-squares continuation. *)
From Coq Require Import ZArith QArith Qabs List Bool Lia ZifyBool Lqa Setoid Morphisms.
From PB Require Import lib.PySlice C18.Model C18.SumQ.
Import ListNotations.
Open Scope Z_scope.

Ltac slice_unfold :=
  unfold vslice, arange, sl_len, sl_start, sl_stop, clamp, pos in *; cbn [vlen vget] in *.

(* ------------------------------------------------------------------ the slices of _get_edges *)
Section Slices.
  Variables (n p w : Z).
  Hypothesis Hn : 1 <= n.
  Hypothesis Hp : 1 <= p.
  Hypothesis Hw : 1 <= w.
  Let x := arange (n + 2 * p).
  Let xmid := vslice x (Some p) (Some (- p)).

  Lemma xmid_len : vlen xmid = n.
  Proof. subst xmid x. slice_unfold.
    destruct (p <? 0) eqn:?, (- p <? 0) eqn:?; lia. Qed.
  Lemma xmid_get i : vget xmid i = inject_Z (p + i).
  Proof. subst xmid x. slice_unfold. destruct (p <? 0) eqn:?; try lia.
    f_equal. lia. Qed.

  Lemma xl_len : vlen (vslice xmid None (Some w)) = Z.min w n.
  Proof. unfold vslice at 1. cbn [vlen]. rewrite xmid_len. unfold sl_len, sl_start, sl_stop, clamp.
    destruct (w <? 0) eqn:?; lia. Qed.
  Lemma xl_get i : vget (vslice xmid None (Some w)) i = inject_Z (p + i).
  Proof. unfold vslice at 1. cbn [vget]. unfold sl_start. rewrite xmid_get. f_equal. Qed.

  Lemma xr_len : vlen (vslice xmid (Some (- w)) None) = Z.min w n.
  Proof. unfold vslice at 1. cbn [vlen]. rewrite xmid_len. unfold sl_len, sl_start, sl_stop, clamp.
    destruct (- w <? 0) eqn:?; lia. Qed.
  Lemma xr_get i : vget (vslice xmid (Some (- w)) None) i = inject_Z (p + (n - Z.min w n) + i).
  Proof. unfold vslice at 1. cbn [vget]. rewrite xmid_len. unfold sl_start, clamp. rewrite xmid_get.
    destruct (- w <? 0) eqn:?; f_equal; lia. Qed.

  Lemma tl_len : vlen (vslice x None (Some p)) = p.
  Proof. subst x. slice_unfold. destruct (p <? 0) eqn:?; lia. Qed.
  Lemma tl_get i : vget (vslice x None (Some p)) i = inject_Z i.
  Proof. subst x. slice_unfold. f_equal. Qed.
  Lemma tr_len : vlen (vslice x (Some (- p)) None) = p.
  Proof. subst x. slice_unfold. destruct (- p <? 0) eqn:?; lia. Qed.
  Lemma tr_get i : vget (vslice x (Some (- p)) None) i = inject_Z (n + p + i).
  Proof. subst x. slice_unfold. destruct (- p <? 0) eqn:?; f_equal; lia. Qed.
End Slices.

Lemma yl_len (y : vec) w : 1 <= w -> vlen (vslice y None (Some w)) = Z.min w (vlen y) \/ vlen y < 0.
Proof. intros. slice_unfold. destruct (w <? 0) eqn:?; lia. Qed.
Lemma yl_get (y : vec) w i : vget (vslice y None (Some w)) i = vget y i.
Proof. slice_unfold. reflexivity. Qed.
Lemma yr_len (y : vec) w : 1 <= w -> 0 <= vlen y -> vlen (vslice y (Some (- w)) None) = Z.min w (vlen y).
Proof. intros. slice_unfold. destruct (- w <? 0) eqn:?; lia. Qed.
Lemma yr_get (y : vec) w i : 1 <= w -> 0 <= vlen y ->
  vget (vslice y (Some (- w)) None) i = vget y (vlen y - Z.min w (vlen y) + i).
Proof. intros. slice_unfold. destruct (- w <? 0) eqn:?; f_equal; lia. Qed.

(* ------------------------------------------------------------------ edges: always defined, length p *)
Lemma fit_line_ok xs ys : vlen xs = vlen ys -> 1 <= vlen xs -> exists l, fit_line xs ys = Ok l.
Proof.
  intros E H. unfold fit_line.
  destruct (vlen xs =? vlen ys) eqn:?; [|lia]. cbn [negb].
  destruct (vlen xs <=? 0) eqn:?; [lia|]. eexists; reflexivity.
Qed.

Lemma edge_side_len y p left w :
  1 <= vlen y -> 1 <= p -> 1 <= w ->
  exists e, edge_side y p left w = Ok e /\ vlen e = p.
Proof.
  intros Hn Hp Hw. unfold edge_side.
  destruct (w =? 1) eqn:Hw1; [eexists; split; [reflexivity|reflexivity]|].
  destruct left.
  - destruct (fit_line_ok (vslice (vslice (arange (vlen y + 2 * p)) (Some p) (Some (- p))) None (Some w))
                          (vslice y None (Some w))) as [l Hl].
    + rewrite xl_len by lia. destruct (yl_len y w Hw); lia.
    + rewrite xl_len by lia. lia.
    + rewrite Hl. unfold assign_all. cbn [vmap vlen]. rewrite tl_len by lia.
      rewrite Z.eqb_refl. eexists; split; [reflexivity|]. cbn [vlen]. apply tl_len; lia.
  - destruct (fit_line_ok (vslice (vslice (arange (vlen y + 2 * p)) (Some p) (Some (- p))) (Some (- w)) None)
                          (vslice y (Some (- w)) None)) as [l Hl].
    + rewrite xr_len by lia. rewrite yr_len by lia. reflexivity.
    + rewrite xr_len by lia. lia.
    + rewrite Hl. unfold assign_all. cbn [vmap vlen]. rewrite tr_len by lia.
      rewrite Z.eqb_refl. eexists; split; [reflexivity|]. cbn [vlen]. apply tr_len; lia.
Qed.

Definition windows_of (ew : option (list Z)) (p : Z) : option (Z * Z) :=
  resolve_windows (match ew with None => [p] | Some l => l end).

(* what a caller must supply for a mode: numpy's contract, or valid extrapolation windows *)
Definition mode_ok (m : mode) (p : Z) : Prop :=
  match m with
  | NpMode f => np_contract f
  | Extrapolate ew => p = 0 \/ exists wl wr, windows_of ew p = Some (wl, wr) /\ 1 <= wl /\ 1 <= wr
  end.

Lemma get_edges_ok y p ew wl wr :
  1 <= vlen y -> 1 <= p -> windows_of ew p = Some (wl, wr) -> 1 <= wl -> 1 <= wr ->
  exists l r, get_edges y p ew = Ok (l, r) /\ vlen l = p /\ vlen r = p /\
              edge_side y p true wl = Ok l /\ edge_side y p false wr = Ok r.
Proof.
  intros Hn Hp Hwin Hl Hr. unfold get_edges. unfold windows_of in Hwin.
  destruct (p =? 0) eqn:?; [lia|]. destruct (p <? 0) eqn:?; [lia|].
  rewrite Hwin.
  destruct (wl <=? 0) eqn:?; [lia|]. destruct (wr <=? 0) eqn:?; [lia|]. cbn [orb].
  destruct (edge_side_len y p true wl Hn Hp Hl) as (l & El & Ll).
  destruct (edge_side_len y p false wr Hn Hp Hr) as (r & Er & Lr).
  rewrite El, Er. exists l, r. repeat split; assumption.
Qed.

(* C18_len_interior *)
Theorem pad_len_interior y p m :
  1 <= vlen y -> 0 <= p -> mode_ok m p ->
  exists out, pad_edges y p m = Ok out /\ vlen out = vlen y + 2 * p /\
              forall i, 0 <= i < vlen y -> vget out (p + i) = vget y i.
Proof.
  intros Hn Hp Hm. unfold pad_edges.
  destruct (p =? 0) eqn:Hp0.
  { exists y. split; [reflexivity|]. split; [lia|]. intros. f_equal. lia. }
  destruct m as [ew|f]; cbn [mode_ok] in Hm.
  - destruct Hm as [?|(wl & wr & Hw & Hl & Hr)]; [lia|].
    destruct (get_edges_ok y p ew wl wr) as (l & r & E & Ll & Lr & _); try assumption; try lia.
    rewrite E. eexists; split; [reflexivity|]. unfold vcat3; cbn [vlen vget]. split; [lia|].
    intros i Hi. rewrite Ll.
    destruct (p + i <? p) eqn:?; [lia|]. destruct (p + i <? p + vlen y) eqn:?; [|lia].
    f_equal. lia.
  - destruct (p <? 0) eqn:?; [lia|]. exists (f y p). split; [reflexivity|].
    apply Hm; lia.
Qed.

(* the rejected inputs *)
Lemma pad_negative y p m : p < 0 -> pad_edges y p m = Err ValueErr.
Proof.
  intros H. unfold pad_edges, get_edges. destruct (p =? 0) eqn:?; [lia|].
  destruct m; destruct (p <? 0) eqn:?; try lia; reflexivity.
Qed.
Lemma pad_bad_window y p ew wl wr :
  1 <= p -> windows_of ew p = Some (wl, wr) -> wl <= 0 \/ wr <= 0 ->
  pad_edges y p (Extrapolate ew) = Err ValueErr.
Proof.
  intros Hp Hw H. unfold pad_edges, get_edges. unfold windows_of in Hw.
  destruct (p =? 0) eqn:?; [lia|]. destruct (p <? 0) eqn:?; [lia|]. rewrite Hw.
  destruct (wl <=? 0) eqn:?, (wr <=? 0) eqn:?; cbn [orb]; try reflexivity; lia.
Qed.

(* ------------------------------------------------------------------ the five concrete numpy modes
   satisfy the contract (so it is satisfiable) *)
Lemma src_edge_range n k : 1 <= n -> 0 <= src_edge n k < n.
Proof. unfold src_edge. lia. Qed.
Lemma src_reflect_range n k : 1 <= n -> 0 <= src_reflect n k < n.
Proof. unfold src_reflect. intros. destruct (n <=? 1) eqn:?; [lia|].
  pose proof (Z.mod_pos_bound k (2 * n - 2) ltac:(lia)).
  destruct (k mod (2 * n - 2) <? n) eqn:?; lia. Qed.
Lemma src_symmetric_range n k : 1 <= n -> 0 <= src_symmetric n k < n.
Proof. unfold src_symmetric. intros.
  pose proof (Z.mod_pos_bound k (2 * n) ltac:(lia)).
  destruct (k mod (2 * n) <? n) eqn:?; lia. Qed.
Lemma src_wrap_range n k : 1 <= n -> 0 <= src_wrap n k < n.
Proof. unfold src_wrap. intros. apply Z.mod_pos_bound. lia. Qed.

Lemma np_src_contract src :
  (forall n k, 1 <= n -> 0 <= k < n -> src n k = k) -> np_contract (np_src src).
Proof.
  intros H y p Hp Hn. unfold np_src; cbn [vlen vget]. split; [reflexivity|].
  intros i Hi. f_equal. replace (p + i - p) with i by lia. apply H; lia.
Qed.

Lemma np_edge_contract : np_contract np_edge.
Proof. apply np_src_contract. unfold src_edge. lia. Qed.
Lemma np_reflect_contract : np_contract np_reflect.
Proof. apply np_src_contract. intros n k Hn Hk. unfold src_reflect.
  destruct (n <=? 1) eqn:?; [lia|]. rewrite Z.mod_small by lia.
  destruct (k <? n) eqn:?; lia. Qed.
Lemma np_symmetric_contract : np_contract np_symmetric.
Proof. apply np_src_contract. intros n k Hn Hk. unfold src_symmetric.
  rewrite Z.mod_small by lia. destruct (k <? n) eqn:?; lia. Qed.
Lemma np_wrap_contract : np_contract np_wrap.
Proof. apply np_src_contract. intros n k Hn Hk. unfold src_wrap. apply Z.mod_small. lia. Qed.
Lemma np_constant_contract c : np_contract (np_constant c).
Proof. intros y p Hp Hn. unfold np_constant; cbn [vlen vget]. split; [reflexivity|].
  intros i Hi. destruct (p <=? p + i) eqn:?, (p + i <? p + vlen y) eqn:?; cbn [andb]; try lia.
  f_equal. lia. Qed.

(* ------------------------------------------------------------------ least squares *)
(* the fitted line satisfies the normal equations: residuals sum to zero and are orthogonal to x *)
Definition sxx_of (xs : vec) : Q :=
  let m := inject_Z (vlen xs) in
  let xbar := (vsum xs / m)%Q in
  sumQ (Z.to_nat (vlen xs)) (fun k => (vget xs k - xbar) * (vget xs k - xbar))%Q.

Lemma inject_Z_pos z : 0 < z -> (0 < inject_Z z)%Q.
Proof. intros. unfold Qlt, inject_Z. cbn. lia. Qed.
Lemma inject_Z_nz z : 0 < z -> ~ (inject_Z z == 0)%Q.
Proof. intros H E. pose proof (inject_Z_pos z H). lra. Qed.

Lemma inject_Z_nat_len (v : vec) : 0 <= vlen v -> inject_Z (Z.of_nat (Z.to_nat (vlen v))) = inject_Z (vlen v).
Proof. intros. rewrite Z2Nat.id by lia. reflexivity. Qed.

Lemma centred_sum_zero (xs : vec) :
  1 <= vlen xs ->
  (sumQ (Z.to_nat (vlen xs)) (fun k => vget xs k - vsum xs / inject_Z (vlen xs)) == 0)%Q.
Proof.
  intros H.
  assert (Hm : ~ (inject_Z (vlen xs) == 0)%Q).
  { apply inject_Z_nz. lia. }
  rewrite (sumQ_ext _ _ (fun k => vget xs k + (-1) * (vsum xs / inject_Z (vlen xs)))%Q)
    by (intros; ring).
  rewrite sumQ_add, sumQ_const, inject_Z_nat_len by lia. unfold vsum. field. exact Hm.
Qed.

Theorem fit_normal_equations xs ys l :
  fit_line xs ys = Ok l -> ~ (sxx_of xs == 0)%Q ->
  let r := fun k => (vget ys k - line_at l (vget xs k))%Q in
  (sumQ (Z.to_nat (vlen xs)) r == 0)%Q /\
  (sumQ (Z.to_nat (vlen xs)) (fun k => vget xs k * r k) == 0)%Q.
Proof.
  unfold fit_line. destruct (vlen xs =? vlen ys) eqn:E; cbn [negb]; [|discriminate].
  destruct (vlen xs <=? 0) eqn:E0; [discriminate|].
  intros Hl Hs. injection Hl as <-. unfold line_at; cbn [l_xbar l_ybar l_slope].
  fold (sxx_of xs) in *.
  set (n := Z.to_nat (vlen xs)).
  set (xb := (vsum xs / inject_Z (vlen xs))%Q).
  set (yb := (vsum ys / inject_Z (vlen xs))%Q).
  set (sxy := sumQ n (fun k => (vget xs k - xb) * (vget ys k - yb))%Q).
  assert (Hx0 : (sumQ n (fun k => vget xs k - xb) == 0)%Q) by (apply centred_sum_zero; lia).
  assert (Hy0 : (sumQ n (fun k => vget ys k - yb) == 0)%Q).
  { subst n yb. replace (vlen xs) with (vlen ys) by lia. apply centred_sum_zero; lia. }
  assert (Hxx : (sumQ n (fun k => (vget xs k - xb) * (vget xs k - xb)) == sxx_of xs)%Q) by reflexivity.
  cbv zeta. split.
  - rewrite (sumQ_ext _ _ (fun k => (vget ys k - yb) + (- (sxy / sxx_of xs)) * (vget xs k - xb))%Q)
      by (intros; ring).
    rewrite sumQ_add, sumQ_scale, Hx0, Hy0. ring.
  - rewrite (sumQ_ext _ _ (fun k =>
        ((vget xs k - xb) * (vget ys k - yb) + (- (sxy / sxx_of xs)) * ((vget xs k - xb) * (vget xs k - xb)))
        + (xb * (vget ys k - yb) + (- (xb * (sxy / sxx_of xs))) * (vget xs k - xb)))%Q)
      by (intros; ring).
    rewrite !sumQ_add, !sumQ_scale, Hx0, Hy0, Hxx. fold sxy. field. exact Hs.
Qed.

Lemma sq_nonneg (u : Q) : (0 <= u * u)%Q.
Proof. destruct (Qlt_le_dec u 0); nra. Qed.
Lemma two_sq_pos (u S : Q) : (u * u <= S -> (u + 1) * (u + 1) <= S -> 0 < S)%Q.
Proof. intros. destruct (Qlt_le_dec u (- (1 # 2))); nra. Qed.

(* equally spaced abscissae with at least two points: Sxx > 0 *)
Lemma sxx_pos xs x0 :
  2 <= vlen xs -> (forall k, 0 <= k < vlen xs -> (vget xs k == x0 + inject_Z k)%Q) ->
  (0 < sxx_of xs)%Q.
Proof.
  intros Hm Hx. unfold sxx_of.
  set (xb := (vsum xs / inject_Z (vlen xs))%Q).
  set (f := fun k => ((vget xs k - xb) * (vget xs k - xb))%Q).
  assert (Hf : forall j, 0 <= j < Z.of_nat (Z.to_nat (vlen xs)) -> (0 <= f j)%Q).
  { intros. unfold f. apply sq_nonneg. }
  assert (H0 : (f 0%Z <= sumQ (Z.to_nat (vlen xs)) f)%Q) by (apply sumQ_ge_term; [exact Hf|lia]).
  assert (H1 : (f 1%Z <= sumQ (Z.to_nat (vlen xs)) f)%Q) by (apply sumQ_ge_term; [exact Hf|lia]).
  assert (E0 : (f 0%Z == (x0 - xb) * (x0 - xb))%Q).
  { unfold f. rewrite (Hx 0) by lia. change (inject_Z 0) with 0%Q. ring. }
  assert (E1 : (f 1%Z == (x0 - xb + 1) * (x0 - xb + 1))%Q).
  { unfold f. rewrite (Hx 1) by lia. change (inject_Z 1) with 1%Q. ring. }
  rewrite E0 in H0. rewrite E1 in H1.
  exact (two_sq_pos (x0 - xb) _ H0 H1).
Qed.

(* exactly linear data on equally spaced abscissae is fitted exactly *)
Lemma fit_linear xs ys a b x0 :
  vlen xs = vlen ys -> 2 <= vlen xs ->
  (forall k, 0 <= k < vlen xs -> (vget xs k == x0 + inject_Z k)%Q) ->
  (forall k, 0 <= k < vlen xs -> (vget ys k == a + b * vget xs k)%Q) ->
  exists l, fit_line xs ys = Ok l /\ forall t, (line_at l t == a + b * t)%Q.
Proof.
  intros E Hm Hx Hy.
  pose proof (sxx_pos xs x0 Hm Hx) as Hs.
  unfold fit_line. destruct (vlen xs =? vlen ys) eqn:?; [|lia]. cbn [negb].
  destruct (vlen xs <=? 0) eqn:?; [lia|]. eexists; split; [reflexivity|].
  intros t. unfold line_at; cbn [l_xbar l_ybar l_slope]. fold (sxx_of xs).
  set (n := Z.to_nat (vlen xs)).
  set (xb := (vsum xs / inject_Z (vlen xs))%Q).
  assert (Hmq : ~ (inject_Z (vlen xs) == 0)%Q).
  { apply inject_Z_nz. lia. }
  assert (Hyb : (vsum ys / inject_Z (vlen xs) == a + b * xb)%Q).
  { unfold vsum at 1. rewrite <- E. fold n.
    rewrite (sumQ_ext n (vget ys) (fun k => a + b * vget xs k)%Q) by (intros; apply Hy; lia).
    rewrite sumQ_add, sumQ_const, sumQ_scale. subst n. rewrite inject_Z_nat_len by lia.
    subst xb. unfold vsum. field. exact Hmq. }
  assert (Hxy : (sumQ n (fun k => (vget xs k - xb) * (vget ys k - vsum ys / inject_Z (vlen xs)))
                 == b * sxx_of xs)%Q).
  { unfold sxx_of. fold xb. fold n. rewrite <- sumQ_scale. apply sumQ_ext. intros k Hk.
    rewrite Hyb, (Hy k) by lia. ring. }
  rewrite Hxy, Hyb. field. lra.
Qed.

(* ------------------------------------------------------------------ linear data is continued exactly *)
Definition linear_on (y : vec) (a b : Q) : Prop :=
  forall i, 0 <= i < vlen y -> (vget y i == a + b * inject_Z i)%Q.

Lemma edge_left_linear y p w a b :
  2 <= vlen y -> 1 <= p -> 2 <= w -> linear_on y a b ->
  exists e, edge_side y p true w = Ok e /\ vlen e = p /\
            forall i, 0 <= i < p -> (vget e i == a + b * inject_Z (i - p))%Q.
Proof.
  intros Hn Hp Hw Hy. unfold edge_side. destruct (w =? 1) eqn:?; [lia|].
  set (xs := vslice (vslice (arange (vlen y + 2 * p)) (Some p) (Some (- p))) None (Some w)).
  set (ys := vslice y None (Some w)).
  assert (Lx : vlen xs = Z.min w (vlen y)) by (apply xl_len; lia).
  assert (Ly : vlen ys = Z.min w (vlen y)) by (destruct (yl_len y w ltac:(lia)); [assumption|lia]).
  destruct (fit_linear xs ys (a - b * inject_Z p) b (inject_Z p)) as (l & El & Hl).
  - lia.
  - lia.
  - intros k Hk. subst xs. rewrite xl_get by lia. rewrite inject_Z_plus. reflexivity.
  - intros k Hk. subst xs ys. rewrite xl_get by lia. rewrite yl_get. rewrite (Hy k) by lia.
    rewrite inject_Z_plus. ring.
  - rewrite El. unfold assign_all. cbn [vmap vlen]. rewrite tl_len by lia. rewrite Z.eqb_refl.
    eexists; split; [reflexivity|]. cbn [vmap vlen vget]. split; [apply tl_len; lia|].
    intros i Hi. rewrite tl_get, Hl. unfold Z.sub. rewrite inject_Z_plus, inject_Z_opp. ring.
Qed.

Lemma edge_right_linear y p w a b :
  2 <= vlen y -> 1 <= p -> 2 <= w -> linear_on y a b ->
  exists e, edge_side y p false w = Ok e /\ vlen e = p /\
            forall i, 0 <= i < p -> (vget e i == a + b * inject_Z (vlen y + i))%Q.
Proof.
  intros Hn Hp Hw Hy. unfold edge_side. destruct (w =? 1) eqn:?; [lia|].
  set (xs := vslice (vslice (arange (vlen y + 2 * p)) (Some p) (Some (- p))) (Some (- w)) None).
  set (ys := vslice y (Some (- w)) None).
  assert (Lx : vlen xs = Z.min w (vlen y)) by (apply xr_len; lia).
  assert (Ly : vlen ys = Z.min w (vlen y)) by (apply yr_len; lia).
  destruct (fit_linear xs ys (a - b * inject_Z p) b (inject_Z (p + (vlen y - Z.min w (vlen y)))))
    as (l & El & Hl).
  - lia.
  - lia.
  - intros k Hk. subst xs. rewrite xr_get by lia. rewrite inject_Z_plus. reflexivity.
  - intros k Hk. subst xs ys. rewrite xr_get by lia. rewrite yr_get by lia.
    rewrite (Hy (vlen y - Z.min w (vlen y) + k)) by lia.
    rewrite !inject_Z_plus. ring.
  - rewrite El. unfold assign_all. cbn [vmap vlen]. rewrite tr_len by lia. rewrite Z.eqb_refl.
    eexists; split; [reflexivity|]. cbn [vmap vlen vget]. split; [apply tr_len; lia|].
    intros i Hi. rewrite tr_get, Hl by lia. rewrite !inject_Z_plus. ring.
Qed.

(* window = 1: the edge value is repeated *)
Lemma edge_window1 y p left :
  edge_side y p left 1 = Ok (vfull p (vget y (if left then 0 else vlen y - 1))).
Proof. unfold edge_side. cbn [Z.eqb Pos.eqb]. unfold pos. cbn. destruct left; reflexivity. Qed.

(* C18_linear_exact *)
Theorem pad_linear_exact y p ew wl wr a b :
  2 <= vlen y -> 1 <= p -> windows_of ew p = Some (wl, wr) -> 2 <= wl -> 2 <= wr ->
  linear_on y a b ->
  exists out, pad_edges y p (Extrapolate ew) = Ok out /\ vlen out = vlen y + 2 * p /\
              forall i, 0 <= i < vlen y + 2 * p -> (vget out i == a + b * inject_Z (i - p))%Q.
Proof.
  intros Hn Hp Hwin Hl Hr Hy.
  destruct (get_edges_ok y p ew wl wr) as (l & r & E & Ll & Lr & El & Er); try lia; try assumption.
  destruct (edge_left_linear y p wl a b) as (l' & El' & _ & Vl); try lia; try assumption.
  destruct (edge_right_linear y p wr a b) as (r' & Er' & _ & Vr); try lia; try assumption.
  rewrite El in El'. injection El' as <-. rewrite Er in Er'. injection Er' as <-.
  unfold pad_edges. destruct (p =? 0) eqn:?; [lia|]. rewrite E.
  eexists; split; [reflexivity|]. unfold vcat3; cbn [vlen vget]. split; [lia|].
  intros i Hi. rewrite Ll.
  destruct (i <? p) eqn:?.
  - apply Vl. lia.
  - destruct (i <? p + vlen y) eqn:?.
    + rewrite (Hy (i - p)) by lia. reflexivity.
    + rewrite (Vr (i - p - vlen y)) by lia. replace (vlen y + (i - p - vlen y)) with (i - p) by lia.
      reflexivity.
Qed.

(* the general statement behind it: on each side with window >= 2 the added points lie on the
   least-squares line (normal equations) of the min(w, N) points next to that side *)
Theorem pad_edge_is_lsq (y : vec) (p w : Z) (left : bool) :
  2 <= vlen y -> 1 <= p -> 2 <= w ->
  let m := Z.min w (vlen y) in
  let s := if left then 0 else vlen y - m in        (* first data index used *)
  exists e l, edge_side y p left w = Ok e /\ vlen e = p /\
    (forall i, 0 <= i < p ->
       (vget e i == line_at l (inject_Z (if left then i else vlen y + p + i)))%Q) /\
    (sumQ (Z.to_nat m) (fun k => vget y (s + k) - line_at l (inject_Z (p + s + k))) == 0)%Q /\
    (sumQ (Z.to_nat m) (fun k => inject_Z (p + s + k) * (vget y (s + k) - line_at l (inject_Z (p + s + k)))) == 0)%Q.
Proof.
  intros Hn Hp Hw m s. unfold edge_side. destruct (w =? 1) eqn:?; [lia|].
  destruct left.
  - set (xs := vslice (vslice (arange (vlen y + 2 * p)) (Some p) (Some (- p))) None (Some w)).
    set (ys := vslice y None (Some w)).
    assert (Lx : vlen xs = m) by (apply xl_len; lia).
    assert (Ly : vlen ys = m) by (destruct (yl_len y w ltac:(lia)); [assumption|lia]).
    destruct (fit_line_ok xs ys) as [l El]; [lia|lia|].
    assert (Hs : (0 < sxx_of xs)%Q).
    { apply (sxx_pos xs (inject_Z p)); [lia|]. intros k Hk. subst xs. rewrite xl_get by lia.
      rewrite inject_Z_plus. reflexivity. }
    destruct (fit_normal_equations xs ys l El ltac:(lra)) as [N1 N2].
    rewrite El. unfold assign_all. cbn [vmap vlen]. rewrite tl_len by lia. rewrite Z.eqb_refl.
    exists (vmap (line_at l) (vslice (arange (vlen y + 2 * p)) None (Some p))), l.
    split; [reflexivity|]. cbn [vmap vlen vget]. split; [apply tl_len; lia|]. split.
    + intros i Hi. rewrite tl_get. reflexivity.
    + rewrite Lx in N1, N2. subst s. split.
      * rewrite <- N1. apply sumQ_ext. intros k Hk. subst xs ys. rewrite xl_get by lia. rewrite yl_get.
        replace (p + 0 + k) with (p + k) by lia. reflexivity.
      * rewrite <- N2. apply sumQ_ext. intros k Hk. subst xs ys. rewrite xl_get by lia. rewrite yl_get.
        replace (p + 0 + k) with (p + k) by lia. reflexivity.
  - set (xs := vslice (vslice (arange (vlen y + 2 * p)) (Some p) (Some (- p))) (Some (- w)) None).
    set (ys := vslice y (Some (- w)) None).
    assert (Lx : vlen xs = m) by (apply xr_len; lia).
    assert (Ly : vlen ys = m) by (apply yr_len; lia).
    destruct (fit_line_ok xs ys) as [l El]; [lia|lia|].
    assert (Hs : (0 < sxx_of xs)%Q).
    { apply (sxx_pos xs (inject_Z (p + (vlen y - m)))); [lia|]. intros k Hk. subst xs.
      rewrite xr_get by lia. rewrite inject_Z_plus. reflexivity. }
    destruct (fit_normal_equations xs ys l El ltac:(lra)) as [N1 N2].
    rewrite El. unfold assign_all. cbn [vmap vlen]. rewrite tr_len by lia. rewrite Z.eqb_refl.
    exists (vmap (line_at l) (vslice (arange (vlen y + 2 * p)) (Some (- p)) None)), l.
    split; [reflexivity|]. cbn [vmap vlen vget]. split; [apply tr_len; lia|]. split.
    + intros i Hi. rewrite tr_get by lia. reflexivity.
    + rewrite Lx in N1, N2. subst s. split.
      * rewrite <- N1. apply sumQ_ext. intros k Hk. subst xs ys. rewrite xr_get by lia.
        rewrite yr_get by lia. fold m. replace (p + (vlen y - m) + k) with (p + (vlen y - m + k)) by lia.
        reflexivity.
      * rewrite <- N2. apply sumQ_ext. intros k Hk. subst xs ys. rewrite xr_get by lia.
        rewrite yr_get by lia. fold m. replace (p + (vlen y - m) + k) with (p + (vlen y - m + k)) by lia.
        reflexivity.
Qed.
