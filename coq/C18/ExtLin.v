(* C18 -- pad_edges 'extrapolate' and padded_convolve with it are LINEAR maps of the data (every length,
   pad length, windows, kernel, scalars), and reject a combination exactly when they reject the parts.
   Proofs only; models in C18/Model.v. *)
From Coq Require Import ZArith QArith Qabs List Bool Lia ZifyBool Lqa Setoid Morphisms.
From PB Require Import lib.PySlice C18.Model C18.SumQ C18.PadProofs C18.LinProofs.
Import ListNotations.
Open Scope Z_scope.

Lemma vsum_lin a b (y1 y2 : vec) : vlen y1 = vlen y2 ->
  (vsum (vlin a b y1 y2) == a * vsum y1 + b * vsum y2)%Q.
Proof.
  intros L. unfold vsum, vlin; cbn [vlen vget]. rewrite <- L.
  rewrite sumQ_add, !sumQ_scale. reflexivity.
Qed.

Definition rel3 (a b : Q) (r1 r2 r : res vec) : Prop :=
  match r1, r2, r with
  | Ok o1, Ok o2, Ok o => vlen o = vlen o1 /\ vlen o = vlen o2 /\
                          forall i, (vget o i == a * vget o1 i + b * vget o2 i)%Q
  | Err e1, Err e2, Err e => e1 = e /\ e2 = e
  | _, _, _ => False
  end.

Theorem fit_line_linear xs y1 y2 a b : vlen y1 = vlen y2 ->
  match fit_line xs y1, fit_line xs y2, fit_line xs (vlin a b y1 y2) with
  | Ok l1, Ok l2, Ok l => forall t, (line_at l t == a * line_at l1 t + b * line_at l2 t)%Q
  | Err e1, Err e2, Err e => e1 = e /\ e2 = e
  | _, _, _ => False
  end.
Proof.
  intros L. unfold fit_line. change (vlen (vlin a b y1 y2)) with (vlen y1). rewrite <- L.
  destruct (negb (vlen xs =? vlen y1)) eqn:E1; [split; reflexivity|].
  destruct (vlen xs <=? 0) eqn:E2; [split; reflexivity|].
  intros t. unfold line_at; cbn [l_xbar l_ybar l_slope].
  assert (Hm : ~ (inject_Z (vlen xs) == 0)%Q) by (apply inject_Z_nz; lia).
  set (m := inject_Z (vlen xs)) in *.
  assert (Hy : (vsum (vlin a b y1 y2) / m == a * (vsum y1 / m) + b * (vsum y2 / m))%Q).
  { rewrite vsum_lin by exact L. field. exact Hm. }
  set (xbar := (vsum xs / m)%Q). set (yb1 := (vsum y1 / m)%Q) in *. set (yb2 := (vsum y2 / m)%Q) in *.
  set (N := Z.to_nat (vlen xs)).
  assert (Hs : (sumQ N (fun k => (vget xs k - xbar) * (vget (vlin a b y1 y2) k - vsum (vlin a b y1 y2) / m))
               == a * sumQ N (fun k => (vget xs k - xbar) * (vget y1 k - yb1))
                  + b * sumQ N (fun k => (vget xs k - xbar) * (vget y2 k - yb2)))%Q).
  { rewrite <- !sumQ_scale, <- sumQ_add. apply sumQ_ext. intros k _. rewrite Hy.
    unfold vlin; cbn [vget]. ring. }
  rewrite Hs, Hy. unfold Qdiv. ring.
Qed.

Lemma edge_side_linear y1 y2 p left w a b : vlen y1 = vlen y2 ->
  rel3 a b (edge_side y1 p left w) (edge_side y2 p left w) (edge_side (vlin a b y1 y2) p left w).
Proof.
  destruct y1 as [n g1], y2 as [n2 g2]. cbn [vlen]. intros L. subst n2.
  unfold edge_side, rel3. change (vlen (vlin a b (mkvec n g1) (mkvec n g2))) with n. cbn [vlen].
  destruct (w =? 1); [repeat split; intros; cbn [vfull vget vlin]; reflexivity|].
  set (x := arange (n + 2 * p)).
  set (xs := if left then vslice (vslice x (Some p) (Some (- p))) None (Some w)
             else vslice (vslice x (Some p) (Some (- p))) (Some (- w)) None).
  set (ts := if left then vslice x None (Some p) else vslice x (Some (- p)) None).
  set (s1 := if left then vslice (mkvec n g1) None (Some w) else vslice (mkvec n g1) (Some (- w)) None).
  set (s2 := if left then vslice (mkvec n g2) None (Some w) else vslice (mkvec n g2) (Some (- w)) None).
  assert (E : (if left then vslice (vlin a b (mkvec n g1) (mkvec n g2)) None (Some w)
               else vslice (vlin a b (mkvec n g1) (mkvec n g2)) (Some (- w)) None) = vlin a b s1 s2).
  { unfold s1, s2. destruct left; reflexivity. }
  rewrite E.
  assert (Ls : vlen s1 = vlen s2) by (unfold s1, s2; destruct left; reflexivity).
  pose proof (fit_line_linear xs s1 s2 a b Ls) as F.
  destruct (fit_line xs s1) as [l1|e1], (fit_line xs s2) as [l2|e2], (fit_line xs (vlin a b s1 s2)) as [l|e];
    try contradiction; [|exact F].
  unfold assign_all; cbn [vlen vmap].
  destruct (vlen ts =? p); [repeat split; intros i; cbn [vget]; apply F|].
  destruct (vlen ts =? 1); [repeat split; intros i; cbn [vfull vget]; apply F|split; reflexivity].
Qed.

Theorem pad_extrapolate_linear y1 y2 p ew a b : vlen y1 = vlen y2 ->
  rel3 a b (pad_edges y1 p (Extrapolate ew)) (pad_edges y2 p (Extrapolate ew))
           (pad_edges (vlin a b y1 y2) p (Extrapolate ew)).
Proof.
  intros L. unfold pad_edges, get_edges.
  destruct (p =? 0); [cbn [rel3 vlin vlen vget]; split; [reflexivity|split; [exact L|intros; reflexivity]]|].
  destruct (p <? 0); [split; reflexivity|].
  destruct (resolve_windows _) as [[wl wr]|]; [|split; reflexivity].
  destruct ((wl <=? 0) || (wr <=? 0)); [split; reflexivity|].
  pose proof (edge_side_linear y1 y2 p true wl a b L) as HL.
  pose proof (edge_side_linear y1 y2 p false wr a b L) as HR.
  unfold rel3 in HL, HR.
  destruct (edge_side y1 p true wl) as [l1|], (edge_side y2 p true wl) as [l2|],
           (edge_side (vlin a b y1 y2) p true wl) as [l|]; try contradiction;
  destruct (edge_side y1 p false wr) as [r1|], (edge_side y2 p false wr) as [r2|],
           (edge_side (vlin a b y1 y2) p false wr) as [r|]; try contradiction;
  cbn [rel3]; try assumption.
  destruct HL as (Ll1 & Ll2 & Hl), HR as (Lr1 & Lr2 & Hr).
  unfold vcat3; cbn [vlen vget vlin]. repeat split; try lia.
  intros i. rewrite <- Ll1, <- Ll2, <- L. destruct (i <? vlen l); [apply Hl|].
  destruct (i <? vlen l + vlen y1); [reflexivity|]. apply Hr.
Qed.

Theorem convolve_extrapolate_linear y1 y2 k ew a b : vlen y1 = vlen y2 ->
  rel3 a b (padded_convolve y1 k (Extrapolate ew)) (padded_convolve y2 k (Extrapolate ew))
           (padded_convolve (vlin a b y1 y2) k (Extrapolate ew)).
Proof.
  intros L. unfold padded_convolve. change (vlen (vlin a b y1 y2)) with (vlen y1). rewrite <- L.
  set (p := conv_padding (vlen y1) (vlen k)).
  pose proof (pad_extrapolate_linear y1 y2 p ew a b L) as H. unfold rel3 in H.
  destruct (pad_edges y1 p (Extrapolate ew)) as [u1|], (pad_edges y2 p (Extrapolate ew)) as [u2|],
           (pad_edges (vlin a b y1 y2) p (Extrapolate ew)) as [u|]; try contradiction; [|exact H].
  destruct H as (L1 & L2 & Hv). unfold rel3, vslice, conv_same; cbn [vlen vget].
  rewrite L1. repeat split; [rewrite <- L2, L1; reflexivity|].
  intros i. rewrite <- L1 at 1. rewrite <- L2 at 1. rewrite L1. 
  apply conv_full_lin; auto; congruence.
Qed.

Example convolve_extrapolate_linear_nonvacuous :
  let y1 := of_zlist [1; 4; 9; 16; 25; 36] in let y2 := of_zlist [2; 0; -1; 3; 7; 1] in
  let k := of_zlist [1; 2; 1] in
  match padded_convolve y1 k (Extrapolate (Some [3])), padded_convolve y2 k (Extrapolate (Some [3])),
        padded_convolve (vlin 3 (-2) y1 y2) k (Extrapolate (Some [3])) with
  | Ok o1, Ok o2, Ok o => vlen o = 6 /\ (vget o 0 == 3 * vget o1 0 - 2 * vget o2 0)%Q /\ ~ (vget o 0 == 0)%Q
  | _, _, _ => False
  end.
Proof. vm_compute. repeat split; discriminate. Qed.
