(* C18 -- proofs about _extrapolate2d: the nine blocks tile the output, shape and interior,
   exact continuation of a plane. *)
From Coq Require Import ZArith QArith Qabs List Bool Lia ZifyBool Lqa Setoid Morphisms.
From PB Require Import lib.PySlice C18.Model C18.SumQ C18.PadProofs C18.Model2D.
Import ListNotations.
Open Scope Z_scope.

(* ------------------------------------------------------------------ the three slices of one axis *)
Section Axis.
  Variables (R a i : Z).
  Hypothesis HR : 0 <= R.
  Hypothesis Ha : 1 <= a.
  Let n := R + 2 * a.

  Lemma sel_lo : sel n (lo a) i = (0 <=? i) && (i <? a).
  Proof. subst n. unfold sel, lo, sl_start, sl_stop, clamp. destruct (a <? 0) eqn:?; lia. Qed.
  Lemma sel_mid : sel n (mid a) i = (a <=? i) && (i <? a + R).
  Proof. subst n. unfold sel, mid, sl_start, sl_stop, clamp.
    destruct (a <? 0) eqn:?, (- a <? 0) eqn:?; lia. Qed.
  Lemma sel_hi : sel n (hi a) i = (a + R <=? i) && (i <? n).
  Proof. subst n. unfold sel, hi, sl_start, sl_stop, clamp. destruct (- a <? 0) eqn:?; lia. Qed.

  Lemma start_lo : spec_start n (lo a) = 0. Proof. reflexivity. Qed.
  Lemma start_mid : spec_start n (mid a) = a.
  Proof. subst n. unfold spec_start, mid, sl_start, clamp. destruct (a <? 0) eqn:?; lia. Qed.
  Lemma start_hi : spec_start n (hi a) = a + R.
  Proof. subst n. unfold spec_start, hi, sl_start, clamp. destruct (- a <? 0) eqn:?; lia. Qed.
  Lemma len_lo : spec_len n (lo a) = a.
  Proof. subst n. unfold spec_len, lo, sl_len, sl_start, sl_stop, clamp. destruct (a <? 0) eqn:?; lia. Qed.
  Lemma len_mid' : spec_len n (mid a) = R.
  Proof. subst n. unfold spec_len, mid, sl_len, sl_start, sl_stop, clamp.
    destruct (a <? 0) eqn:?, (- a <? 0) eqn:?; lia. Qed.
  Lemma len_hi : spec_len n (hi a) = a.
  Proof. subst n. unfold spec_len, hi, sl_len, sl_start, sl_stop, clamp. destruct (- a <? 0) eqn:?; lia. Qed.
End Axis.

Ltac cmp_cases :=
  repeat match goal with
         | |- context [?x <? ?y] => destruct (x <? y) eqn:?; try lia
         | |- context [?x <=? ?y] => destruct (x <=? y) eqn:?; try lia
         end.

(* C18_2d_blocks *)
Theorem nine_blocks_tile R C a b i j :
  1 <= R -> 1 <= C -> 1 <= a -> 1 <= b -> 0 <= i < R + 2 * a -> 0 <= j < C + 2 * b ->
  count_true (map (fun blk => in_block (R + 2 * a) (C + 2 * b) blk i j) (nine_blocks a b)) = 1%nat.
Proof.
  intros HR HC Ha Hb Hi Hj. unfold nine_blocks, in_block, blkC, blkT, blkB, blkL, blkR, blkTL, blkTR, blkBL, blkBR.
  cbn [map b_rows b_cols].
  rewrite !sel_lo, !sel_mid, !sel_hi by lia.
  cmp_cases; reflexivity.
Qed.

(* ------------------------------------------------------------------ the assignment chain *)
Definition assign_raw (o : omat) (blk : block) (v : mat) : omat :=
  mkomat (orows o) (ocols o)
    (fun i j => if in_block (orows o) (ocols o) blk i j
                then Some (yget v (i - spec_start (orows o) (b_rows blk)) (j - spec_start (ocols o) (b_cols blk)))
                else mget o i j).

Lemma assign_ok o blk v :
  spec_len (orows o) (b_rows blk) = mrows v -> spec_len (ocols o) (b_cols blk) = mcols v ->
  assign o blk v = Ok (assign_raw o blk v).
Proof. intros H1 H2. unfold assign. rewrite H1, H2, !Z.eqb_refl. reflexivity. Qed.

Definition windows_ok (w : Z * Z * Z * Z) : Prop :=
  let '(wt, wb, wl, wr) := w in 1 <= wt /\ 1 <= wb /\ 1 <= wl /\ 1 <= wr.
Definition windows_ge2 (w : Z * Z * Z * Z) : Prop :=
  let '(wt, wb, wl, wr) := w in 2 <= wt /\ 2 <= wb /\ 2 <= wl /\ 2 <= wr.
Definition plane_on (y : mat) (c0 cr cc : Q) : Prop :=
  forall i j, 0 <= i < mrows y -> 0 <= j < mcols y ->
    (yget y i j == c0 + cr * inject_Z i + cc * inject_Z j)%Q.

Section Chain.
  Variables (y : mat) (a b wt wb wl wr : Z).
  Hypothesis HR : 1 <= mrows y.
  Hypothesis HC : 1 <= mcols y.
  Hypothesis Ha : 1 <= a.
  Hypothesis Hb : 1 <= b.
  Local Notation R := (mrows y).
  Local Notation C := (mcols y).
  Local Notation NR := (mrows y + 2 * a).
  Local Notation NC := (mcols y + 2 * b).

  Definition o0 := mkomat (mrows y + 2 * a) (mcols y + 2 * b) (fun _ _ => None).
  Definition topS := ext_rows a wt true y.
  Definition botS := ext_rows a wb false y.
  Definition lefS := ext_cols b wl true y.
  Definition rigS := ext_cols b wr false y.
  Definition o1 := assign_raw o0 (blkC a b) y.
  Definition o2 := assign_raw o1 (blkT a b) topS.
  Definition o3 := assign_raw o2 (blkB a b) botS.
  Definition o4 := assign_raw o3 (blkL a b) lefS.
  Definition o5 := assign_raw o4 (blkR a b) rigS.
  Definition topR := read o5 (blkT a b).
  Definition botR := read o5 (blkB a b).
  Definition lefR := read o5 (blkL a b).
  Definition rigR := read o5 (blkR a b).
  Definition cTL := mavg (ext_cols b wl true topR) (ext_rows a wt true lefR).
  Definition cTR := mavg (ext_cols b wr false topR) (ext_rows a wt true rigR).
  Definition cBL := mavg (ext_cols b wl true botR) (ext_rows a wb false lefR).
  Definition cBR := mavg (ext_cols b wr false botR) (ext_rows a wb false rigR).
  Definition o6 := assign_raw o5 (blkTL a b) cTL.
  Definition o7 := assign_raw o6 (blkTR a b) cTR.
  Definition o8 := assign_raw o7 (blkBL a b) cBL.
  Definition o9 := assign_raw o8 (blkBR a b) cBR.

  Ltac shapes := cbn [orows ocols assign_raw o0 o1 o2 o3 o4 o5 o6 o7 o8 o9 b_rows b_cols
                      blkC blkT blkB blkL blkR blkTL blkTR blkBL blkBR].

  Lemma chain_ok ew :
    windows2d ew a b = Some (wt, wb, wl, wr) -> windows_ok (wt, wb, wl, wr) ->
    extrapolate2d y a b ew = Ok o9.
  Proof.
    intros Hw (H1 & H2 & H3 & H4). unfold extrapolate2d.
    destruct (a =? 0) eqn:?; [lia|]. destruct (b =? 0) eqn:?; [lia|]. cbn [orb].
    destruct (a <? 0) eqn:?; [lia|]. destruct (b <? 0) eqn:?; [lia|]. cbn [orb].
    rewrite Hw.
    destruct (wt <=? 0) eqn:?; [lia|]. destruct (wb <=? 0) eqn:?; [lia|].
    destruct (wl <=? 0) eqn:?; [lia|]. destruct (wr <=? 0) eqn:?; [lia|]. cbn [orb].
    fold o0.
    rewrite (assign_ok o0 (blkC a b) y)
      by (unfold o0; shapes; rewrite len_mid' by lia; reflexivity).
    cbn [bind]. fold o1.
    rewrite (assign_ok o1 (blkT a b) (ext_rows a wt true y))
      by (unfold o1, o0; shapes; first [rewrite len_lo by lia|rewrite len_mid' by lia]; reflexivity).
    cbn [bind]. fold topS. fold o2.
    rewrite (assign_ok o2 (blkB a b) (ext_rows a wb false y))
      by (unfold o2, o1, o0; shapes; first [rewrite len_hi by lia|rewrite len_mid' by lia]; reflexivity).
    cbn [bind]. fold botS. fold o3.
    rewrite (assign_ok o3 (blkL a b) (ext_cols b wl true y))
      by (unfold o3, o2, o1, o0; shapes; first [rewrite len_lo by lia|rewrite len_mid' by lia]; reflexivity).
    cbn [bind]. fold lefS. fold o4.
    rewrite (assign_ok o4 (blkR a b) (ext_cols b wr false y))
      by (unfold o4, o3, o2, o1, o0; shapes; first [rewrite len_hi by lia|rewrite len_mid' by lia]; reflexivity).
    cbn [bind]. fold rigS. fold o5. fold topR botR lefR rigR. fold cTL cTR cBL cBR.
    rewrite (assign_ok o5 (blkTL a b) cTL)
      by (unfold cTL, topR, lefR, o5, o4, o3, o2, o1, o0; shapes; cbn [mavg ext_cols ext_rows read mrows mcols];
          shapes; rewrite ?len_lo, ?len_mid', ?len_hi by lia; reflexivity).
    cbn [bind]. fold o6.
    rewrite (assign_ok o6 (blkTR a b) cTR)
      by (unfold cTR, topR, rigR, o6, o5, o4, o3, o2, o1, o0; shapes; cbn [mavg ext_cols ext_rows read mrows mcols];
          shapes; rewrite ?len_lo, ?len_mid', ?len_hi by lia; reflexivity).
    cbn [bind]. fold o7.
    rewrite (assign_ok o7 (blkBL a b) cBL)
      by (unfold cBL, botR, lefR, o7, o6, o5, o4, o3, o2, o1, o0; shapes; cbn [mavg ext_cols ext_rows read mrows mcols];
          shapes; rewrite ?len_lo, ?len_mid', ?len_hi by lia; reflexivity).
    cbn [bind]. fold o8.
    rewrite (assign_ok o8 (blkBR a b) cBR)
      by (unfold cBR, botR, rigR, o8, o7, o6, o5, o4, o3, o2, o1, o0; shapes; cbn [mavg ext_cols ext_rows read mrows mcols];
          shapes; rewrite ?len_lo, ?len_mid', ?len_hi by lia; reflexivity).
    reflexivity.
  Qed.

  (* membership of a cell in the nine blocks, normalised *)
  Ltac open_cells :=
    unfold o9, o8, o7, o6, o5, o4, o3, o2, o1, o0; cbn [mget assign_raw orows ocols];
    unfold in_block, blkC, blkT, blkB, blkL, blkR, blkTL, blkTR, blkBL, blkBR; cbn [b_rows b_cols];
    rewrite ?sel_lo, ?sel_mid, ?sel_hi by lia;
    rewrite ?start_lo, ?start_mid, ?start_hi by lia.

  (* the first five assignments: what the strips read back *)
  Lemma o5_top i k : 0 <= i < a -> 0 <= k < C -> mget o5 i (b + k) = Some (yget topS i k).
  Proof. intros Hi Hk. unfold o5, o4, o3, o2, o1, o0; cbn [mget assign_raw orows ocols].
    unfold in_block, blkC, blkT, blkB, blkL, blkR; cbn [b_rows b_cols].
    rewrite ?sel_lo, ?sel_mid, ?sel_hi by lia. rewrite ?start_lo, ?start_mid, ?start_hi by lia.
    cmp_cases; cbn [andb]. do 2 f_equal; lia. Qed.
  Lemma o5_bot i k : 0 <= i < a -> 0 <= k < C -> mget o5 (a + R + i) (b + k) = Some (yget botS i k).
  Proof. intros Hi Hk. unfold o5, o4, o3, o2, o1, o0; cbn [mget assign_raw orows ocols].
    unfold in_block, blkC, blkT, blkB, blkL, blkR; cbn [b_rows b_cols].
    rewrite ?sel_lo, ?sel_mid, ?sel_hi by lia. rewrite ?start_lo, ?start_mid, ?start_hi by lia.
    cmp_cases; cbn [andb]. do 2 f_equal; lia. Qed.
  Lemma o5_lef i k : 0 <= i < R -> 0 <= k < b -> mget o5 (a + i) k = Some (yget lefS i k).
  Proof. intros Hi Hk. unfold o5, o4, o3, o2, o1, o0; cbn [mget assign_raw orows ocols].
    unfold in_block, blkC, blkT, blkB, blkL, blkR; cbn [b_rows b_cols].
    rewrite ?sel_lo, ?sel_mid, ?sel_hi by lia. rewrite ?start_lo, ?start_mid, ?start_hi by lia.
    cmp_cases; cbn [andb]. do 2 f_equal; lia. Qed.
  Lemma o5_rig i k : 0 <= i < R -> 0 <= k < b -> mget o5 (a + i) (b + C + k) = Some (yget rigS i k).
  Proof. intros Hi Hk. unfold o5, o4, o3, o2, o1, o0; cbn [mget assign_raw orows ocols].
    unfold in_block, blkC, blkT, blkB, blkL, blkR; cbn [b_rows b_cols].
    rewrite ?sel_lo, ?sel_mid, ?sel_hi by lia. rewrite ?start_lo, ?start_mid, ?start_hi by lia.
    cmp_cases; cbn [andb]. do 2 f_equal; lia. Qed.

  (* the final buffer, region by region *)
  Definition region_value (i j : Z) : Q :=
    if i <? a then
      (if j <? b then yget cTL i j else if j <? b + C then yget topS i (j - b) else yget cTR i (j - (b + C)))
    else if i <? a + R then
      (if j <? b then yget lefS (i - a) j else if j <? b + C then yget y (i - a) (j - b)
       else yget rigS (i - a) (j - (b + C)))
    else
      (if j <? b then yget cBL (i - (a + R)) j else if j <? b + C then yget botS (i - (a + R)) (j - b)
       else yget cBR (i - (a + R)) (j - (b + C))).

  Lemma o9_cells i j : 0 <= i < NR -> 0 <= j < NC -> mget o9 i j = Some (region_value i j).
  Proof.
    intros Hi Hj. unfold region_value. open_cells.
    cmp_cases; cbn [andb]; rewrite ?Z.sub_0_r; reflexivity.
  Qed.
End Chain.

(* C18_2d_len_interior *)
Theorem extrapolate2d_len_interior (y : mat) (a b : Z) (ew : option (list Z)) (w : Z * Z * Z * Z) :
  1 <= mrows y -> 1 <= mcols y -> 1 <= a -> 1 <= b ->
  windows2d ew a b = Some w -> windows_ok w ->
  exists out, extrapolate2d y a b ew = Ok out /\
    orows out = mrows y + 2 * a /\ ocols out = mcols y + 2 * b /\
    (forall i j, 0 <= i < orows out -> 0 <= j < ocols out -> mget out i j <> None) /\
    (forall i j, 0 <= i < mrows y -> 0 <= j < mcols y -> mget out (a + i) (b + j) = Some (yget y i j)).
Proof.
  intros HR HC Ha Hb Hw Hok. destruct w as [[[wt wb] wl] wr].
  exists (o9 y a b wt wb wl wr). split; [apply chain_ok; assumption|].
  split; [reflexivity|]. split; [reflexivity|]. split.
  - intros i j Hi Hj. cbn [orows ocols o9 assign_raw] in Hi, Hj.
    rewrite o9_cells by (try assumption; lia). discriminate.
  - intros i j Hi Hj. rewrite o9_cells by (try assumption; lia). unfold region_value.
    destruct (a + i <? a) eqn:?; [lia|]. destruct (a + i <? a + mrows y) eqn:?; [|lia].
    destruct (b + j <? b) eqn:?; [lia|]. destruct (b + j <? b + mcols y) eqn:?; [|lia].
    do 2 f_equal; lia.
Qed.

(* ------------------------------------------------------------------ plane data *)
Lemma pinv_fit_linear s m ys t al be :
  1 <= m -> (2 <= m \/ (be == 0)%Q) ->
  (forall k, 0 <= k < m -> (ys k == al + be * inject_Z (s + k))%Q) ->
  (pinv_fit s m ys t == al + be * inject_Z t)%Q.
Proof.
  intros Hm1 Hm Hy. unfold pinv_fit. destruct (m =? 1) eqn:E1.
  - destruct Hm as [?|Hb]; [lia|]. rewrite (Hy 0) by lia. rewrite Hb. ring.
  - assert (2 <= m) by lia.
    destruct (fit_linear (mkvec m (fun k => inject_Z (s + k))) (mkvec m ys) al be (inject_Z s))
      as (l & El & Hl); cbn [vlen vget]; try lia.
    + intros k Hk. rewrite inject_Z_plus. reflexivity.
    + intros k Hk. apply Hy. exact Hk.
    + rewrite El. apply Hl.
Qed.

Lemma pinv_fit_one s ys t : pinv_fit s 1 ys t = ys 0.
Proof. reflexivity. Qed.

Section Plane.
  Variables (y : mat) (a b wt wb wl wr : Z) (c0 cr cc : Q).
  Hypothesis HR : 1 <= mrows y.
  Hypothesis HC : 1 <= mcols y.
  Hypothesis Ha : 1 <= a.
  Hypothesis Hb : 1 <= b.
  Hypothesis Hwt : 1 <= wt.
  Hypothesis Hwb : 1 <= wb.
  Hypothesis Hwl : 1 <= wl.
  Hypothesis Hwr : 1 <= wr.
  (* along each axis: at least two points are fitted on both sides, or the plane is flat there *)
  Hypothesis Hrows : (2 <= wt /\ 2 <= wb /\ 2 <= mrows y) \/ (cr == 0)%Q.
  Hypothesis Hcols : (2 <= wl /\ 2 <= wr /\ 2 <= mcols y) \/ (cc == 0)%Q.
  Hypothesis Hy : plane_on y c0 cr cc.
  Local Notation R := (mrows y).
  Local Notation C := (mcols y).
  (* the plane in output coordinates *)
  Let P (i j : Z) : Q := (c0 + cr * inject_Z (i - a) + cc * inject_Z (j - b))%Q.

  Ltac inj := unfold Z.sub; rewrite ?inject_Z_plus, ?inject_Z_opp; ring.

  Lemma top_plane i k : 0 <= i < a -> 0 <= k < C -> (yget (topS y a wt) i k == P i (b + k))%Q.
  Proof. intros Hi Hk. unfold topS, ext_rows; cbn [yget].
    etransitivity; [apply (pinv_fit_linear _ _ _ _ (c0 + cc * inject_Z k - cr * inject_Z a) cr); [lia|destruct Hrows as [?|?]; [left; lia|right; assumption]|intros q Hq; rewrite (Hy q k) by lia; inj]|].
      subst P. cbv beta. inj. Qed.
  Lemma bot_plane i k : 0 <= i < a -> 0 <= k < C -> (yget (botS y a wb) i k == P (a + R + i) (b + k))%Q.
  Proof. intros Hi Hk. unfold botS, ext_rows; cbn [yget].
    etransitivity; [apply (pinv_fit_linear _ _ _ _ (c0 + cc * inject_Z k - cr * inject_Z a) cr); [lia|destruct Hrows as [?|?]; [left; lia|right; assumption]|intros q Hq; rewrite (Hy (R - Z.min wb R + q) k) by lia;
                    inj]|].
      subst P. cbv beta. inj. Qed.
  Lemma lef_plane i k : 0 <= i < R -> 0 <= k < b -> (yget (lefS y b wl) i k == P (a + i) k)%Q.
  Proof. intros Hi Hk. unfold lefS, ext_cols; cbn [yget].
    etransitivity; [apply (pinv_fit_linear _ _ _ _ (c0 + cr * inject_Z i - cc * inject_Z b) cc); [lia|destruct Hcols as [?|?]; [left; lia|right; assumption]|intros q Hq; rewrite (Hy i q) by lia; inj]|].
      subst P. cbv beta. inj. Qed.
  Lemma rig_plane i k : 0 <= i < R -> 0 <= k < b -> (yget (rigS y b wr) i k == P (a + i) (b + C + k))%Q.
  Proof. intros Hi Hk. unfold rigS, ext_cols; cbn [yget].
    etransitivity; [apply (pinv_fit_linear _ _ _ _ (c0 + cr * inject_Z i - cc * inject_Z b) cc); [lia|destruct Hcols as [?|?]; [left; lia|right; assumption]|intros q Hq; rewrite (Hy i (C - Z.min wr C + q)) by lia;
                    inj]|].
      subst P. cbv beta. inj. Qed.

  (* the strips as read back from the buffer *)
  Lemma topR_plane i k : 0 <= i < a -> 0 <= k < C ->
    (yget (topR y a b wt wb wl wr) i k == P i (b + k))%Q.
  Proof. intros Hi Hk. unfold topR, read, blkT; cbn [yget b_rows b_cols].
    cbn [orows ocols o5 o4 o3 o2 o1 o0 assign_raw]. rewrite start_lo, start_mid by lia.
    replace (0 + i) with i by lia.
    rewrite (o5_top y a b wt wb wl wr) by (try assumption; lia). apply top_plane; assumption. Qed.
  Lemma botR_plane i k : 0 <= i < a -> 0 <= k < C ->
    (yget (botR y a b wt wb wl wr) i k == P (a + R + i) (b + k))%Q.
  Proof. intros Hi Hk. unfold botR, read, blkB; cbn [yget b_rows b_cols].
    cbn [orows ocols o5 o4 o3 o2 o1 o0 assign_raw]. rewrite start_hi, start_mid by lia.
    rewrite (o5_bot y a b wt wb wl wr) by (try assumption; lia). apply bot_plane; assumption. Qed.
  Lemma lefR_plane i k : 0 <= i < R -> 0 <= k < b ->
    (yget (lefR y a b wt wb wl wr) i k == P (a + i) k)%Q.
  Proof. intros Hi Hk. unfold lefR, read, blkL; cbn [yget b_rows b_cols].
    cbn [orows ocols o5 o4 o3 o2 o1 o0 assign_raw]. rewrite start_lo, start_mid by lia.
    replace (0 + k) with k by lia.
    rewrite (o5_lef y a b wt wb wl wr) by (try assumption; lia). apply lef_plane; assumption. Qed.
  Lemma rigR_plane i k : 0 <= i < R -> 0 <= k < b ->
    (yget (rigR y a b wt wb wl wr) i k == P (a + i) (b + C + k))%Q.
  Proof. intros Hi Hk. unfold rigR, read, blkR; cbn [yget b_rows b_cols].
    cbn [orows ocols o5 o4 o3 o2 o1 o0 assign_raw]. rewrite start_hi, start_mid by lia.
    rewrite (o5_rig y a b wt wb wl wr) by (try assumption; lia). apply rig_plane; assumption. Qed.

  (* shapes of the strips read back *)
  Lemma topR_shape : mrows (topR y a b wt wb wl wr) = a /\ mcols (topR y a b wt wb wl wr) = C.
  Proof. unfold topR, read, blkT; cbn [mrows mcols b_rows b_cols orows ocols o5 o4 o3 o2 o1 o0 assign_raw].
    rewrite len_lo, len_mid' by lia. split; reflexivity. Qed.
  Lemma botR_shape : mrows (botR y a b wt wb wl wr) = a /\ mcols (botR y a b wt wb wl wr) = C.
  Proof. unfold botR, read, blkB; cbn [mrows mcols b_rows b_cols orows ocols o5 o4 o3 o2 o1 o0 assign_raw].
    rewrite len_hi, len_mid' by lia. split; reflexivity. Qed.
  Lemma lefR_shape : mrows (lefR y a b wt wb wl wr) = R /\ mcols (lefR y a b wt wb wl wr) = b.
  Proof. unfold lefR, read, blkL; cbn [mrows mcols b_rows b_cols orows ocols o5 o4 o3 o2 o1 o0 assign_raw].
    rewrite len_lo, len_mid' by lia. split; reflexivity. Qed.
  Lemma rigR_shape : mrows (rigR y a b wt wb wl wr) = R /\ mcols (rigR y a b wt wb wl wr) = b.
  Proof. unfold rigR, read, blkR; cbn [mrows mcols b_rows b_cols orows ocols o5 o4 o3 o2 o1 o0 assign_raw].
    rewrite len_hi, len_mid' by lia. split; reflexivity. Qed.

  (* generic: extending a strip that lies on the plane stays on the plane *)
  Lemma ext_cols_plane (src : mat) (w : Z) (first : bool) (r0 : Z) i k :
    1 <= w -> (2 <= w /\ 2 <= C) \/ (cc == 0)%Q -> mcols src = C ->
    (forall q, 0 <= q < C -> (yget src i q == P r0 (b + q))%Q) ->
    (yget (ext_cols b w first src) i k == P r0 (if first then k else b + C + k))%Q.
  Proof.
    intros Hw Hside Hc Hs. unfold ext_cols; cbn [yget]. rewrite Hc. destruct first.
    - etransitivity; [apply (pinv_fit_linear _ _ _ _ (c0 + cr * inject_Z (r0 - a) - cc * inject_Z b) cc); [lia|destruct Hside as [?|?]; [left; lia|right; assumption]|intros q Hq; rewrite (Hs q) by lia; subst P; cbv beta; inj]|].
      subst P. cbv beta. inj.
    - etransitivity; [apply (pinv_fit_linear _ _ _ _ (c0 + cr * inject_Z (r0 - a) - cc * inject_Z b) cc); [lia|destruct Hside as [?|?]; [left; lia|right; assumption]|intros q Hq; rewrite (Hs (C - Z.min w C + q)) by lia; subst P; cbv beta; inj]|].
      subst P. cbv beta. inj.
  Qed.
  Lemma ext_rows_plane (src : mat) (w : Z) (first : bool) (c1 : Z) i k :
    1 <= w -> (2 <= w /\ 2 <= R) \/ (cr == 0)%Q -> mrows src = R ->
    (forall q, 0 <= q < R -> (yget src q k == P (a + q) c1)%Q) ->
    (yget (ext_rows a w first src) i k == P (if first then i else a + R + i) c1)%Q.
  Proof.
    intros Hw Hside Hc Hs. unfold ext_rows; cbn [yget]. rewrite Hc. destruct first.
    - etransitivity; [apply (pinv_fit_linear _ _ _ _ (c0 + cc * inject_Z (c1 - b) - cr * inject_Z a) cr); [lia|destruct Hside as [?|?]; [left; lia|right; assumption]|intros q Hq; rewrite (Hs q) by lia; subst P; cbv beta; inj]|].
      subst P. cbv beta. inj.
    - etransitivity; [apply (pinv_fit_linear _ _ _ _ (c0 + cc * inject_Z (c1 - b) - cr * inject_Z a) cr); [lia|destruct Hside as [?|?]; [left; lia|right; assumption]|intros q Hq; rewrite (Hs (R - Z.min w R + q)) by lia; subst P; cbv beta; inj]|].
      subst P. cbv beta. inj.
  Qed.

  Lemma region_plane i j : 0 <= i < R + 2 * a -> 0 <= j < C + 2 * b ->
    (region_value y a b wt wb wl wr i j == P i j)%Q.
  Proof.
    intros Hi Hj. unfold region_value.
    destruct topR_shape as [T1 T2], botR_shape as [B1 B2], lefR_shape as [L1 L2], rigR_shape as [G1 G2].
    destruct (i <? a) eqn:?; [|destruct (i <? a + R) eqn:?]; (destruct (j <? b) eqn:?; [|destruct (j <? b + C) eqn:?]).
    - unfold cTL, mavg; cbn [yget].
      assert (EA : (yget (ext_cols b wl true (topR y a b wt wb wl wr)) i j == P i j)%Q).
      { apply (ext_cols_plane (topR y a b wt wb wl wr) wl true i i j); [lia|destruct Hcols as [?|?]; [left; lia|right; assumption]|exact T2|].
        intros; apply topR_plane; lia. }
      assert (EB : (yget (ext_rows a wt true (lefR y a b wt wb wl wr)) i j == P i j)%Q).
      { apply (ext_rows_plane (lefR y a b wt wb wl wr) wt true j i j); [lia|destruct Hrows as [?|?]; [left; lia|right; assumption]|exact L1|].
        intros; apply lefR_plane; lia. }
      rewrite EA, EB. ring.
    - rewrite top_plane by lia. replace (b + (j - b)) with j by lia. reflexivity.
    - unfold cTR, mavg; cbn [yget].
      assert (EA : (yget (ext_cols b wr false (topR y a b wt wb wl wr)) i (j - (b + C)) == P i j)%Q).
      { etransitivity; [apply (ext_cols_plane (topR y a b wt wb wl wr) wr false i i (j - (b + C))); [lia|destruct Hcols as [?|?]; [left; lia|right; assumption]|exact T2|];
          intros; apply topR_plane; lia|].
        cbv iota. replace (b + C + (j - (b + C))) with j by lia. reflexivity. }
      assert (EB : (yget (ext_rows a wt true (rigR y a b wt wb wl wr)) i (j - (b + C)) == P i j)%Q).
      { apply (ext_rows_plane (rigR y a b wt wb wl wr) wt true j i (j - (b + C))); [lia|destruct Hrows as [?|?]; [left; lia|right; assumption]|exact G1|].
        intros q Hq. rewrite rigR_plane by lia. replace (b + C + (j - (b + C))) with j by lia. reflexivity. }
      rewrite EA, EB. ring.
    - rewrite lef_plane by lia. replace (a + (i - a)) with i by lia. reflexivity.
    - rewrite (Hy (i - a) (j - b)) by lia. subst P. cbv beta. reflexivity.
    - rewrite rig_plane by lia. replace (a + (i - a)) with i by lia.
      replace (b + C + (j - (b + C))) with j by lia. reflexivity.
    - unfold cBL, mavg; cbn [yget].
      assert (EA : (yget (ext_cols b wl true (botR y a b wt wb wl wr)) (i - (a + R)) j == P i j)%Q).
      { apply (ext_cols_plane (botR y a b wt wb wl wr) wl true i (i - (a + R)) j); [lia|destruct Hcols as [?|?]; [left; lia|right; assumption]|exact B2|].
        intros q Hq. rewrite botR_plane by lia. replace (a + R + (i - (a + R))) with i by lia. reflexivity. }
      assert (EB : (yget (ext_rows a wb false (lefR y a b wt wb wl wr)) (i - (a + R)) j == P i j)%Q).
      { etransitivity; [apply (ext_rows_plane (lefR y a b wt wb wl wr) wb false j (i - (a + R)) j); [lia|destruct Hrows as [?|?]; [left; lia|right; assumption]|exact L1|];
          intros; apply lefR_plane; lia|].
        cbv iota. replace (a + R + (i - (a + R))) with i by lia. reflexivity. }
      rewrite EA, EB. ring.
    - rewrite bot_plane by lia. replace (a + R + (i - (a + R))) with i by lia.
      replace (b + (j - b)) with j by lia. reflexivity.
    - unfold cBR, mavg; cbn [yget].
      assert (EA : (yget (ext_cols b wr false (botR y a b wt wb wl wr)) (i - (a + R)) (j - (b + C)) == P i j)%Q).
      { etransitivity; [apply (ext_cols_plane (botR y a b wt wb wl wr) wr false i (i - (a + R)) (j - (b + C))); [lia|destruct Hcols as [?|?]; [left; lia|right; assumption]|exact B2|];
          intros q Hq; rewrite botR_plane by lia; replace (a + R + (i - (a + R))) with i by lia; reflexivity|].
        cbv iota. replace (b + C + (j - (b + C))) with j by lia. reflexivity. }
      assert (EB : (yget (ext_rows a wb false (rigR y a b wt wb wl wr)) (i - (a + R)) (j - (b + C)) == P i j)%Q).
      { etransitivity; [apply (ext_rows_plane (rigR y a b wt wb wl wr) wb false j (i - (a + R)) (j - (b + C))); [lia|destruct Hrows as [?|?]; [left; lia|right; assumption]|exact G1|];
          intros q Hq; rewrite rigR_plane by lia; replace (b + C + (j - (b + C))) with j by lia; reflexivity|].
        cbv iota. replace (a + R + (i - (a + R))) with i by lia. reflexivity. }
      rewrite EA, EB. ring.
  Qed.
End Plane.

(* C18_2d_plane_exact (general form: along each axis either both windows and the extent are >= 2,
   or the plane is flat along that axis) *)
Definition axes_ok (y : mat) (w : Z * Z * Z * Z) (cr cc : Q) : Prop :=
  let '(wt, wb, wl, wr) := w in
  ((2 <= wt /\ 2 <= wb /\ 2 <= mrows y) \/ (cr == 0)%Q) /\
  ((2 <= wl /\ 2 <= wr /\ 2 <= mcols y) \/ (cc == 0)%Q).

Theorem extrapolate2d_plane_general (y : mat) (a b : Z) (ew : option (list Z)) (w : Z * Z * Z * Z) (c0 cr cc : Q) :
  1 <= mrows y -> 1 <= mcols y -> 1 <= a -> 1 <= b ->
  windows2d ew a b = Some w -> windows_ok w -> axes_ok y w cr cc -> plane_on y c0 cr cc ->
  exists out, extrapolate2d y a b ew = Ok out /\
    forall i j, 0 <= i < mrows y + 2 * a -> 0 <= j < mcols y + 2 * b ->
      exists v, mget out i j = Some v /\ (v == c0 + cr * inject_Z (i - a) + cc * inject_Z (j - b))%Q.
Proof.
  intros HR HC Ha Hb Hw Hok Hax Hy. destruct w as [[[wt wb] wl] wr].
  pose proof Hok as (H1 & H2 & H3 & H4). destruct Hax as [Hrows Hcols].
  exists (o9 y a b wt wb wl wr). split.
  - apply chain_ok; assumption.
  - intros i j Hi Hj. exists (region_value y a b wt wb wl wr i j). split.
    + apply o9_cells; lia.
    + apply (region_plane y a b wt wb wl wr c0 cr cc); assumption.
Qed.

Theorem extrapolate2d_plane_exact (y : mat) (a b : Z) (ew : option (list Z)) (w : Z * Z * Z * Z) (c0 cr cc : Q) :
  2 <= mrows y -> 2 <= mcols y -> 1 <= a -> 1 <= b ->
  windows2d ew a b = Some w -> windows_ge2 w -> plane_on y c0 cr cc ->
  exists out, extrapolate2d y a b ew = Ok out /\
    forall i j, 0 <= i < mrows y + 2 * a -> 0 <= j < mcols y + 2 * b ->
      exists v, mget out i j = Some v /\ (v == c0 + cr * inject_Z (i - a) + cc * inject_Z (j - b))%Q.
Proof.
  intros HR HC Ha Hb Hw Hok Hy. destruct w as [[[wt wb] wl] wr]. destruct Hok as (H1 & H2 & H3 & H4).
  apply (extrapolate2d_plane_general y a b ew (wt, wb, wl, wr) c0 cr cc); try assumption; try lia.
  - cbn. lia.
  - cbn. split; left; lia.
Qed.

(* constant data is continued for EVERY window >= 1 (also windows of 1, also 1-row / 1-column data) *)
Theorem extrapolate2d_const (y : mat) (a b : Z) (ew : option (list Z)) (w : Z * Z * Z * Z) (c : Q) :
  1 <= mrows y -> 1 <= mcols y -> 1 <= a -> 1 <= b ->
  windows2d ew a b = Some w -> windows_ok w ->
  (forall i j, 0 <= i < mrows y -> 0 <= j < mcols y -> (yget y i j == c)%Q) ->
  exists out, extrapolate2d y a b ew = Ok out /\
    forall i j, 0 <= i < mrows y + 2 * a -> 0 <= j < mcols y + 2 * b ->
      exists v, mget out i j = Some v /\ (v == c)%Q.
Proof.
  intros HR HC Ha Hb Hw Hok Hc.
  destruct (extrapolate2d_plane_general y a b ew w c 0 0) as (out & E & H); try assumption.
  - destruct w as [[[wt wb] wl] wr]. cbn. split; right; reflexivity.
  - intros i j Hi Hj. rewrite (Hc i j Hi Hj). ring.
  - exists out. split; [exact E|]. intros i j Hi Hj. destruct (H i j Hi Hj) as (v & E1 & E2).
    exists v. split; [exact E1|]. rewrite E2. ring.
Qed.

(* a window of 1 repeats the edge row / column (as the 1-D code does) *)
Theorem extrapolate2d_window_one (y : mat) (a b : Z) (ew : option (list Z)) (wt wb wl wr : Z) :
  1 <= mrows y -> 1 <= mcols y -> 1 <= a -> 1 <= b ->
  windows2d ew a b = Some (wt, wb, wl, wr) -> windows_ok (wt, wb, wl, wr) ->
  exists out, extrapolate2d y a b ew = Ok out /\
    (wt = 1 -> forall i k, 0 <= i < a -> 0 <= k < mcols y -> mget out i (b + k) = Some (yget y 0 k)) /\
    (wb = 1 -> forall i k, 0 <= i < a -> 0 <= k < mcols y ->
               mget out (a + mrows y + i) (b + k) = Some (yget y (mrows y - 1) k)) /\
    (wl = 1 -> forall i k, 0 <= i < mrows y -> 0 <= k < b -> mget out (a + i) k = Some (yget y i 0)) /\
    (wr = 1 -> forall i k, 0 <= i < mrows y -> 0 <= k < b ->
               mget out (a + i) (b + mcols y + k) = Some (yget y i (mcols y - 1))).
Proof.
  intros HR HC Ha Hb Hw Hok. exists (o9 y a b wt wb wl wr). split; [apply chain_ok; assumption|].
  repeat split; intros -> i k Hi Hk; rewrite o9_cells by (try assumption; lia); unfold region_value.
  - destruct (i <? a) eqn:?; [|lia]. destruct (b + k <? b) eqn:?; [lia|].
    destruct (b + k <? b + mcols y) eqn:?; [|lia]. unfold topS, ext_rows; cbn [yget].
    replace (Z.min 1 (mrows y)) with 1 by lia. rewrite pinv_fit_one. do 2 f_equal. lia.
  - destruct (a + mrows y + i <? a) eqn:?; [lia|]. destruct (a + mrows y + i <? a + mrows y) eqn:?; [lia|].
    destruct (b + k <? b) eqn:?; [lia|]. destruct (b + k <? b + mcols y) eqn:?; [|lia].
    unfold botS, ext_rows; cbn [yget]. replace (Z.min 1 (mrows y)) with 1 by lia. rewrite pinv_fit_one.
    do 2 f_equal; lia.
  - destruct (a + i <? a) eqn:?; [lia|]. destruct (a + i <? a + mrows y) eqn:?; [|lia].
    destruct (k <? b) eqn:?; [|lia]. unfold lefS, ext_cols; cbn [yget].
    replace (Z.min 1 (mcols y)) with 1 by lia. rewrite pinv_fit_one. do 2 f_equal. lia.
  - destruct (a + i <? a) eqn:?; [lia|]. destruct (a + i <? a + mrows y) eqn:?; [|lia].
    destruct (b + mcols y + k <? b) eqn:?; [lia|]. destruct (b + mcols y + k <? b + mcols y) eqn:?; [lia|].
    unfold rigS, ext_cols; cbn [yget]. replace (Z.min 1 (mcols y)) with 1 by lia. rewrite pinv_fit_one.
    do 2 f_equal; lia.
Qed.
