(* C18 -- smoothing with a unit-sum kernel commutes with adding an offset (default mode 'reflect',
   M <= N): corollary of linearity in the data and of the preservation of constants. *)
From Coq Require Import ZArith QArith Qabs List Bool Lia ZifyBool Lqa Setoid Morphisms.
From PB Require Import lib.PySlice C18.Model C18.SumQ C18.PadProofs C18.ConvProofs C18.LinProofs.
Import ListNotations.
Open Scope Z_scope.

(* y + b  as the combination 1*y + b*ones *)
Definition vshift (b : Q) (y : vec) : vec := vlin 1 b y (vfull (vlen y) 1).

Theorem convolve_reflect_offset (y k : vec) (b : Q) :
  1 <= vlen k -> vlen k <= vlen y -> (vsum k == 1)%Q ->
  exists o o', padded_convolve y k (NpMode np_reflect) = Ok o /\
               padded_convolve (vshift b y) k (NpMode np_reflect) = Ok o' /\
               vlen o = vlen y /\ vlen o' = vlen y /\
               forall i, 0 <= i < vlen y -> (vget o' i == vget o i + b)%Q.
Proof.
  intros Hm Hmn Hk.
  destruct (convolve_const_reflect (vfull (vlen y) 1) k 1) as (o2 & E2 & L2 & C2);
    try assumption; [intros i _; reflexivity|].
  cbn [vlen vfull] in L2.
  pose proof (convolve_src_linear src_reflect y (vfull (vlen y) 1) k 1 b eq_refl) as H.
  change (np_src src_reflect) with np_reflect in H. rewrite E2 in H. fold (vshift b y) in H.
  destruct (padded_convolve y k (NpMode np_reflect)) as [o1|]; [|contradiction].
  destruct (padded_convolve (vshift b y) k (NpMode np_reflect)) as [o|]; [|contradiction].
  destruct H as (L1 & L2' & Hv). exists o1, o. repeat split; try reflexivity; try lia.
  intros i Hi. rewrite Hv. rewrite (C2 i) by lia. ring.
Qed.

Example convolve_reflect_offset_nonvacuous :
  let y := of_zlist [1; 4; 9; 16; 25] in let k := of_list [1 # 4; 1 # 2; 1 # 4]%Q in
  (vsum k == 1)%Q /\
  match padded_convolve y k (NpMode np_reflect), padded_convolve (vshift 7 y) k (NpMode np_reflect) with
  | Ok o, Ok o' => (vget o' 1 == vget o 1 + 7)%Q /\ ~ (vget o 1 == vget y 1)%Q
  | _, _ => False
  end.
Proof. vm_compute. repeat split; discriminate. Qed.
