(* C18 -- optimize_window over the whole range of its options (min_half_window <= 0 included):
   bounds for every minimum, the value on flat data, and the counter-model in which the final clamp
   uses the caller's minimum instead of the constant 1. *)
From Coq Require Import ZArith QArith List Bool Lia ZifyBool.
From PB Require Import lib.PySlice C18.Model C18.ConvProofs.
Import ListNotations.
Open Scope Z_scope.

(* bounds for EVERY min_half_window (0 and negative values too): the result is 1, or a scanned
   value / its predecessor, which lies in [min_half_window, max_half_window) *)
Theorem optimize_window_bounds_any_min close inc max_hits max_hw min_hw r :
  1 <= inc ->
  optimize_window close inc max_hits max_hw min_hw = Ok r ->
  1 <= r /\ (r = 1 \/ min_hw <= r < max_hw).
Proof.
  intros Hi. unfold optimize_window. destruct (inc =? 0) eqn:?; [lia|]. intros H. injection H as <-.
  split; [lia|].
  destruct (ow_loop_cases close inc max_hits (py_range (min_hw + inc) max_hw inc) 1 0 min_hw)
    as [E|(h & Hin & E)].
  - rewrite E. left. lia.
  - apply range_fuel_bounds in Hin; [|lia].
    destruct E as [E|[E|[E _]]]; [| |lia]; rewrite E; lia.
Qed.

Lemma py_range_head s e st h t : py_range s e st = h :: t -> h = s.
Proof.
  unfold py_range. rewrite Nat.add_1_r. cbn [range_fuel].
  destruct (if 0 <? st then s <? e else e <? s); [|discriminate]. intros H. injection H as <- _. reflexivity.
Qed.

(* when every scanned opening agrees with the previous one *)
Lemma ow_loop_all_close close inc max_hits l hw hits best :
  (forall h, close h = true) -> 1 <= hits -> hits < max_hits ->
  max_hits - hits <= Z.of_nat (length l) ->
  ow_loop close inc max_hits l hw hits best = best.
Proof.
  intros Hc. revert hw hits. induction l as [|h l IH]; intros hw hits H1 H2 H3; cbn [length] in H3; [lia|].
  cbn [ow_loop]. rewrite Hc. destruct (hits =? 0) eqn:?; [lia|].
  destruct (max_hits <=? hits + 1) eqn:?; [reflexivity|]. apply IH; lia.
Qed.

(* flat data (all comparisons within tolerance), at least max_hits scanned windows: the first hit
   is at min_half_window + increment, so the loop yields min_half_window and the call returns
   max(min_half_window, 1) -- 1 for min_half_window = 0 *)
Theorem optimize_window_flat close inc max_hits max_hw min_hw :
  1 <= inc -> 1 <= max_hits -> (forall h, close h = true) ->
  max_hits <= Z.of_nat (length (py_range (min_hw + inc) max_hw inc)) ->
  optimize_window close inc max_hits max_hw min_hw = Ok (Z.max min_hw 1).
Proof.
  intros Hi Hm Hc Hl. unfold optimize_window. destruct (inc =? 0) eqn:?; [lia|]. f_equal. f_equal.
  destruct (py_range (min_hw + inc) max_hw inc) as [|h t] eqn:E; [cbn [length] in Hl; lia|].
  pose proof (py_range_head _ _ _ _ _ E) as ->. cbn [ow_loop]. rewrite Hc. cbn [Z.eqb].
  destruct (max_hits <=? 0 + 1) eqn:?; [lia|].
  rewrite ow_loop_all_close; try assumption; cbn [length] in Hl; lia.
Qed.

(* counter-model: the same scan with the final clamp max(half_window, min_half_window) *)
Definition optimize_window_minclamp (close : Z -> bool) (inc max_hits max_hw min_hw : Z) : res Z :=
  if inc =? 0 then Err ValueErr
  else Ok (Z.max (ow_loop close inc max_hits (py_range (min_hw + inc) max_hw inc) 1 0 min_hw) min_hw).

Theorem optimize_window_minclamp_refuted :
  optimize_window_minclamp (fun _ => true) 1 3 12 0 = Ok 0 /\
  optimize_window (fun _ => true) 1 3 12 0 = Ok 1.
Proof. split; vm_compute; reflexivity. Qed.
