(* C18 -- executable model of _extrapolate2d / pad_edges2d (utils.py:337-524): nine slice
   assignments into np.empty, strips by row/column least-squares fits (pinv of a Vandermonde),
   corners as the mean of the two extensions of the adjacent strips.  Models only. *)
From Coq Require Import ZArith QArith Qabs List Bool Lia ZifyBool.
From PB Require Import lib.PySlice C18.Model.
Import ListNotations.
Open Scope Z_scope.

Record mat := mkmat { mrows : Z; mcols : Z; yget : Z -> Z -> Q }.
(* the output buffer: None = never written (np.empty) *)
Record omat := mkomat { orows : Z; ocols : Z; mget : Z -> Z -> option Q }.

Definition mat_of_rows (l : list (list Q)) : mat :=
  mkmat (Z.of_nat (length l)) (Z.of_nat (length (hd [] l)))
        (fun i j => nth (Z.to_nat j) (nth (Z.to_nat i) l []) 0%Q).
Definition mat_of_zrows (l : list (list Z)) : mat := mat_of_rows (map (map inject_Z) l).
Definition otab (o : omat) : list (list (option Q)) :=
  map (fun i => map (fun j => mget o (Z.of_nat i) (Z.of_nat j)) (seq 0 (Z.to_nat (ocols o))))
      (seq 0 (Z.to_nat (orows o))).

(* a block  out[rs, cs]  given by two Python slices *)
Record block := mkblk { b_rows : colspec; b_cols : colspec }.
Definition spec_start (n : Z) (s : colspec) : Z :=
  match s with Idx c => pos n c | Slc a _ => sl_start n a end.
Definition spec_len (n : Z) (s : colspec) : Z :=
  match s with Idx _ => 1 | Slc a b => sl_len n a b end.
Definition in_block (nr nc : Z) (blk : block) (i j : Z) : bool :=
  sel nr (b_rows blk) i && sel nc (b_cols blk) j.

(* out[blk] = v : shapes must agree *)
Definition assign (o : omat) (blk : block) (v : mat) : res omat :=
  if (spec_len (orows o) (b_rows blk) =? mrows v) && (spec_len (ocols o) (b_cols blk) =? mcols v) then
    Ok (mkomat (orows o) (ocols o)
          (fun i j => if in_block (orows o) (ocols o) blk i j
                      then Some (yget v (i - spec_start (orows o) (b_rows blk))
                                        (j - spec_start (ocols o) (b_cols blk)))
                      else mget o i j))
  else Err ValueErr.
(* out[blk] read back (an unwritten cell reads as 0 here; the proofs show it never happens) *)
Definition read (o : omat) (blk : block) : mat :=
  mkmat (spec_len (orows o) (b_rows blk)) (spec_len (ocols o) (b_cols blk))
        (fun i j => match mget o (spec_start (orows o) (b_rows blk) + i)
                                 (spec_start (ocols o) (b_cols blk) + j) with
                    | Some v => v | None => 0%Q end).

(* vander[t] @ (_pinv(vander[s .. s+m-1]) @ ys): least-squares line for m >= 2 points; for a single
   row the local _pinv returns [[1], [0]]: the line is the constant ys[0] (edge value repeated, as 1-D). *)
Definition pinv_fit (s m : Z) (ys : Z -> Q) (t : Z) : Q :=
  if m =? 1 then ys 0%Z
  else
    match fit_line (mkvec m (fun k => inject_Z (s + k))) (mkvec m ys) with
    | Ok l => line_at l (inject_Z t)
    | Err _ => 0%Q
    end.

(* extension along axis 0 (rows): src has the R data rows; pad = padding of that axis.
   first = true : fit rows 0..m-1 (abscissae pad+k), evaluate at 0..pad-1
   first = false: fit the last m rows (abscissae pad+R-m+k), evaluate at pad+R .. pad+R+pad-1 *)
Definition ext_rows (pad w : Z) (first : bool) (src : mat) : mat :=
  let R := mrows src in
  let m := Z.min w R in
  mkmat pad (mcols src)
    (fun i j => if first then pinv_fit pad m (fun k => yget src k j) i
                else pinv_fit (pad + R - m) m (fun k => yget src (R - m + k) j) (pad + R + i)).
(* extension along axis 1 (columns) *)
Definition ext_cols (pad w : Z) (first : bool) (src : mat) : mat :=
  let C := mcols src in
  let m := Z.min w C in
  mkmat (mrows src) pad
    (fun i j => if first then pinv_fit pad m (fun k => yget src i k) j
                else pinv_fit (pad + C - m) m (fun k => yget src i (C - m + k)) (pad + C + j)).

Definition mavg (a b : mat) : mat :=
  mkmat (mrows a) (mcols a) (fun i j => ((1 # 2) * (yget a i j + yget b i j))%Q).

(* _get_row_col_values(extrapolate_window).reshape((2, 2)); None -> the paddings *)
Definition windows2d (ew : option (list Z)) (a b : Z) : option (Z * Z * Z * Z) :=
  match ew with
  | None => Some (a, a, b, b)
  | Some [w] => Some (w, w, w, w)
  | Some [r; c] => Some (r, r, c, c)
  | Some [t; bo; l; r] => Some (t, bo, l, r)
  | Some _ => None
  end.

(* the nine blocks for paddings (a, b), in the order the code writes them *)
Definition lo (a : Z) : colspec := Slc None (Some a).
Definition mid (a : Z) : colspec := Slc (Some a) (Some (- a)).
Definition hi (a : Z) : colspec := Slc (Some (- a)) None.
Definition blkC a b := mkblk (mid a) (mid b).
Definition blkT a b := mkblk (lo a) (mid b).
Definition blkB a b := mkblk (hi a) (mid b).
Definition blkL a b := mkblk (mid a) (lo b).
Definition blkR a b := mkblk (mid a) (hi b).
Definition blkTL a b := mkblk (lo a) (lo b).
Definition blkTR a b := mkblk (lo a) (hi b).
Definition blkBL a b := mkblk (hi a) (lo b).
Definition blkBR a b := mkblk (hi a) (hi b).
Definition nine_blocks (a b : Z) : list block :=
  [blkC a b; blkT a b; blkB a b; blkL a b; blkR a b; blkTL a b; blkTR a b; blkBL a b; blkBR a b].
Fixpoint count_true (l : list bool) : nat :=
  match l with [] => O | x :: l' => ((if x then 1 else 0) + count_true l')%nat end.

Definition bind {A B} (r : res A) (f : A -> res B) : res B :=
  match r with Ok a => f a | Err e => Err e end.

Definition extrapolate2d (y : mat) (a b : Z) (ew : option (list Z)) : res omat :=
  if (a =? 0) || (b =? 0) then Err NotImpl
  else if (a <? 0) || (b <? 0) then Err ValueErr
  else
    match windows2d ew a b with
    | None => Err ValueErr
    | Some (wt, wb, wl, wr) =>
      if (wt <=? 0) || (wb <=? 0) || (wl <=? 0) || (wr <=? 0) then Err ValueErr
      else
        let o0 := mkomat (mrows y + 2 * a) (mcols y + 2 * b) (fun _ _ => None) in
        bind (assign o0 (blkC a b) y) (fun o1 =>
        bind (assign o1 (blkT a b) (ext_rows a wt true y)) (fun o2 =>
        bind (assign o2 (blkB a b) (ext_rows a wb false y)) (fun o3 =>
        bind (assign o3 (blkL a b) (ext_cols b wl true y)) (fun o4 =>
        bind (assign o4 (blkR a b) (ext_cols b wr false y)) (fun o5 =>
        let top := read o5 (blkT a b) in
        let bot := read o5 (blkB a b) in
        let lef := read o5 (blkL a b) in
        let rig := read o5 (blkR a b) in
        bind (assign o5 (blkTL a b) (mavg (ext_cols b wl true top) (ext_rows a wt true lef))) (fun o6 =>
        bind (assign o6 (blkTR a b) (mavg (ext_cols b wr false top) (ext_rows a wt true rig))) (fun o7 =>
        bind (assign o7 (blkBL a b) (mavg (ext_cols b wl true bot) (ext_rows a wb false lef))) (fun o8 =>
        assign o8 (blkBR a b) (mavg (ext_cols b wr false bot) (ext_rows a wb false rig))))))))))
    end.
