(* C18 -- helpers used only by the generated correspondence cases (decoding and comparison). *)
From Coq Require Import ZArith QArith Qabs List Bool.
From PB Require Import lib.PySlice C18.Model C18.Model2D.
Import ListNotations.
Open Scope Z_scope.

Definition mode_of (code : Z) (ew : option (list Z)) : mode :=
  if code =? 0 then Extrapolate ew
  else if code =? 1 then NpMode np_edge
  else if code =? 2 then NpMode np_reflect
  else if code =? 3 then NpMode np_symmetric
  else if code =? 4 then NpMode np_wrap
  else NpMode (np_constant 0).

Definition within (tol a b : Q) : bool := Qle_bool (Qabs (a - b)) tol.

Fixpoint cmp_tol (tol : Q) (l1 l2 : list Q) : bool :=
  match l1, l2 with
  | [], [] => true
  | a :: l1', b :: l2' => within tol a b && cmp_tol tol l1' l2'
  | _, _ => false
  end.

(* interior positions p <= i < p + n are compared exactly, the padding within [tol] *)
Fixpoint cmp_pad_from (i p n : Z) (tol : Q) (l1 l2 : list Q) : bool :=
  match l1, l2 with
  | [], [] => true
  | a :: l1', b :: l2' =>
      (if (p <=? i) && (i <? p + n) then Qeq_bool a b else within tol a b)
      && cmp_pad_from (i + 1) p n tol l1' l2'
  | _, _ => false
  end.
Definition cmp_pad (p n : Z) (tol : Q) (l1 l2 : list Q) : bool := cmp_pad_from 0 p n tol l1 l2.

Fixpoint cmp_tol2 (tol : Q) (l1 l2 : list (list Q)) : bool :=
  match l1, l2 with
  | [], [] => true
  | a :: l1', b :: l2' => cmp_tol tol a b && cmp_tol2 tol l1' l2'
  | _, _ => false
  end.

(* optimize_window: the recorded outcomes of the tolerance test, and the half windows the model visits *)
Fixpoint close_of (trace : list (Z * bool)) (h : Z) : bool :=
  match trace with
  | [] => false
  | (h', b) :: t => if h =? h' then b else close_of t h
  end.

Fixpoint ow_visited (close : Z -> bool) (max_hits : Z) (l : list Z) (hits : Z) : list Z :=
  match l with
  | [] => []
  | h :: l' =>
      h :: (if close h then (if max_hits <=? hits + 1 then [] else ow_visited close max_hits l' (hits + 1))
            else ow_visited close max_hits l' 0)
  end.
Definition scan_of (trace : list (Z * bool)) (inc max_hits max_hw min_hw : Z) : list Z :=
  if inc =? 0 then [] else ow_visited (close_of trace) max_hits (py_range (min_hw + inc) max_hw inc) 0.

(* 2-D: every cell of the output buffer must have been written and lie within [tol] *)
Fixpoint cmp_orow (tol : Q) (l1 : list (option Q)) (l2 : list Q) : bool :=
  match l1, l2 with
  | [], [] => true
  | Some a :: l1', b :: l2' => within tol a b && cmp_orow tol l1' l2'
  | _, _ => false
  end.
Fixpoint cmp_otab (tol : Q) (l1 : list (list (option Q))) (l2 : list (list Q)) : bool :=
  match l1, l2 with
  | [], [] => true
  | a :: l1', b :: l2' => cmp_orow tol a b && cmp_otab tol l1' l2'
  | _, _ => false
  end.
