(* C18 -- the fitted line is THE least-squares line: it minimises the sum of squared residuals over
   all lines (global optimality from the normal equations), for the generic fit and for the edges
   that _get_edges adds. *)
From Coq Require Import ZArith QArith Qabs List Bool Lia ZifyBool Lqa Setoid Morphisms.
From PB Require Import lib.PySlice C18.Model C18.SumQ C18.PadProofs.
Import ListNotations.
Open Scope Z_scope.

(* sum of squared residuals of the points (x k, y k), k < n, about the line t |-> c0 + c1 t *)
Definition sse (n : nat) (x y : Z -> Q) (c0 c1 : Q) : Q :=
  sumQ n (fun k => (y k - (c0 + c1 * x k)) * (y k - (c0 + c1 * x k)))%Q.

Lemma normal_eq_minimiser n (x y : Z -> Q) (c0 c1 : Q) :
  (sumQ n (fun k => y k - (c0 + c1 * x k)) == 0)%Q ->
  (sumQ n (fun k => x k * (y k - (c0 + c1 * x k))) == 0)%Q ->
  forall a b, (sse n x y c0 c1 <= sse n x y a b)%Q.
Proof.
  intros N1 N2 a b. unfold sse.
  set (r := fun k => (y k - (c0 + c1 * x k))%Q).
  set (d := fun k => ((c0 - a) + (c1 - b) * x k)%Q).
  set (ca := (2 * (c0 - a))%Q). set (cb := (2 * (c1 - b))%Q).
  assert (S1 : (sumQ n r == 0)%Q) by exact N1.
  assert (S2 : (sumQ n (fun k => x k * r k) == 0)%Q) by exact N2.
  assert (H0 : (sumQ n (fun k => (y k - (a + b * x k)) * (y k - (a + b * x k)))
                == sumQ n (fun k => (r k * r k + d k * d k) + (ca * r k + cb * (x k * r k))))%Q).
  { apply sumQ_ext. intros. unfold r, d, ca, cb. ring. }
  pose proof (sumQ_add n (fun k => r k * r k + d k * d k)%Q (fun k => ca * r k + cb * (x k * r k))%Q) as A1.
  pose proof (sumQ_add n (fun k => r k * r k)%Q (fun k => d k * d k)%Q) as A2.
  pose proof (sumQ_add n (fun k => ca * r k)%Q (fun k => cb * (x k * r k))%Q) as A3.
  pose proof (sumQ_scale n ca r) as A4.
  pose proof (sumQ_scale n cb (fun k => x k * r k)%Q) as A5.
  cbv beta in A1, A2, A3, A4, A5.
  rewrite S1 in A4. rewrite S2 in A5. rewrite Qmult_0_r in A4, A5.
  assert (Hd : (0 <= sumQ n (fun k => d k * d k))%Q) by (apply sumQ_nonneg; intros; apply sq_nonneg).
  change (sumQ n (fun k => r k * r k) <= sumQ n (fun k => (y k - (a + b * x k)) * (y k - (a + b * x k))))%Q.
  rewrite H0, A1, A2, A3, A4, A5. lra.
Qed.

(* generic: Polynomial.fit's model minimises the squared error over all (a, b) *)
Theorem fit_minimises xs ys l :
  fit_line xs ys = Ok l -> ~ (sxx_of xs == 0)%Q ->
  forall a b,
    (sumQ (Z.to_nat (vlen xs)) (fun k => (vget ys k - line_at l (vget xs k)) * (vget ys k - line_at l (vget xs k)))
     <= sse (Z.to_nat (vlen xs)) (vget xs) (vget ys) a b)%Q.
Proof.
  intros El Hs a b. destruct (fit_normal_equations xs ys l El Hs) as [N1 N2]. cbv zeta in N1, N2.
  set (c1 := l_slope l). set (c0 := (l_ybar l - l_slope l * l_xbar l)%Q).
  assert (L : forall t, (line_at l t == c0 + c1 * t)%Q) by (intros; unfold line_at, c0, c1; ring).
  rewrite (sumQ_ext _ _ (fun k => (vget ys k - (c0 + c1 * vget xs k)) * (vget ys k - (c0 + c1 * vget xs k)))%Q)
    by (intros; rewrite L; reflexivity).
  apply normal_eq_minimiser.
  - rewrite <- N1. apply sumQ_ext. intros. rewrite L. reflexivity.
  - rewrite <- N2. apply sumQ_ext. intros. rewrite L. reflexivity.
Qed.

(* the edges: on a side with window w >= 2 the p added points lie on a line that minimises, over ALL
   lines, the squared error at the min(w, N) data points next to that side (placed at the abscissae
   they have in the padded array) *)
Theorem pad_edge_minimises (y : vec) (p w : Z) (left : bool) :
  2 <= vlen y -> 1 <= p -> 2 <= w ->
  let m := Z.min w (vlen y) in
  let s := if left then 0 else vlen y - m in
  exists e l, edge_side y p left w = Ok e /\ vlen e = p /\
    (forall i, 0 <= i < p ->
       (vget e i == line_at l (inject_Z (if left then i else vlen y + p + i)))%Q) /\
    forall a b,
      (sumQ (Z.to_nat m) (fun k => (vget y (s + k) - line_at l (inject_Z (p + s + k)))
                                   * (vget y (s + k) - line_at l (inject_Z (p + s + k))))
       <= sse (Z.to_nat m) (fun k => inject_Z (p + s + k)) (fun k => vget y (s + k)) a b)%Q.
Proof.
  intros Hn Hp Hw m s.
  destruct (pad_edge_is_lsq y p w left Hn Hp Hw) as (e & l & E & Le & V & N1 & N2).
  fold m in N1, N2. fold s in N1, N2.
  exists e, l. split; [exact E|]. split; [exact Le|]. split; [exact V|]. intros a b.
  set (c1 := l_slope l). set (c0 := (l_ybar l - l_slope l * l_xbar l)%Q).
  assert (L : forall t, (line_at l t == c0 + c1 * t)%Q) by (intros; unfold line_at, c0, c1; ring).
  rewrite (sumQ_ext _ _ (fun k => (vget y (s + k) - (c0 + c1 * inject_Z (p + s + k)))
                                  * (vget y (s + k) - (c0 + c1 * inject_Z (p + s + k))))%Q)
    by (intros; rewrite L; reflexivity).
  apply (normal_eq_minimiser (Z.to_nat m) (fun k => inject_Z (p + s + k)) (fun k => vget y (s + k))).
  - rewrite <- N1. apply sumQ_ext. intros. rewrite L. reflexivity.
  - rewrite <- N2. apply sumQ_ext. intros. rewrite L. reflexivity.
Qed.
