(* C18 -- proofs about output dtypes and the typed value model. *)
From Coq Require Import ZArith QArith Qround List Bool Lia ZifyBool Lqa.
From PB Require Import lib.PySlice C18.Model C18.SumQ C18.PadProofs C18.ConvProofs C18.Model2D C18.DType.
Import ListNotations.
Open Scope Z_scope.

Lemma result_type_comm a b : result_type a b = result_type b a.
Proof. destruct a, b; reflexivity. Qed.
Lemma result_type_idem a : result_type a a = a.
Proof. destruct a; reflexivity. Qed.
Lemma result_type_f64 d : result_type F64 d = F64 /\ result_type d F64 = F64.
Proof. destruct d; split; reflexivity. Qed.
Lemma result_type_bool d : result_type DBool d = d /\ result_type d DBool = d.
Proof. destruct d; split; reflexivity. Qed.
(* promotion never leaves the float kind, and a float result can hold non-integers *)
Lemma result_type_float a b : is_float a = true -> is_float (result_type a b) = true.
Proof. destruct a, b; cbn; intros; try reflexivity; discriminate. Qed.

Lemma pad_edges_dtype_extrapolate ew p d : p <> 0 -> pad_edges_dtype (Extrapolate ew) p d = F64.
Proof. intros. unfold pad_edges_dtype. destruct (p =? 0) eqn:?; [lia|]. apply result_type_f64. Qed.
Lemma pad_edges_dtype_np f p d : pad_edges_dtype (NpMode f) p d = d.
Proof. unfold pad_edges_dtype. destruct (p =? 0); reflexivity. Qed.
Lemma pad_edges_dtype_zero m d : pad_edges_dtype m 0 d = d.
Proof. reflexivity. Qed.

Lemma store_float d q : is_float d = true -> store d q = q.
Proof. unfold store, is_float. destruct (dkind d); intros; try discriminate; reflexivity. Qed.

(* a value that the dtype holds exactly is stored unchanged *)
Definition holds (d : dtype) (q : Q) : Prop :=
  match dkind d with
  | KFloat => True
  | KBool => (q == 0 \/ q == 1)%Q
  | _ => exists z, q = inject_Z z
  end.
Lemma qtrunc_inject z : qtrunc (inject_Z z) = z.
Proof.
  unfold qtrunc. destruct (Qle_bool 0 (inject_Z z)); [apply Qfloor_Z|apply Qceiling_Z].
Qed.
Lemma store_holds d q : holds d q -> (store d q == q)%Q.
Proof.
  unfold holds, store. destruct (dkind d); intros H.
  - destruct H as [H|H].
    + rewrite (proj2 (Qeq_bool_iff q 0) H). rewrite H. reflexivity.
    + destruct (Qeq_bool q 0) eqn:E; [apply Qeq_bool_iff in E; rewrite E in H; discriminate|].
      rewrite H. reflexivity.
  - destruct H as [z ->]. rewrite qtrunc_inject. reflexivity.
  - destruct H as [z ->]. rewrite qtrunc_inject. reflexivity.
  - reflexivity.
Qed.

(* C18_typed_len_interior: whatever the input dtype / container, the typed call succeeds, has
   N + 2p points, its dtype is float64 ('extrapolate', p > 0) or the input's, and the interior is
   the data as stored in that dtype *)
Theorem typed_len_interior y c p m :
  1 <= vlen y -> 0 <= p -> mode_ok m p ->
  exists out od, pad_edges_typed y c p m = Ok (out, od) /\ vlen out = vlen y + 2 * p /\
    od = pad_edges_dtype m p (asarray_dtype c) /\
    (od = F64 \/ od = asarray_dtype c) /\
    forall i, 0 <= i < vlen y -> vget out (p + i) = store od (vget y i).
Proof.
  intros Hn Hp Hm. destruct (pad_len_interior y p m Hn Hp Hm) as (out & E & L & I).
  unfold pad_edges_typed. rewrite E. eexists; eexists. split; [reflexivity|]. cbn [vmap vlen vget].
  split; [exact L|]. split; [reflexivity|]. split.
  - unfold pad_edges_dtype. destruct (p =? 0); [right; reflexivity|].
    destruct m; [left; apply result_type_f64|right; reflexivity].
  - intros i Hi. rewrite I by exact Hi. reflexivity.
Qed.

(* C18_typed_linear_exact: for EVERY input dtype and container (integer arrays, lists of Python
   ints, bool, float32 ...) the 'extrapolate' output is float64 and exactly linear data is continued
   exactly -- nothing is truncated to the input's integer dtype *)
Theorem typed_linear_exact y c p ew wl wr a b :
  2 <= vlen y -> 1 <= p -> windows_of ew p = Some (wl, wr) -> 2 <= wl -> 2 <= wr ->
  linear_on y a b ->
  exists out, pad_edges_typed y c p (Extrapolate ew) = Ok (out, F64) /\ vlen out = vlen y + 2 * p /\
              forall i, 0 <= i < vlen y + 2 * p -> (vget out i == a + b * inject_Z (i - p))%Q.
Proof.
  intros Hn Hp Hw Hl Hr Hy.
  destruct (pad_linear_exact y p ew wl wr a b Hn Hp Hw Hl Hr Hy) as (out & E & L & V).
  unfold pad_edges_typed. rewrite E. rewrite pad_edges_dtype_extrapolate by lia.
  eexists. split; [reflexivity|]. cbn [vmap vlen vget]. split; [exact L|].
  intros i Hi. apply V. exact Hi.
Qed.

(* the typed extrapolated values ARE the exact model's values (no cast happens) *)
Theorem typed_extrapolate_values y c p ew out :
  p <> 0 -> pad_edges y p (Extrapolate ew) = Ok out ->
  exists out', pad_edges_typed y c p (Extrapolate ew) = Ok (out', F64) /\ vlen out' = vlen out /\
               forall i, vget out' i = vget out i.
Proof.
  intros Hp E. unfold pad_edges_typed. rewrite E, pad_edges_dtype_extrapolate by exact Hp.
  eexists. split; [reflexivity|]. split; reflexivity.
Qed.

(* padded_convolve: float64 result whenever the pad is 'extrapolate' or the kernel is float64
   (every normalised kernel) *)
Theorem convolve_dtype_float m n mk d kd :
  1 <= n -> 1 <= mk -> (kd = F64 \/ exists ew, m = Extrapolate ew) -> convolve_dtype m n mk d kd = F64.
Proof.
  intros Hn Hm [->|[ew ->]]; unfold convolve_dtype.
  - apply result_type_f64.
  - pose proof (conv_padding_pos n mk Hn Hm). rewrite pad_edges_dtype_extrapolate by lia.
    apply result_type_f64.
Qed.

(* allocating the output like the input instead (np.empty_like) truncates the fitted points:
   integer data [0, 0, 1], window 3, pad 1 -- the least-squares value -2/3 is stored as 0 *)
Definition wit_int : vec := of_zlist [0; 0; 1].
Lemma typed_inherit_bool :
  match pad_edges_inherit wit_int PyInts 1 (Extrapolate (Some [3])),
        pad_edges_typed wit_int PyInts 1 (Extrapolate (Some [3])) with
  | Ok (o1, d1), Ok (o2, d2) =>
      (dcode d1 =? dcode I64) && (dcode d2 =? dcode F64) &&
      Qeq_bool (vget o1 0) 0 && Qeq_bool (vget o2 0) (- 2 # 3)
  | _, _ => false
  end = true.
Proof. vm_compute. reflexivity. Qed.

Theorem typed_inherit_refuted :
  exists o1 o2, pad_edges_inherit wit_int PyInts 1 (Extrapolate (Some [3])) = Ok (o1, I64) /\
                pad_edges_typed wit_int PyInts 1 (Extrapolate (Some [3])) = Ok (o2, F64) /\
                (vget o1 0 == 0)%Q /\ (vget o2 0 == - 2 # 3)%Q.
Proof.
  pose proof typed_inherit_bool as H.
  destruct (pad_edges_inherit wit_int PyInts 1 (Extrapolate (Some [3]))) as [[o1 d1]|]; [|discriminate].
  destruct (pad_edges_typed wit_int PyInts 1 (Extrapolate (Some [3]))) as [[o2 d2]|]; [|discriminate].
  apply andb_prop in H. destruct H as [H H4]. apply andb_prop in H. destruct H as [H H3].
  apply andb_prop in H. destruct H as [H1 H2].
  assert (d1 = I64) by (destruct d1; cbn in H1; try discriminate; reflexivity).
  assert (d2 = F64) by (destruct d2; cbn in H2; try discriminate; reflexivity).
  subst. exists o1, o2. repeat split; try reflexivity; apply Qeq_bool_iff; assumption.
Qed.
