(* C18 -- decoding helpers for the typed (dtype / container) correspondence cases. *)
From Coq Require Import ZArith QArith Qabs List Bool.
From PB Require Import lib.PySlice C18.Model C18.Model2D C18.Cmp C18.DType.
Import ListNotations.
Open Scope Z_scope.

(* 0..11 = ndarray of that dtype; 12 = sequence of Python ints, 13 = of bools, 14 = of floats *)
Definition container_of_code (c : Z) : container :=
  if c =? 12 then PyInts else if c =? 13 then PyBools else if c =? 14 then PyFloats
  else Arr (dtype_of_code c).

Definition check_typed (p n : Z) (tol : Q) (r : res (vec * dtype)) (e : option (Z * list Q)) : bool :=
  match r, e with
  | Ok (out, od), Some (ed, ev) =>
      (dcode od =? ed) && (vlen out =? Z.of_nat (length ev)) && cmp_pad p n tol (vtab out) ev
  | Err _, None => true
  | _, _ => false
  end.
