(* C18 -- padded_convolve with an index-function padding mode (np.pad 'edge', 'reflect', 'symmetric',
   'wrap': every padded point is a copy of one data point chosen from the LENGTH alone) is a linear
   map of the data, for every length, kernel and pair of scalars; and it rejects a combination exactly
   when it rejects the parts.  Proofs only; the models are in C18/Model.v. *)
From Coq Require Import ZArith QArith Qabs List Bool Lia ZifyBool Lqa Setoid Morphisms.
From PB Require Import lib.PySlice C18.Model C18.SumQ.
Import ListNotations.
Open Scope Z_scope.

(* a * y1 + b * y2 (pointwise, the length of y1) *)
Definition vlin (a b : Q) (y1 y2 : vec) : vec :=
  mkvec (vlen y1) (fun i => a * vget y1 i + b * vget y2 i)%Q.

Lemma conv_full_lin (a b : Q) (u1 u2 u k : vec) n :
  vlen u1 = vlen u -> vlen u2 = vlen u ->
  (forall i, vget u i == a * vget u1 i + b * vget u2 i)%Q ->
  (conv_full u k n == a * conv_full u1 k n + b * conv_full u2 k n)%Q.
Proof.
  intros L1 L2 H. unfold conv_full. rewrite L1, L2.
  rewrite <- !sumQ_scale, <- sumQ_add. apply sumQ_ext. intros j _.
  destruct ((0 <=? n - j) && (n - j <? vlen u)); [rewrite H; ring | ring].
Qed.

Theorem convolve_src_linear (src : Z -> Z -> Z) (y1 y2 k : vec) (a b : Q) :
  vlen y1 = vlen y2 ->
  match padded_convolve y1 k (NpMode (np_src src)), padded_convolve y2 k (NpMode (np_src src)),
        padded_convolve (vlin a b y1 y2) k (NpMode (np_src src)) with
  | Ok o1, Ok o2, Ok o =>
      vlen o = vlen o1 /\ vlen o = vlen o2 /\
      forall i, (vget o i == a * vget o1 i + b * vget o2 i)%Q
  | Err e1, Err e2, Err e => e1 = e /\ e2 = e
  | _, _, _ => False
  end.
Proof.
  intros L. unfold padded_convolve, pad_edges. cbn [vlen vlin]. rewrite <- L.
  set (p := conv_padding (vlen y1) (vlen k)).
  destruct (p =? 0) eqn:E0.
  - unfold vslice, conv_same; cbn [vlen vget]. rewrite <- L. repeat split.
    intros i. apply conv_full_lin; cbn [vlen vget]; auto. intros; reflexivity.
  - destruct (p <? 0) eqn:E1; [split; reflexivity|].
    unfold vslice, conv_same, np_src; cbn [vlen vget]. rewrite <- L. repeat split.
    intros i. apply conv_full_lin; cbn [vlen vget]; auto. intros; reflexivity.
Qed.

(* non-vacuity: a 5-point signal, a 3-point kernel, 'reflect' padding: all three calls succeed *)
Example convolve_src_linear_nonvacuous :
  let y1 := of_zlist [1; 4; 9; 16; 25] in let y2 := of_zlist [2; 0; -1; 3; 7] in
  let k := of_zlist [1; 2; 1] in
  match padded_convolve y1 k (NpMode np_reflect), padded_convolve y2 k (NpMode np_reflect),
        padded_convolve (vlin 3 (-2) y1 y2) k (NpMode np_reflect) with
  | Ok o1, Ok o2, Ok o => vlen o = 5 /\ (vget o 0 == 3 * vget o1 0 - 2 * vget o2 0)%Q /\ ~ (vget o 0 == 0)%Q
  | _, _, _ => False
  end.
Proof. vm_compute. repeat split; discriminate. Qed.

(* ------------------------------------------------------------------ linear in the KERNEL, every mode
   The padding depends on the kernel through its length only, so for EVERY mode (any np.pad function,
   'extrapolate' with any windows) the call on a*k1 + b*k2 fails exactly when the calls on k1 and k2 fail
   (same error) and otherwise returns a*out1 + b*out2. *)
Lemma conv_full_lin_kernel (a b : Q) (u k1 k2 k : vec) n :
  vlen k1 = vlen k -> vlen k2 = vlen k ->
  (forall i, vget k i == a * vget k1 i + b * vget k2 i)%Q ->
  (conv_full u k n == a * conv_full u k1 n + b * conv_full u k2 n)%Q.
Proof.
  intros L1 L2 H. unfold conv_full. rewrite L1, L2.
  rewrite <- !sumQ_scale, <- sumQ_add. apply sumQ_ext. intros j _.
  destruct ((0 <=? n - j) && (n - j <? vlen u)); [rewrite H; ring | ring].
Qed.

Theorem convolve_kernel_linear (m : mode) (y k1 k2 : vec) (a b : Q) :
  vlen k1 = vlen k2 ->
  match padded_convolve y k1 m, padded_convolve y k2 m, padded_convolve y (vlin a b k1 k2) m with
  | Ok o1, Ok o2, Ok o =>
      vlen o = vlen o1 /\ vlen o = vlen o2 /\
      forall i, (vget o i == a * vget o1 i + b * vget o2 i)%Q
  | Err e1, Err e2, Err e => e1 = e /\ e2 = e
  | _, _, _ => False
  end.
Proof.
  intros L. unfold padded_convolve. cbn [vlen vlin]. rewrite <- L.
  destruct (pad_edges y (conv_padding (vlen y) (vlen k1)) m) as [yp|e]; [|split; reflexivity].
  unfold vslice, conv_same; cbn [vlen vget]. repeat split.
  intros i. rewrite <- L. apply conv_full_lin_kernel; cbn [vlen vget]; auto. intros; reflexivity.
Qed.

Example convolve_kernel_linear_nonvacuous :
  let y := of_zlist [1; 4; 9; 16; 25; 36] in
  let k1 := of_zlist [1; 2; 1] in let k2 := of_zlist [0; 1; -1] in
  match padded_convolve y k1 (Extrapolate (Some [3])), padded_convolve y k2 (Extrapolate (Some [3])),
        padded_convolve y (vlin 2 5 k1 k2) (Extrapolate (Some [3])) with
  | Ok o1, Ok o2, Ok o => vlen o = 6 /\ (vget o 0 == 2 * vget o1 0 + 5 * vget o2 0)%Q /\ ~ (vget o 0 == 0)%Q
  | _, _, _ => False
  end.
Proof. vm_compute. repeat split; discriminate. Qed.

(* ------------------------------------------------------------------ index-function pads only COPY data
   pad_edges with an index-function mode commutes with every pointwise map f (not only linear ones):
   padding f(y) gives f applied to the padding of y, and both calls are rejected together. *)
Theorem pad_src_map (src : Z -> Z -> Z) (f : Q -> Q) (y : vec) (p : Z) :
  match pad_edges y p (NpMode (np_src src)), pad_edges (vmap f y) p (NpMode (np_src src)) with
  | Ok o1, Ok o => vlen o = vlen o1 /\ forall i, vget o i = f (vget o1 i)
  | Err e1, Err e => e1 = e
  | _, _ => False
  end.
Proof.
  unfold pad_edges. destruct (p =? 0); [split; reflexivity|].
  destruct (p <? 0); [reflexivity|]. unfold np_src, vmap; cbn [vlen vget]. split; reflexivity.
Qed.

Example pad_src_map_nonvacuous :
  match pad_edges (of_zlist [1; 4; 9]) 2 (NpMode np_symmetric),
        pad_edges (vmap (fun q => q * q - 3)%Q (of_zlist [1; 4; 9])) 2 (NpMode np_symmetric) with
  | Ok o1, Ok o => vlen o = 7 /\ (vget o 0 == 13)%Q /\ (vget o1 0 == 4)%Q
  | _, _ => False
  end.
Proof. vm_compute. repeat split. Qed.
