(* C18 -- pad_edges 'extrapolate' is equivariant under every affine map a*y + b of the data (a = 0 and
   negative a included), for every length, pad length and windows, and rejects both calls together.
   Proofs only; models in C18/Model.v. *)
From Coq Require Import ZArith QArith Qabs List Bool Lia ZifyBool Lqa Setoid Morphisms.
From PB Require Import lib.PySlice C18.Model C18.SumQ C18.PadProofs.
Import ListNotations.
Open Scope Z_scope.

Definition aff (a b : Q) (q : Q) : Q := (a * q + b)%Q.

Lemma vsum_aff a b (ys : vec) : 0 <= vlen ys ->
  (vsum (vmap (aff a b) ys) == a * vsum ys + inject_Z (vlen ys) * b)%Q.
Proof.
  intros H. unfold vsum, vmap, aff; cbn [vlen vget].
  rewrite sumQ_add, sumQ_scale, sumQ_const, inject_Z_nat_len by lia. reflexivity.
Qed.

Theorem fit_line_affine xs ys a b :
  match fit_line xs ys, fit_line xs (vmap (aff a b) ys) with
  | Ok l, Ok l' => forall t, (line_at l' t == a * line_at l t + b)%Q
  | Err e, Err e' => e = e'
  | _, _ => False
  end.
Proof.
  unfold fit_line. cbn [vlen vmap].
  destruct (negb (vlen xs =? vlen ys)) eqn:E1; [reflexivity|].
  destruct (vlen xs <=? 0) eqn:E2; [reflexivity|].
  intros t. unfold line_at; cbn [l_xbar l_ybar l_slope].
  assert (Hm : ~ (inject_Z (vlen xs) == 0)%Q) by (apply inject_Z_nz; lia).
  assert (Hy : (vsum (vmap (aff a b) ys) / inject_Z (vlen xs) == a * (vsum ys / inject_Z (vlen xs)) + b)%Q).
  { rewrite vsum_aff by lia. replace (vlen ys) with (vlen xs) by lia. field. exact Hm. }
  change (mkvec (vlen ys) (fun i => aff a b (vget ys i))) with (vmap (aff a b) ys).
  rewrite Hy.
  set (xbar := (vsum xs / inject_Z (vlen xs))%Q). set (ybar := (vsum ys / inject_Z (vlen xs))%Q).
  assert (Hs : (sumQ (Z.to_nat (vlen xs)) (fun k => (vget xs k - xbar) * (vget (vmap (aff a b) ys) k - (a * ybar + b)))
               == a * sumQ (Z.to_nat (vlen xs)) (fun k => (vget xs k - xbar) * (vget ys k - ybar)))%Q).
  { rewrite <- sumQ_scale. apply sumQ_ext. intros k _. unfold vmap, aff; cbn [vget]. ring. }
  match goal with |- (_ + ?s1 / _ * _ == _)%Q => assert (Hs' : (s1 == a * sumQ (Z.to_nat (vlen xs)) (fun k => (vget xs k - xbar) * (vget ys k - ybar)))%Q) end.
  { etransitivity; [|exact Hs]. apply sumQ_ext. intros k _. rewrite Hy. reflexivity. }
  rewrite Hs'. unfold Qdiv. ring.
Qed.

Definition rel_vec (a b : Q) (r r' : res vec) : Prop :=
  match r, r' with
  | Ok e, Ok e' => vlen e' = vlen e /\ forall i, (vget e' i == aff a b (vget e i))%Q
  | Err e, Err e' => e = e'
  | _, _ => False
  end.

Lemma edge_side_affine y p left w a b :
  rel_vec a b (edge_side y p left w) (edge_side (vmap (aff a b) y) p left w).
Proof.
  unfold edge_side, rel_vec. change (vlen (vmap (aff a b) y)) with (vlen y).
  change (vget (vmap (aff a b) y)) with (fun i => aff a b (vget y i)).
  destruct (w =? 1); [split; [reflexivity|intros; cbn [vfull vget]; reflexivity]|].
  set (x := arange (vlen y + 2 * p)).
  set (xs := if left then vslice (vslice x (Some p) (Some (- p))) None (Some w)
             else vslice (vslice x (Some p) (Some (- p))) (Some (- w)) None).
  set (ts := if left then vslice x None (Some p) else vslice x (Some (- p)) None).
  set (ys := if left then vslice y None (Some w) else vslice y (Some (- w)) None).
  assert (E : (if left then vslice (vmap (aff a b) y) None (Some w)
               else vslice (vmap (aff a b) y) (Some (- w)) None) = vmap (aff a b) ys).
  { unfold ys. destruct left; reflexivity. }
  rewrite E. pose proof (fit_line_affine xs ys a b) as F.
  destruct (fit_line xs ys) as [l|e], (fit_line xs (vmap (aff a b) ys)) as [l'|e']; try contradiction; [|exact F].
  unfold assign_all; cbn [vlen vmap].
  destruct (vlen ts =? p); [split; [reflexivity|intros i; cbn [vget]; apply F]|].
  destruct (vlen ts =? 1); [split; [reflexivity|intros i; cbn [vfull vget]; apply F]|reflexivity].
Qed.

Theorem pad_extrapolate_affine y p ew a b :
  rel_vec a b (pad_edges y p (Extrapolate ew)) (pad_edges (vmap (aff a b) y) p (Extrapolate ew)).
Proof.
  unfold pad_edges, get_edges.
  destruct (p =? 0); [split; [reflexivity|intros; reflexivity]|].
  destruct (p <? 0); [reflexivity|].
  destruct (resolve_windows _) as [[wl wr]|]; [|reflexivity].
  destruct ((wl <=? 0) || (wr <=? 0)); [reflexivity|].
  pose proof (edge_side_affine y p true wl a b) as HL. pose proof (edge_side_affine y p false wr a b) as HR.
  unfold rel_vec in HL, HR.
  destruct (edge_side y p true wl) as [l|e1], (edge_side (vmap (aff a b) y) p true wl) as [l'|e1']; try contradiction;
  destruct (edge_side y p false wr) as [r|e2], (edge_side (vmap (aff a b) y) p false wr) as [r'|e2']; try contradiction;
  cbn [rel_vec]; try assumption.
  destruct HL as [Ll Hl], HR as [Lr Hr]. unfold vcat3; cbn [vlen vget vmap]. split; [lia|].
  intros i. rewrite Ll. destruct (i <? vlen l); [apply Hl|].
  destruct (i <? vlen l + vlen y); [reflexivity|]. apply Hr.
Qed.

Example pad_extrapolate_affine_nonvacuous :
  match pad_edges (of_zlist [1; 4; 9; 16; 25]) 2 (Extrapolate (Some [3])),
        pad_edges (vmap (aff (-3) 7) (of_zlist [1; 4; 9; 16; 25])) 2 (Extrapolate (Some [3])) with
  | Ok o, Ok o' => vlen o' = 9 /\ (vget o' 0 == aff (-3) 7 (vget o 0))%Q /\ ~ (vget o 0 == 0)%Q /\ ~ (vget o 0 == vget o 1)%Q
  | _, _ => False
  end.
Proof. vm_compute. repeat split; discriminate. Qed.
