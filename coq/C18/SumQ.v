(* C18 -- lemmas about the reduced finite sums [sumQ] (all up to Qeq). *)
From Coq Require Import ZArith QArith Qabs List Bool Lia ZifyBool Lqa Setoid Morphisms.
From PB Require Import lib.PySlice C18.Model.
Open Scope Z_scope.

Lemma sumQ_S n f : (sumQ (S n) f == sumQ n f + f (Z.of_nat n))%Q.
Proof. cbn [sumQ]. apply Qred_correct. Qed.

Lemma sumQ_0 f : sumQ 0 f = 0%Q.
Proof. reflexivity. Qed.

Lemma sumQ_ext n f g :
  (forall k, 0 <= k < Z.of_nat n -> (f k == g k)%Q) -> (sumQ n f == sumQ n g)%Q.
Proof.
  induction n as [|n IH]; intros H; [reflexivity|].
  rewrite !sumQ_S. rewrite IH by (intros; apply H; lia).
  rewrite (H (Z.of_nat n)) by lia. reflexivity.
Qed.

Lemma sumQ_add n f g : (sumQ n (fun k => f k + g k) == sumQ n f + sumQ n g)%Q.
Proof. induction n as [|n IH]; [cbn; ring|]. rewrite !sumQ_S, IH. ring. Qed.

Lemma sumQ_scale n c f : (sumQ n (fun k => c * f k) == c * sumQ n f)%Q.
Proof. induction n as [|n IH]; [cbn; ring|]. rewrite !sumQ_S, IH. ring. Qed.

Lemma sumQ_div n c f : (sumQ n (fun k => f k / c) == sumQ n f / c)%Q.
Proof.
  induction n as [|n IH]; [cbn; unfold Qdiv; ring|]. rewrite !sumQ_S, IH. unfold Qdiv. ring.
Qed.

Lemma inject_Z_succ n : (inject_Z (Z.of_nat (S n)) == inject_Z (Z.of_nat n) + 1)%Q.
Proof. rewrite Nat2Z.inj_succ. unfold Z.succ. rewrite inject_Z_plus. reflexivity. Qed.

Lemma sumQ_const n c : (sumQ n (fun _ => c) == inject_Z (Z.of_nat n) * c)%Q.
Proof.
  induction n as [|n IH]; [cbn; ring|]. rewrite sumQ_S, IH, inject_Z_succ. ring.
Qed.

Lemma sumQ_zero n f : (forall k, 0 <= k < Z.of_nat n -> (f k == 0)%Q) -> (sumQ n f == 0)%Q.
Proof.
  intros H. rewrite (sumQ_ext n f (fun _ => 0%Q)) by exact H. rewrite sumQ_const. ring.
Qed.

Lemma sumQ_nonneg n f : (forall k, 0 <= k < Z.of_nat n -> (0 <= f k)%Q) -> (0 <= sumQ n f)%Q.
Proof.
  induction n as [|n IH]; intros H; [cbn; lra|].
  rewrite sumQ_S. assert (0 <= sumQ n f)%Q by (apply IH; intros; apply H; lia).
  assert (0 <= f (Z.of_nat n))%Q by (apply H; lia). lra.
Qed.

Lemma sumQ_ge_term n f k :
  (forall j, 0 <= j < Z.of_nat n -> (0 <= f j)%Q) -> 0 <= k < Z.of_nat n -> (f k <= sumQ n f)%Q.
Proof.
  induction n as [|n IH]; intros H Hk; [lia|].
  rewrite sumQ_S.
  assert (0 <= sumQ n f)%Q by (apply sumQ_nonneg; intros; apply H; lia).
  assert (0 <= f (Z.of_nat n))%Q by (apply H; lia).
  destruct (Z.eq_dec k (Z.of_nat n)) as [->|Hne]; [lra|].
  assert (f k <= sumQ n f)%Q by (apply IH; [intros; apply H; lia|lia]). lra.
Qed.

Lemma sumQ_pos n f :
  (0 < n)%nat -> (forall k, 0 <= k < Z.of_nat n -> (0 < f k)%Q) -> (0 < sumQ n f)%Q.
Proof.
  intros Hn H.
  assert (f 0%Z <= sumQ n f)%Q.
  { apply sumQ_ge_term; [intros; apply Qlt_le_weak, H; lia|lia]. }
  assert (0 < f 0%Z)%Q by (apply H; lia). lra.
Qed.

(* peel the first term *)
Lemma sumQ_first m (g : Z -> Q) : (sumQ (S m) g == g 0%Z + sumQ m (fun k => g (k + 1)%Z))%Q.
Proof.
  revert g. induction m as [|m IHm]; intros g.
  - rewrite sumQ_S. cbn. ring.
  - rewrite sumQ_S, IHm, (sumQ_S m). replace (Z.of_nat m + 1)%Z with (Z.of_nat (S m)) by lia. ring.
Qed.

(* re-indexing by reversal *)
Lemma sumQ_rev n (f : Z -> Q) : (sumQ n (fun k => f (Z.of_nat n - 1 - k)%Z) == sumQ n f)%Q.
Proof.
  revert f. induction n as [|n IH]; intros f; [reflexivity|].
  rewrite sumQ_S, (sumQ_first n f).
  replace (Z.of_nat (S n) - 1 - Z.of_nat n)%Z with 0%Z by lia.
  rewrite <- (IH (fun k => f (k + 1)%Z)).
  assert (H : (sumQ n (fun k => f (Z.of_nat (S n) - 1 - k)%Z)
               == sumQ n (fun k => f (Z.of_nat n - 1 - k + 1)%Z))%Q).
  { apply sumQ_ext. intros k Hk.
    replace (Z.of_nat (S n) - 1 - k)%Z with (Z.of_nat n - 1 - k + 1)%Z by lia. reflexivity. }
  rewrite H. ring.
Qed.
