(* C18 -- proofs about padded_convolve, the kernels and optimize_window. *)
From Coq Require Import ZArith QArith Qabs List Bool Lia ZifyBool Lqa Setoid Morphisms.
From PB Require Import lib.PySlice C18.Model C18.SumQ C18.PadProofs.
Import ListNotations.
Open Scope Z_scope.
Ltac Zify.zify_post_hook ::= Z.to_euclidean_division_equations.

(* ------------------------------------------------------------------ padded_convolve: length *)
Lemma conv_padding_pos n m : 1 <= n -> 1 <= m -> 1 <= conv_padding n m.
Proof. unfold conv_padding. lia. Qed.

Lemma mid_slice_len (v : vec) p n :
  1 <= p -> 0 <= n -> vlen v = n + 2 * p -> vlen (vslice v (Some p) (Some (- p))) = n.
Proof. intros. unfold vslice; cbn [vlen]. rewrite len_mid by lia. lia. Qed.
Lemma mid_slice_get (v : vec) p n i :
  1 <= p -> 0 <= n -> vlen v = n + 2 * p -> vget (vslice v (Some p) (Some (- p))) i = vget v (p + i).
Proof. intros. unfold vslice; cbn [vget]. unfold sl_start, clamp. destruct (p <? 0) eqn:?; try lia.
  f_equal. lia. Qed.

(* C18_convolve_len, with the index formula of every output point *)
Theorem convolve_len y k m :
  1 <= vlen y -> 1 <= vlen k -> mode_ok m (conv_padding (vlen y) (vlen k)) ->
  let p := conv_padding (vlen y) (vlen k) in
  exists yp out, pad_edges y p m = Ok yp /\ vlen yp = vlen y + 2 * p /\
    padded_convolve y k m = Ok out /\ vlen out = vlen y /\
    forall i, vget out i = conv_full yp k (p + i + (vlen k - 1) / 2).
Proof.
  intros Hn Hm Hok p. pose proof (conv_padding_pos _ _ Hn Hm) as Hp. fold p in Hp, Hok.
  destruct (pad_len_interior y p m Hn ltac:(lia) Hok) as (yp & E & L & _).
  exists yp. unfold padded_convolve. fold p. rewrite E. eexists. repeat split; try eassumption.
  - apply (mid_slice_len _ p (vlen y)); cbn [conv_same vlen]; lia.
  - intros i. rewrite (mid_slice_get _ p (vlen y)) by (cbn [conv_same vlen]; lia). reflexivity.
Qed.

(* ------------------------------------------------------------------ constant data *)
Definition const_on (v : vec) (c : Q) : Prop := forall i, 0 <= i < vlen v -> (vget v i == c)%Q.

(* the taps of output point n that fall inside the (padded) array *)
Definition tap_in (len n j : Z) : bool := (0 <=? n - j) && (n - j <? len).

Lemma conv_full_const a k c n :
  const_on a c ->
  (conv_full a k n == c * sumQ (Z.to_nat (vlen k)) (fun j => if tap_in (vlen a) n j then vget k j else 0))%Q.
Proof.
  intros Hc. unfold conv_full. rewrite <- sumQ_scale. apply sumQ_ext. intros j Hj. unfold tap_in.
  destruct ((0 <=? n - j) && (n - j <? vlen a)) eqn:E; [|ring].
  rewrite (Hc (n - j)) by lia. ring.
Qed.

(* general characterisation (every kernel length): the output is c times the kernel mass that
   lands inside the padded array *)
Theorem convolve_const_general y k m c yp out :
  1 <= vlen y -> 1 <= vlen k ->
  let p := conv_padding (vlen y) (vlen k) in
  pad_edges y p m = Ok yp -> vlen yp = vlen y + 2 * p -> const_on yp c ->
  padded_convolve y k m = Ok out ->
  forall i, 0 <= i < vlen y ->
    (vget out i == c * sumQ (Z.to_nat (vlen k))
                     (fun j => if tap_in (vlen y + 2 * p) (p + i + (vlen k - 1) / 2) j then vget k j else 0))%Q.
Proof.
  intros Hn Hm p E L Hc Eo i Hi. pose proof (conv_padding_pos _ _ Hn Hm) as Hp. fold p in Hp.
  unfold padded_convolve in Eo. fold p in Eo. rewrite E in Eo. injection Eo as <-.
  rewrite (mid_slice_get _ p (vlen y)) by (cbn [conv_same vlen]; lia).
  cbn [conv_same vget]. rewrite (conv_full_const yp k c) by exact Hc. rewrite L. reflexivity.
Qed.

(* C18_convolve_const: all taps inside when M // 2 <= padding, in particular when M <= N *)
Theorem convolve_const y k m c yp out :
  1 <= vlen k -> vlen k <= vlen y ->
  let p := conv_padding (vlen y) (vlen k) in
  pad_edges y p m = Ok yp -> vlen yp = vlen y + 2 * p -> const_on yp c ->
  (vsum k == 1)%Q ->
  padded_convolve y k m = Ok out ->
  vlen out = vlen y /\ forall i, 0 <= i < vlen y -> (vget out i == c)%Q.
Proof.
  intros Hm Hmn p E L Hc Hk Eo. assert (Hn : 1 <= vlen y) by lia.
  pose proof (conv_padding_pos _ _ Hn Hm) as Hp. fold p in Hp.
  split.
  { unfold padded_convolve in Eo. fold p in Eo. rewrite E in Eo. injection Eo as <-.
    apply (mid_slice_len _ p (vlen y)); cbn [conv_same vlen]; lia. }
  intros i Hi.
  rewrite (convolve_const_general y k m c yp out Hn Hm E L Hc Eo i Hi). fold p.
  rewrite (sumQ_ext _ _ (vget k)).
  - unfold vsum in Hk. rewrite Hk. ring.
  - intros j Hj. unfold tap_in.
    assert (Hpd : vlen k / 2 <= p) by (unfold p, conv_padding; lia).
    destruct ((0 <=? p + i + (vlen k - 1) / 2 - j) && (p + i + (vlen k - 1) / 2 - j <? vlen y + 2 * p)) eqn:Et;
      [reflexivity|lia].
Qed.

(* constant-preserving pads *)
Lemma np_src_const src y p c :
  (forall n k, 1 <= n -> 0 <= src n k < n) -> 1 <= vlen y -> const_on y c -> const_on (np_src src y p) c.
Proof. intros Hs Hn Hc i Hi. unfold np_src in *; cbn [vlen vget] in *. apply Hc. apply Hs. lia. Qed.

Lemma extrapolate_const y p ew wl wr c :
  2 <= vlen y -> 1 <= p -> windows_of ew p = Some (wl, wr) -> 1 <= wl -> 1 <= wr -> const_on y c ->
  exists out, pad_edges y p (Extrapolate ew) = Ok out /\ vlen out = vlen y + 2 * p /\ const_on out c.
Proof.
  intros Hn Hp Hw Hl Hr Hc.
  assert (Hlin : linear_on y c 0) by (intros i Hi; rewrite (Hc i Hi); ring).
  destruct (get_edges_ok y p ew wl wr) as (l & r & E & Ll & Lr & El & Er); try lia; try assumption.
  unfold pad_edges. destruct (p =? 0) eqn:?; [lia|]. rewrite E.
  eexists; split; [reflexivity|]. unfold vcat3; cbn [vlen]. split; [lia|].
  intros i Hi; cbn [vlen vget] in *. rewrite Ll.
  destruct (i <? p) eqn:?.
  - destruct (Z.eq_dec wl 1) as [->|].
    + rewrite edge_window1 in El. injection El as <-. cbn [vfull vget]. apply Hc. lia.
    + destruct (edge_left_linear y p wl c 0) as (l' & El' & _ & Vl); try lia; try assumption.
      rewrite El in El'. injection El' as <-. rewrite Vl by lia. ring.
  - destruct (i <? p + vlen y) eqn:?; [apply Hc; lia|].
    destruct (Z.eq_dec wr 1) as [->|].
    + rewrite edge_window1 in Er. injection Er as <-. cbn [vfull vget]. apply Hc. lia.
    + destruct (edge_right_linear y p wr c 0) as (r' & Er' & _ & Vr); try lia; try assumption.
      rewrite Er in Er'. injection Er' as <-. rewrite Vr by lia. ring.
Qed.

(* the default mode of padded_convolve ('reflect'), end to end *)
Theorem convolve_const_reflect y k c :
  1 <= vlen k -> vlen k <= vlen y -> const_on y c -> (vsum k == 1)%Q ->
  exists out, padded_convolve y k (NpMode np_reflect) = Ok out /\ vlen out = vlen y /\ const_on out c.
Proof.
  intros Hm Hmn Hc Hk. assert (Hn : 1 <= vlen y) by lia.
  destruct (convolve_len y k (NpMode np_reflect) Hn Hm np_reflect_contract) as (yp & out & E & L & Eo & Lo & _).
  exists out. split; [exact Eo|].
  assert (Hcp : const_on yp c).
  { unfold pad_edges in E. pose proof (conv_padding_pos _ _ Hn Hm).
    destruct (conv_padding (vlen y) (vlen k) =? 0) eqn:?; [lia|].
    destruct (conv_padding (vlen y) (vlen k) <? 0) eqn:?; [lia|]. injection E as <-.
    apply np_src_const; [apply src_reflect_range|lia|exact Hc]. }
  destruct (convolve_const y k (NpMode np_reflect) c yp out Hm Hmn E L Hcp Hk Eo) as [H1 H2].
  split; [exact H1|]. intros i Hi. apply H2. lia.
Qed.

(* kernels longer than the data: the constant is NOT preserved in general (witness: N = 2,
   box kernel of length 5, any constant-preserving pad) *)
Definition wit_y : vec := of_zlist [1; 1].
Definition wit_k : vec := of_list [1 # 5; 1 # 5; 1 # 5; 1 # 5; 1 # 5]%Q.
Lemma convolve_long_kernel_witness :
  (vsum wit_k == 1)%Q /\
  exists out, padded_convolve wit_y wit_k (NpMode np_reflect) = Ok out /\ vlen out = 2 /\
              (vget out 0 == 4 # 5)%Q.
Proof.
  split; [vm_compute; reflexivity|]. eexists; split; [reflexivity|]. split; vm_compute; reflexivity.
Qed.

(* ------------------------------------------------------------------ kernels *)
Section KernelProofs.
  Variable ex : Q -> Q.
  Hypothesis ex_pos : forall x, (0 < ex x)%Q.
  Hypothesis ex_proper : forall x x', (x == x')%Q -> (ex x == ex x')%Q.

  Lemma div_pos a s : (0 < a -> 0 < s -> 0 < a / s)%Q.
  Proof. intros. unfold Qdiv. apply Qmult_lt_0_compat; [assumption|]. apply Qinv_lt_0_compat; assumption. Qed.
  Lemma div_nonneg a s : (0 <= a -> 0 < s -> 0 <= a / s)%Q.
  Proof. intros. unfold Qdiv. apply Qmult_le_0_compat; [assumption|].
    apply Qlt_le_weak, Qinv_lt_0_compat; assumption. Qed.

  Theorem gaussian_kernel_props (window_size : Z) (sigma : Q) :
    let g := gaussian_kernel ex window_size sigma in
    vlen g = Z.max 1 window_size /\
    (forall i, 0 <= i < vlen g -> (0 < vget g i)%Q) /\
    (forall i, 0 <= i < vlen g -> (vget g (vlen g - 1 - i) == vget g i)%Q) /\
    (vsum g == 1)%Q.
  Proof.
    intros g. subst g. unfold gaussian_kernel. set (ws := Z.max 1 window_size).
    cbn [vlen vget]. set (s := sumQ (Z.to_nat ws) (gauss_raw ex ws sigma)).
    assert (Hs : (0 < s)%Q).
    { apply sumQ_pos; [lia|]. intros. unfold gauss_raw. apply ex_pos. }
    split; [reflexivity|]. split; [|split].
    - intros i Hi. apply div_pos; [unfold gauss_raw; apply ex_pos|exact Hs].
    - intros i Hi. apply Qdiv_comp; [|reflexivity]. unfold gauss_raw. apply ex_proper.
      set (h := ((inject_Z ws - 1) / 2)%Q).
      assert (E : ((inject_Z (ws - 1 - i) - h) * (inject_Z (ws - 1 - i) - h)
                   == (inject_Z i - h) * (inject_Z i - h))%Q).
      { unfold Z.sub. rewrite !inject_Z_plus, !inject_Z_opp. change (inject_Z 1) with 1%Q.
        subst h. field. }
      rewrite E. reflexivity.
    - unfold vsum. cbn [vlen vget]. rewrite sumQ_div. fold s. field. lra.
  Qed.

  Lemma moll_raw_nonneg w i : (0 <= moll_raw ex w i)%Q.
  Proof. unfold moll_raw. destruct ((1 <=? i) && (i <? 2 * w)); [apply Qlt_le_weak, ex_pos|lra]. Qed.

  Theorem mollifier_kernel_props (w : Z) :
    1 <= w ->
    let g := mollifier_kernel ex w in
    vlen g = 2 * w + 1 /\
    (forall i, 0 <= i < vlen g -> (0 <= vget g i)%Q) /\
    (vget g 0 == 0 /\ vget g (2 * w) == 0)%Q /\
    (forall i, 0 <= i < vlen g -> (vget g (vlen g - 1 - i) == vget g i)%Q) /\
    (vsum g == 1)%Q.
  Proof.
    intros Hw g. subst g. unfold mollifier_kernel. cbn [vlen vget].
    set (s := sumQ (Z.to_nat (2 * w + 1)) (moll_raw ex w)).
    assert (Hs : (0 < s)%Q).
    { assert (moll_raw ex w w <= s)%Q.
      { apply sumQ_ge_term; [intros; apply moll_raw_nonneg|lia]. }
      assert (0 < moll_raw ex w w)%Q.
      { unfold moll_raw. destruct ((1 <=? w) && (w <? 2 * w)) eqn:?; [apply ex_pos|lia]. }
      lra. }
    split; [reflexivity|]. split; [|split; [|split]].
    - intros i Hi. apply div_nonneg; [apply moll_raw_nonneg|exact Hs].
    - unfold moll_raw. destruct ((1 <=? 0) && (0 <? 2 * w)) eqn:?; [lia|].
      destruct ((1 <=? 2 * w) && (2 * w <? 2 * w)) eqn:?; [lia|]. unfold Qdiv. split; ring.
    - intros i Hi. apply Qdiv_comp; [|reflexivity]. unfold moll_raw.
      replace (2 * w + 1 - 1 - i) with (2 * w - i) by lia.
      destruct ((1 <=? 2 * w - i) && (2 * w - i <? 2 * w)) eqn:E1,
               ((1 <=? i) && (i <? 2 * w)) eqn:E2; try lia; [|reflexivity].
      apply ex_proper.
      assert (E : ((inject_Z (2 * w - i - w) / inject_Z w) * (inject_Z (2 * w - i - w) / inject_Z w)
                   == (inject_Z (i - w) / inject_Z w) * (inject_Z (i - w) / inject_Z w))%Q).
      { replace (2 * w - i - w) with (- (i - w)) by lia. rewrite inject_Z_opp. unfold Qdiv. ring. }
      rewrite E. reflexivity.
    - unfold vsum. cbn [vlen vget]. rewrite sumQ_div. fold s. field. lra.
  Qed.
End KernelProofs.

(* ------------------------------------------------------------------ optimize_window *)
Theorem optimize_window_ge1 close inc max_hits max_hw min_hw r :
  optimize_window close inc max_hits max_hw min_hw = Ok r -> 1 <= r.
Proof. unfold optimize_window. destruct (inc =? 0); [discriminate|]. intros H. injection H as <-. lia. Qed.

Theorem optimize_window_total close inc max_hits max_hw min_hw :
  inc <> 0 -> exists r, optimize_window close inc max_hits max_hw min_hw = Ok r.
Proof. intros. unfold optimize_window. destruct (inc =? 0) eqn:?; [lia|]. eexists; reflexivity. Qed.

Lemma range_fuel_bounds fuel cur stop step h :
  0 < step -> In h (range_fuel fuel cur stop step) -> cur <= h < stop.
Proof.
  intros Hs. revert cur. induction fuel as [|f IH]; intros cur Hin; [destruct Hin|].
  cbn [range_fuel] in Hin. destruct (0 <? step) eqn:?; [|lia].
  destruct (cur <? stop) eqn:?; [|destruct Hin].
  destruct Hin as [<-|Hin]; [lia|]. apply IH in Hin. lia.
Qed.

Lemma ow_loop_cases close inc max_hits l hw hits best :
  let r := ow_loop close inc max_hits l hw hits best in
  r = hw \/ exists h, In h l /\ (r = h \/ r = h - inc \/ (hits <> 0 /\ r = best)).
Proof.
  revert hw hits best. induction l as [|h l IH]; intros hw hits best; cbn [ow_loop]; [left; reflexivity|].
  right. destruct (close h).
  - destruct (max_hits <=? hits + 1) eqn:?.
    + exists h. split; [left; reflexivity|]. destruct (hits =? 0) eqn:?; [right; left; reflexivity|].
      right; right. split; [lia|reflexivity].
    + destruct (IH h (hits + 1) (if hits =? 0 then h - inc else best)) as [E|(h' & Hin & E)].
      * exists h. split; [left; reflexivity|]. left. exact E.
      * destruct E as [E|[E|[_ E]]].
        -- exists h'. split; [right; exact Hin|]. left; exact E.
        -- exists h'. split; [right; exact Hin|]. right; left; exact E.
        -- destruct (hits =? 0) eqn:?.
           ++ exists h. split; [left; reflexivity|]. right; left. exact E.
           ++ exists h. split; [left; reflexivity|]. right; right. split; [lia|exact E].
  - destruct (IH h 0 best) as [E|(h' & Hin & E)].
    + exists h. split; [left; reflexivity|]. left. exact E.
    + destruct E as [E|[E|[E _]]]; [| |lia].
      * exists h'. split; [right; exact Hin|]. left; exact E.
      * exists h'. split; [right; exact Hin|]. right; left; exact E.
Qed.

(* with a positive increment the result is 1 (empty scan) or lies in [min_half_window, max_half_window) *)
Theorem optimize_window_bounds close inc max_hits max_hw min_hw r :
  1 <= inc -> 1 <= min_hw ->
  optimize_window close inc max_hits max_hw min_hw = Ok r ->
  r = 1 \/ min_hw <= r < max_hw.
Proof.
  intros Hi Hm. unfold optimize_window. destruct (inc =? 0) eqn:?; [lia|]. intros H. injection H as <-.
  destruct (ow_loop_cases close inc max_hits (py_range (min_hw + inc) max_hw inc) 1 0 min_hw)
    as [E|(h & Hin & E)].
  - rewrite E. left. lia.
  - apply range_fuel_bounds in Hin; [|lia]. right. destruct E as [E|[E|[E _]]]; [| |lia]; rewrite E; lia.
Qed.
