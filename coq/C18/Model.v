(* C18 -- executable model of the padding / kernel helpers of pybaselines/utils.py
   (gaussian_kernel, _mollifier_kernel, _get_edges, pad_edges, padded_convolve, optimize_window;
   the 2-D helpers are in C18/Model2D.v).  Values are rationals (Q); 1-D arrays are a length and an
   index function.  Models only -- the proofs are in C18/Proofs*.v. *)
From Coq Require Import ZArith QArith Qabs List Bool Lia ZifyBool.
From PB Require Import lib.PySlice.
Import ListNotations.
Open Scope Z_scope.

(* ------------------------------------------------------------------ arrays *)
Record vec := mkvec { vlen : Z; vget : Z -> Q }.

Definition vempty : vec := mkvec 0 (fun _ => 0%Q).
Definition vfull (n : Z) (c : Q) : vec := mkvec n (fun _ => c).
Definition arange (n : Z) : vec := mkvec (Z.max 0 n) (fun i => inject_Z i).
(* v[a:b] with Python clamping of both bounds (PySlice) *)
Definition vslice (v : vec) (a b : option Z) : vec :=
  mkvec (sl_len (vlen v) a b) (fun i => vget v (sl_start (vlen v) a + i)).
(* np.concatenate((l, y, r)) *)
Definition vcat3 (l y r : vec) : vec :=
  mkvec (vlen l + vlen y + vlen r)
        (fun i => if i <? vlen l then vget l i
                  else if i <? vlen l + vlen y then vget y (i - vlen l)
                  else vget r (i - vlen l - vlen y)).
Definition vmap (f : Q -> Q) (v : vec) : vec := mkvec (vlen v) (fun i => f (vget v i)).

Definition of_list (l : list Q) : vec :=
  mkvec (Z.of_nat (length l)) (fun i => nth (Z.to_nat i) l 0%Q).
Definition of_zlist (l : list Z) : vec := of_list (map inject_Z l).
Definition vtab (v : vec) : list Q :=
  map (fun k => vget v (Z.of_nat k)) (seq 0 (Z.to_nat (vlen v))).

(* finite sums; reduced at every step so that evaluation stays small (Qred x == x) *)
Fixpoint sumQ (n : nat) (f : Z -> Q) : Q :=
  match n with O => 0%Q | S n' => Qred (sumQ n' f + f (Z.of_nat n'))%Q end.
Definition vsum (v : vec) : Q := sumQ (Z.to_nat (vlen v)) (vget v).

(* ------------------------------------------------------------------ results *)
Inductive err := ValueErr | TypeErr | NotImpl.
Inductive res (A : Type) := Ok (a : A) | Err (e : err).
Arguments Ok {A} a.
Arguments Err {A} e.

(* ------------------------------------------------------------------ degree-1 least squares
   np.polynomial.Polynomial.fit(x, y, 1) followed by poly(t): the least-squares line through the
   points (x_k, y_k).  The library computes it by a scaled lstsq; the model is the exact centred
   closed form  ybar + Sxy/Sxx (t - xbar).  Different lengths of x and y raise in the library. *)
Record line := mkline { l_xbar : Q; l_ybar : Q; l_slope : Q }.

Definition fit_line (xs ys : vec) : res line :=
  if negb (vlen xs =? vlen ys) then Err TypeErr
  else if vlen xs <=? 0 then Err TypeErr
  else
    let m := inject_Z (vlen xs) in
    let xbar := (vsum xs / m)%Q in
    let ybar := (vsum ys / m)%Q in
    let sxx := sumQ (Z.to_nat (vlen xs)) (fun k => (vget xs k - xbar) * (vget xs k - xbar))%Q in
    let sxy := sumQ (Z.to_nat (vlen xs)) (fun k => (vget xs k - xbar) * (vget ys k - ybar))%Q in
    Ok (mkline xbar ybar (sxy / sxx)%Q).

Definition line_at (l : line) (t : Q) : Q := (l_ybar l + l_slope l * (t - l_xbar l))%Q.

(* array[:] = values   for an array of length n: numpy broadcasting *)
Definition assign_all (n : Z) (v : vec) : res vec :=
  if vlen v =? n then Ok v
  else if vlen v =? 1 then Ok (vfull n (vget v 0))
  else Err ValueErr.

(* ------------------------------------------------------------------ _check_scalar(w, 2, True) *)
Definition resolve_windows (l : list Z) : option (Z * Z) :=
  match l with
  | [w] => Some (w, w)
  | [a; b] => Some (a, b)
  | _ => None
  end.

(* ------------------------------------------------------------------ _get_edges, mode='extrapolate'
   ew = None | Some [w] (scalar) | Some [wl; wr] (per side).  utils.py:244-286. *)
Definition edge_side (y : vec) (p : Z) (left : bool) (w : Z) : res vec :=
  let n := vlen y in
  let x := arange (n + 2 * p) in
  let xmid := vslice x (Some p) (Some (- p)) in
  if w =? 1 then Ok (vfull p (vget y (if left then 0 else pos n (-1))))
  else
    let xs := if left then vslice xmid None (Some w) else vslice xmid (Some (- w)) None in
    let ys := if left then vslice y None (Some w) else vslice y (Some (- w)) None in
    let ts := if left then vslice x None (Some p) else vslice x (Some (- p)) None in
    match fit_line xs ys with
    | Err e => Err e
    | Ok l => assign_all p (vmap (line_at l) ts)
    end.

Definition get_edges (y : vec) (p : Z) (ew : option (list Z)) : res (vec * vec) :=
  if p =? 0 then Ok (vempty, vempty)
  else if p <? 0 then Err ValueErr
  else
    match resolve_windows (match ew with None => [p] | Some l => l end) with
    | None => Err ValueErr
    | Some (wl, wr) =>
        if (wl <=? 0) || (wr <=? 0) then Err ValueErr
        else
          match edge_side y p true wl, edge_side y p false wr with
          | Ok l, Ok r => Ok (l, r)
          | Err e, _ => Err e
          | _, Err e => Err e
          end
    end.

(* ------------------------------------------------------------------ np.pad(y, p, mode)
   library code: an arbitrary function, used through the contract [np_contract] only.  Five modes
   are also given as concrete index functions so that padded_convolve can be executed. *)
Definition np_contract (f : vec -> Z -> vec) : Prop :=
  forall y p, 0 <= p -> 1 <= vlen y ->
    vlen (f y p) = vlen y + 2 * p /\
    forall i, 0 <= i < vlen y -> vget (f y p) (p + i) = vget y i.

Definition np_src (src : Z -> Z -> Z) (y : vec) (p : Z) : vec :=
  mkvec (vlen y + 2 * p) (fun i => vget y (src (vlen y) (i - p))).
Definition src_edge (n k : Z) : Z := Z.max 0 (Z.min (n - 1) k).
Definition src_reflect (n k : Z) : Z :=
  if n <=? 1 then 0 else let q := k mod (2 * n - 2) in if q <? n then q else 2 * n - 2 - q.
Definition src_symmetric (n k : Z) : Z :=
  let q := k mod (2 * n) in if q <? n then q else 2 * n - 1 - q.
Definition src_wrap (n k : Z) : Z := k mod n.
Definition np_edge := np_src src_edge.
Definition np_reflect := np_src src_reflect.
Definition np_symmetric := np_src src_symmetric.
Definition np_wrap := np_src src_wrap.
Definition np_constant (c : Q) (y : vec) (p : Z) : vec :=
  mkvec (vlen y + 2 * p) (fun i => if (p <=? i) && (i <? p + vlen y) then vget y (i - p) else c).

Inductive mode :=
| Extrapolate (ew : option (list Z))
| NpMode (f : vec -> Z -> vec).

(* ------------------------------------------------------------------ pad_edges, utils.py:322-334 *)
Definition pad_edges (y : vec) (p : Z) (m : mode) : res vec :=
  if p =? 0 then Ok y
  else
    match m with
    | Extrapolate ew =>
        match get_edges y p ew with
        | Ok (l, r) => Ok (vcat3 l y r)
        | Err e => Err e
        end
    | NpMode f => if p <? 0 then Err ValueErr else Ok (f y p)
    end.

(* ------------------------------------------------------------------ padded_convolve, utils.py:551-555
   scipy.signal.convolve(a, k, mode='same'): the slice of the full convolution that is centred and
   has the length of the FIRST argument:  same[i] = full[i + (M-1)//2]. *)
Definition conv_full (a k : vec) (n : Z) : Q :=
  sumQ (Z.to_nat (vlen k))
       (fun j => if (0 <=? n - j) && (n - j <? vlen a) then vget k j * vget a (n - j) else 0)%Q.
Definition conv_same (a k : vec) : vec :=
  mkvec (vlen a) (fun i => conv_full a k (i + (vlen k - 1) / 2)).

(* ceil(min(len(data), len(kernel)) / 2) *)
Definition conv_padding (n m : Z) : Z := (Z.min n m + 1) / 2.

Definition padded_convolve (y k : vec) (m : mode) : res vec :=
  let p := conv_padding (vlen y) (vlen k) in
  match pad_edges y p m with
  | Err e => Err e
  | Ok yp => Ok (vslice (conv_same yp k) (Some p) (Some (- p)))
  end.

(* ------------------------------------------------------------------ kernels, utils.py:146-201
   [ex] stands for exp (abstract). *)
Section Kernels.
  Variable ex : Q -> Q.

  Definition gauss_raw (ws : Z) (sigma : Q) (i : Z) : Q :=
    let x := (inject_Z i - (inject_Z ws - 1) / 2)%Q in
    ex (- (1 # 2) * (x * x) / (sigma * sigma))%Q.
  Definition gaussian_kernel (window_size : Z) (sigma : Q) : vec :=
    let ws := Z.max 1 window_size in
    let s := sumQ (Z.to_nat ws) (gauss_raw ws sigma) in
    mkvec ws (fun i => gauss_raw ws sigma i / s)%Q.

  Definition moll_raw (w : Z) (i : Z) : Q :=
    if (1 <=? i) && (i <? 2 * w) then
      let x := (inject_Z (i - w) / inject_Z w)%Q in ex (- 1 / (1 - x * x))%Q
    else 0%Q.
  Definition mollifier_kernel (w : Z) : vec :=
    let n := 2 * w + 1 in
    let s := sumQ (Z.to_nat n) (moll_raw w) in
    mkvec n (fun i => moll_raw w i / s)%Q.
End Kernels.

(* ------------------------------------------------------------------ optimize_window, utils.py:790-820
   [close hw] is the outcome of  relative_difference(opening, new_opening) < window_tol  in the
   iteration with loop value hw (grey_opening is library code: an oracle). *)
Fixpoint range_fuel (fuel : nat) (cur stop step : Z) : list Z :=
  match fuel with
  | O => []
  | S f => if (if 0 <? step then cur <? stop else stop <? cur)
           then cur :: range_fuel f (cur + step) stop step else []
  end.
Definition py_range (start stop step : Z) : list Z :=
  range_fuel (Z.to_nat (Z.abs (stop - start)) + 1) start stop step.

(* state: (half_window, hits, best) *)
Fixpoint ow_loop (close : Z -> bool) (inc max_hits : Z) (l : list Z) (hw hits best : Z) : Z :=
  match l with
  | [] => hw
  | h :: l' =>
      if close h then
        let best' := if hits =? 0 then h - inc else best in
        let hits' := hits + 1 in
        if max_hits <=? hits' then best' else ow_loop close inc max_hits l' h hits' best'
      else ow_loop close inc max_hits l' h 0 best
  end.

Definition optimize_window (close : Z -> bool) (inc max_hits max_hw min_hw : Z) : res Z :=
  if inc =? 0 then Err ValueErr
  else Ok (Z.max (ow_loop close inc max_hits (py_range (min_hw + inc) max_hw inc) 1 0 min_hw) 1).

(* default max_half_window = (N - 1) // 2 *)
Definition default_max_hw (n : Z) : Z := (n - 1) / 2.
