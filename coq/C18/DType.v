(* C18 -- element types.  What dtype the helpers return for each input dtype / container, and the
   typed view of the value model: storing a value into an array of an integer dtype truncates
   toward zero (numpy assignment cast), storing into a float dtype keeps it (rounding is outside
   the exact model).  Models only; proofs in C18/DTypeProofs.v. *)
From Coq Require Import ZArith QArith Qround List Bool Lia.
From PB Require Import lib.PySlice C18.Model C18.Model2D.
Import ListNotations.
Open Scope Z_scope.

Inductive dtype := DBool | I8 | I16 | I32 | I64 | U8 | U16 | U32 | U64 | F16 | F32 | F64.
Definition all_dtypes : list dtype := [DBool; I8; I16; I32; I64; U8; U16; U32; U64; F16; F32; F64].

Definition dcode (d : dtype) : Z :=
  match d with DBool => 0 | I8 => 1 | I16 => 2 | I32 => 3 | I64 => 4 | U8 => 5 | U16 => 6 | U32 => 7
             | U64 => 8 | F16 => 9 | F32 => 10 | F64 => 11 end.
Definition dtype_of_code (c : Z) : dtype :=
  nth (Z.to_nat c) all_dtypes F64.

Inductive kind := KBool | KUInt | KInt | KFloat.
Definition dkind (d : dtype) : kind :=
  match d with DBool => KBool | I8 | I16 | I32 | I64 => KInt | U8 | U16 | U32 | U64 => KUInt
             | F16 | F32 | F64 => KFloat end.
Definition dbits (d : dtype) : Z :=
  match d with DBool => 1 | I8 | U8 => 8 | I16 | U16 | F16 => 16 | I32 | U32 | F32 => 32
             | I64 | U64 | F64 => 64 end.
Definition is_float (d : dtype) : bool := match dkind d with KFloat => true | _ => false end.

Definition int_of_bits (b : Z) : dtype := if b <=? 8 then I8 else if b <=? 16 then I16 else if b <=? 32 then I32 else I64.
Definition uint_of_bits (b : Z) : dtype := if b <=? 8 then U8 else if b <=? 16 then U16 else if b <=? 32 then U32 else U64.
Definition float_of_bits (b : Z) : dtype := if b <=? 16 then F16 else if b <=? 32 then F32 else F64.
(* the smallest float every value of an integer dtype casts to safely *)
Definition float_for_int_bits (b : Z) : Z := if b <=? 8 then 16 else if b <=? 16 then 32 else 64.

(* numpy.result_type on these twelve dtypes (NEP 50, array operands) *)
Definition result_type (a b : dtype) : dtype :=
  match dkind a, dkind b with
  | KBool, _ => b
  | _, KBool => a
  | KFloat, KFloat => float_of_bits (Z.max (dbits a) (dbits b))
  | KFloat, _ => float_of_bits (Z.max (dbits a) (float_for_int_bits (dbits b)))
  | _, KFloat => float_of_bits (Z.max (float_for_int_bits (dbits a)) (dbits b))
  | KInt, KInt => int_of_bits (Z.max (dbits a) (dbits b))
  | KUInt, KUInt => uint_of_bits (Z.max (dbits a) (dbits b))
  | KUInt, KInt => if dbits a <? dbits b then b else if dbits a =? 64 then F64 else int_of_bits (2 * dbits a)
  | KInt, KUInt => if dbits b <? dbits a then a else if dbits b =? 64 then F64 else int_of_bits (2 * dbits b)
  end.

(* np.asarray(data): arrays keep their dtype, sequences of Python scalars get the default one *)
Inductive container := Arr (d : dtype) | PyInts | PyBools | PyFloats.
Definition asarray_dtype (c : container) : dtype :=
  match c with Arr d => d | PyInts => I64 | PyBools => DBool | PyFloats => F64 end.

(* ---- output dtypes of the helpers, as coded ---- *)
(* pad_edges: pad_length 0 returns the input array; 'extrapolate' concatenates the float64 edges
   of _get_edges with the data; np.pad keeps the dtype *)
Definition pad_edges_dtype (m : mode) (p : Z) (d : dtype) : dtype :=
  if p =? 0 then d else match m with Extrapolate _ => result_type F64 d | NpMode _ => d end.
(* _get_edges: np.array([]) / np.empty(pad_length) are float64; np.pad slices keep the dtype *)
Definition get_edges_dtype (m : mode) (p : Z) (d : dtype) : dtype :=
  if p =? 0 then F64 else match m with Extrapolate _ => F64 | NpMode _ => d end.
(* padded_convolve: scipy.signal.convolve promotes the padded data and the kernel *)
Definition convolve_dtype (m : mode) (n mk : Z) (d kd : dtype) : dtype :=
  result_type (pad_edges_dtype m (conv_padding n mk) d) kd.
(* pad_edges2d: _extrapolate2d fills np.empty(shape) (float64); np.pad keeps the dtype *)
Definition pad2d_dtype (extrapolate : bool) (d : dtype) : dtype := if extrapolate then F64 else d.
(* gaussian_kernel / _mollifier_kernel: float64 whatever the scalar types of the arguments *)
Definition kernel_dtype : dtype := F64.

(* ---- storing a rational into an array of dtype d ---- *)
Definition qtrunc (q : Q) : Z := if Qle_bool 0 q then Qfloor q else Qceiling q.
Definition store (d : dtype) (q : Q) : Q :=
  match dkind d with
  | KFloat => q
  | KBool => if Qeq_bool q 0 then 0%Q else 1%Q
  | _ => inject_Z (qtrunc q)
  end.

(* the typed model: values of the exact model stored into the output dtype *)
Definition pad_edges_typed (y : vec) (c : container) (p : Z) (m : mode) : res (vec * dtype) :=
  match pad_edges y p m with
  | Ok out => let od := pad_edges_dtype m p (asarray_dtype c) in Ok (vmap (store od) out, od)
  | Err e => Err e
  end.
Definition get_edges_typed (y : vec) (c : container) (p : Z) (m : mode) : res (vec * vec * dtype) :=
  let od := get_edges_dtype m p (asarray_dtype c) in
  match m with
  | Extrapolate ew =>
      match get_edges y p ew with
      | Ok (l, r) => Ok (vmap (store od) l, vmap (store od) r, od)
      | Err e => Err e
      end
  | NpMode f =>
      if p =? 0 then Ok (vempty, vempty, od)
      else if p <? 0 then Err ValueErr
      else let padded := f y p in
           Ok (vslice padded None (Some p), vslice padded (Some (- p)) None, od)
  end.
Definition padded_convolve_typed (y k : vec) (c kc : container) (m : mode) : res (vec * dtype) :=
  match padded_convolve y k m with
  | Ok out => let od := convolve_dtype m (vlen y) (vlen k) (asarray_dtype c) (asarray_dtype kc) in
              Ok (vmap (store od) out, od)
  | Err e => Err e
  end.

(* a DIFFERENT way of building the extrapolated output: allocate like the input (np.empty_like)
   and assign the three pieces -- the values are stored into the INPUT dtype.  Not what the code
   does; kept to show (DTypeProofs.typed_inherit_refuted) that it breaks the property. *)
Definition pad_edges_inherit (y : vec) (c : container) (p : Z) (m : mode) : res (vec * dtype) :=
  match pad_edges y p m with
  | Ok out => let od := asarray_dtype c in Ok (vmap (store od) out, od)
  | Err e => Err e
  end.
