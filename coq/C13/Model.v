(* C13 -- executable aliasing model of the wrapper / setup pipeline of pybaselines.
   Buffers have an identity (nat) and an owner (User: memory of the caller, Fresh: allocated by the
   library during the call).  Every function below mirrors one step of
   pybaselines/_validation.py, utils._sort_array, _algorithm_setup.py (1-D and 2-D):
   what it returns is either the SAME buffer as its input (a view / the object itself) or a buffer
   allocated from the counter.  Models only; proofs are in C13/Proofs.v. *)
From Coq Require Import List Bool Arith.
Import ListNotations.

Inductive owner := User | Fresh.
Inductive dtype := F64 | B8 | OtherDt.            (* float64 / bool / anything else (int, float32, ...) *)
Inductive shape := S1 | SVec2 | S2 | S3.          (* (N,) | (N,1) or (1,N) | (M,N) | (M,N,1),(1,M,N),(M,1,N) *)

Definition owner_eqb (a b : owner) := match a, b with User, User | Fresh, Fresh => true | _, _ => false end.
Definition dtype_eqb (a b : dtype) :=
  match a, b with F64, F64 | B8, B8 | OtherDt, OtherDt => true | _, _ => false end.
Definition shape_eqb (a b : shape) :=
  match a, b with S1, S1 | SVec2, SVec2 | S2, S2 | S3, S3 => true | _, _ => false end.

Record arr := { a_buf : nat; a_own : owner; a_dt : dtype; a_shape : shape; a_contig : bool }.

(* what the caller hands in: None, a Python list (never shares memory with anything), an ndarray *)
Inductive pyobj := PNone | PList (dt : dtype) (sh : shape) | PArr (a : arr).

(* allocation: the state is the next unused buffer identity *)
Definition alloc (dt : dtype) (sh : shape) (n : nat) : arr * nat :=
  ({| a_buf := n; a_own := Fresh; a_dt := dt; a_shape := sh; a_contig := true |}, S n).

Definition dt_ok (req : option dtype) (d : dtype) : bool :=
  match req with None => true | Some r => dtype_eqb r d end.
Definition dt_out (req : option dtype) (d : dtype) : dtype :=
  match req with None => d | Some r => r end.

(* np.asarray / np.asarray_chkfinite (obj, dtype=req, order='C' iff orderC): no copy iff the object is
   an ndarray of the requested dtype (and C-contiguous when order='C') *)
Definition asarray (req : option dtype) (orderC : bool) (o : pyobj) (n : nat) : arr * nat :=
  match o with
  | PArr a => if dt_ok req (a_dt a) && (negb orderC || a_contig a) then (a, n)
              else alloc (dt_out req (a_dt a)) (a_shape a) n
  | PList dt sh => alloc (dt_out req dt) sh n
  | PNone => alloc (dt_out req F64) S1 n
  end.

(* ndarray.ravel(): a view iff C-contiguous, otherwise a copy *)
Definition ravel (a : arr) (n : nat) : arr * nat :=
  if a_contig a then ({| a_buf := a_buf a; a_own := a_own a; a_dt := a_dt a; a_shape := S1; a_contig := true |}, n)
  else alloc (a_dt a) S1 n.

(* reshape that only drops unit axes: always a view *)
Definition drop_unit (a : arr) : arr :=
  {| a_buf := a_buf a; a_own := a_own a; a_dt := a_dt a; a_shape := S2; a_contig := a_contig a |}.

(* _validation._check_array: asarray, then ravel for (N,1)/(1,N) when ensure_1d, reshape for 3-D when two_d *)
Definition check_array (req : option dtype) (orderC two_d : bool) (o : pyobj) (n : nat) : arr * nat :=
  let '(a, n1) := asarray req orderC o n in
  if two_d then (match a_shape a with S3 => drop_unit a | _ => a end, n1)
  else match a_shape a with SVec2 => ravel a n1 | _ => (a, n1) end.

(* ndarray.copy() *)
Definition copy (a : arr) (n : nat) : arr * nat := alloc (a_dt a) (a_shape a) n.

(* utils._sort_array / _sort_array2d: the object itself when there is no sort order, otherwise fancy
   indexing, which always allocates *)
Definition sort_array (no_order : bool) (a : arr) (n : nat) : arr * nat :=
  if no_order then (a, n) else alloc (a_dt a) (a_shape a) n.

(* the `inner` wrapper of _Algorithm._register / _Algorithm2D._register: what the method body receives
   as `data`:  _check_sized_array(dtype=None) -> _sort_array (unless skip_sorting) -> np.asarray(dtype=float) *)
Definition wrapper_y (two_d skip_sorting no_order : bool) (data : pyobj) (n : nat) : arr * nat :=
  let '(y, n1) := check_array None false two_d data n in
  let '(y2, n2) := if skip_sorting then (y, n1) else sort_array no_order y n1 in
  asarray (Some F64) false (PArr y2) n2.

(* the four weight-producing setups; they differ in the dtype/order they request *)
Inductive setup := Whittaker | Polynomial | Spline | Classification.
Definition setup_req (two_d : bool) (k : setup) : option dtype * bool :=
  match k with
  | Whittaker | Polynomial => (Some F64, false)      (* dtype=float since a685ce6 *)
  | Spline => (Some F64, negb two_d)                 (* 1-D: dtype=float, order='C'; 2-D: dtype=float *)
  | Classification => (Some B8, false)
  end.
(* does the 2-D setup ravel the weights (polynomial always; whittaker when not using the SVD form) *)
Definition setup_ravels (two_d ravel_flag : bool) (k : setup) : bool :=
  two_d && match k with Polynomial => true | Whittaker => ravel_flag | _ => false end.

(* _check_optional_array(size, weights, copy_input=copy_weights, ...) followed by
   `if self._sort_order is not None and weights is not None: weight_array = weight_array[self._sort_order]`
   (and .ravel() in the 2-D polynomial / whittaker setups) *)
Definition setup_weights (two_d ravel_flag : bool) (k : setup) (copy_weights no_order : bool)
           (weights : pyobj) (n : nat) : arr * nat :=
  match weights with
  | PNone => alloc F64 (if two_d then S2 else S1) n          (* np.ones *)
  | _ =>
    let '(req, oc) := setup_req two_d k in
    let '(w, n1) := check_array req oc two_d weights n in
    let '(w2, n2) := if copy_weights then copy w n1 else (w, n1) in
    let '(w3, n3) := sort_array no_order w2 n2 in
    if setup_ravels two_d ravel_flag k then ravel w3 n3 else (w3, n3)
  end.

(* the `y` a setup returns: the object itself (1-D), y.ravel() in the 2-D polynomial/whittaker setups *)
Definition setup_y (two_d ravel_flag : bool) (k : setup) (y : arr) (n : nat) : arr * nat :=
  if setup_ravels two_d ravel_flag k then ravel y n else (y, n).

(* utils.pad_edges(data, pad_length): np.asarray(data) returned as is when pad_length == 0 *)
Definition pad_edges (pad_is_zero : bool) (y : arr) (n : nat) : arr * nat :=
  if pad_is_zero then (y, n) else alloc (a_dt y) (a_shape y) n.

(* dictionaries: the dict object has its own identity; its values are shared by dict.copy() *)
Record pydict := { d_buf : nat; d_own : owner; d_vals : list arr }.
Definition dict_copy (d : pydict) (n : nat) : pydict * nat :=
  ({| d_buf := n; d_own := Fresh; d_vals := d_vals d |}, S n).
(* _setup_optimizer: {} / method_kwargs.copy() / method_kwargs itself *)
Definition setup_kwargs (copy_kwargs : bool) (kw : option pydict) (n : nat) : pydict * nat :=
  match kw with
  | None => ({| d_buf := n; d_own := Fresh; d_vals := [] |}, S n)
  | Some d => if copy_kwargs then dict_copy d n else (d, n)
  end.

(* ---------------------------------------------------------------- the finite flag space *)
Inductive okind := KNone | KList | KNd.
Record inp := { i_kind : okind; i_dt : dtype; i_shape : shape; i_contig : bool }.

Definition user_obj (id : nat) (i : inp) : pyobj :=
  match i_kind i with
  | KNone => PNone
  | KList => PList (i_dt i) (i_shape i)
  | KNd => PArr {| a_buf := id; a_own := User; a_dt := i_dt i; a_shape := i_shape i; a_contig := i_contig i |}
  end.

Definition all_bool := [true; false].
Definition all_dtype := [F64; B8; OtherDt].
Definition all_shape := [S1; SVec2; S2; S3].
Definition all_setup := [Whittaker; Polynomial; Spline; Classification].
Definition all_inp : list inp :=
  flat_map (fun k => flat_map (fun d => flat_map (fun s => map (fun c =>
    {| i_kind := k; i_dt := d; i_shape := s; i_contig := c |}) all_bool) all_shape) all_dtype) [KNone; KList; KNd].

(* buffers 0 .. first_fresh-1 belong to the caller *)
Definition first_fresh := 8.
Definition aliases (u : nat) (a : arr) : bool := Nat.eqb (a_buf a) u.
Definition is_nd (i : inp) := match i_kind i with KNd => true | _ => false end.

(* closed forms proved in Proofs.v *)
Definition y_alias_formula (two_d skip no_order : bool) (i : inp) : bool :=
  is_nd i && dtype_eqb (i_dt i) F64 && (skip || no_order)
  && (if two_d then true else match i_shape i with SVec2 => i_contig i | _ => true end).

Definition w_alias_formula (two_d rv : bool) (k : setup) (cw no_order : bool) (i : inp) : bool :=
  let '(req, oc) := setup_req two_d k in
  is_nd i && negb cw && no_order && dt_ok req (i_dt i) && (negb oc || i_contig i)
  && (if two_d then true else match i_shape i with SVec2 => i_contig i | _ => true end)
  && (if setup_ravels two_d rv k then i_contig i else true).

(* the question the write-site checker asks: can the weight output of a setup called with
   copy_weights = cw alias the caller's weights for SOME input/flag combination? *)
Definition setup_w_may_alias (cw : bool) : bool :=
  existsb (fun two_d => existsb (fun rv => existsb (fun k => existsb (fun no => existsb (fun i =>
    aliases 0 (fst (setup_weights two_d rv k cw no (user_obj 0 i) first_fresh)))
    all_inp) all_bool) all_setup) all_bool) all_bool.
Definition setup_kw_may_alias (copy_kwargs : bool) : bool :=
  existsb (fun given : bool =>
    Nat.eqb (d_buf (fst (setup_kwargs copy_kwargs
      (if given then Some {| d_buf := 0; d_own := User; d_vals := [] |} else None) first_fresh))) 0) all_bool.
