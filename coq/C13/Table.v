(* C13 -- the reflective check of the table generated from the CURRENT source (coq/gen/GenWrites.v).
   Kept apart from Proofs.v so that the general theorems stay available when a source change makes
   this check fail. *)
From Coq Require Import List Bool String.
From PB Require Import C13.Model C13.Writes C13.Proofs gen.GenWrites.
Import ListNotations.

Lemma gen_writes_ok : writes_ok bodies = true.
Proof. vm_compute. reflexivity. Qed.

(* all 95 registered method bodies are in the generated file (bodies + recorded findings) *)
Lemma gen_registered_count : Nat.leb 90 n_registered = true.
Proof. vm_compute. reflexivity. Qed.

(* cross-call aliasing: self.x / self.z may be the caller's arrays (float64, sorted input).  In every analysed body
   (registered methods, helpers, the decorator wrappers) they are either not mentioned or treated as caller-owned
   on entry, and no write site has them as root; with gen_writes_ok no write goes through any alias of them. *)
Lemma gen_self_xz_guarded :
  forallb (fun b => attr_guarded "self.x" b && attr_guarded "self.z" b
                    && attr_guarded "self.x.*" b && attr_guarded "self.z.*" b) write_bodies = true.
Proof. vm_compute. reflexivity. Qed.

Lemma gen_xz_classified_caller_owned :
  existsb (String.eqb "x") caller_attrs && existsb (String.eqb "z") caller_attrs
  && negb (existsb (String.eqb "x") fresh_attrs) && negb (existsb (String.eqb "z") fresh_attrs) = true.
Proof. vm_compute. reflexivity. Qed.

(* every persistent attribute that is not proven fresh is guarded the same way in every body *)
Lemma gen_caller_attrs_guarded :
  forallb (fun a => forallb (attr_guarded (String.append "self." a)) write_bodies) caller_attrs = true.
Proof. vm_compute. reflexivity. Qed.

(* the decorator layers are analysed like every other body: the `inner` closures of _Algorithm._register,
   _Algorithm2D._register and _class_wrapper (parameters of `inner` unknown, i.e. caller-owned) together with
   _return_results write through no caller-owned source at all *)
Definition has_body (nm : string) : bool := existsb (fun b => String.eqb (b_name b) nm) bodies.
Lemma gen_wrappers_checked :
  has_body "_algorithm_setup:_Algorithm._register [writes only ]"
  && has_body "two_d._algorithm_setup:_Algorithm2D._register [writes only ]"
  && has_body "_algorithm_setup:_class_wrapper [writes only ]"
  && has_body "_algorithm_setup:_Algorithm._return_results [writes only params]"
  && has_body "two_d._algorithm_setup:_Algorithm2D._return_results [writes only params]" = true.
Proof. vm_compute. reflexivity. Qed.

(* every write-site body treats all possibly-caller-owned persistent names as caller-owned on entry, and at every
   exit and every point where a raise may cut it no OTHER persistent name may denote a caller-owned buffer *)
Lemma gen_persist_ok : forallb (persist_ok caller_names) write_bodies = true.
Proof. vm_compute. reflexivity. Qed.

(* calls of registered methods from other bodies (optimizers calling inner methods, the decorator calling the
   decorated body) are translated as "writes none of its arguments".  That is not an assumption: every registered
   body is in the checked table with ALL of its parameters treated as caller-owned on entry, so by gen_writes_ok
   it writes through none of them whatever the caller passes. *)
Definition reg_entry_total (e : string * list name) : bool :=
  existsb (fun b => String.eqb (b_name b) (fst e) && subset (snd e) (b_tainted b)) write_bodies.
Lemma gen_registered_entry_total :
  forallb reg_entry_total registered_params = true /\ Nat.eqb (List.length registered_params) n_registered = true.
Proof. split; vm_compute; reflexivity. Qed.

Lemma registered_call_safe : forall e, In e registered_params ->
  exists b, In b write_bodies /\ b_name b = fst e
    /\ (forall p, In p (snd e) -> mem p (b_tainted b) = true)
    /\ forall (V : Type) (own : nat -> owner) st t o,
         covers own st (b_tainted b) -> exec V own (b_code b) st t o ->
         forall (h : heap V) k u, own u = User -> run V h (firstn k t) u = h u.
Proof.
  intros e He. destruct gen_registered_entry_total as [Hall _].
  rewrite forallb_forall in Hall. specialize (Hall e He). unfold reg_entry_total in Hall.
  apply existsb_exists in Hall. destruct Hall as [b [Hb Hc]].
  apply andb_true_iff in Hc. destruct Hc as [Hn Hs].
  exists b. split; [exact Hb|]. split; [apply String.eqb_eq; exact Hn|]. split.
  - intros p Hp. eapply subset_mem; [exact Hs|]. apply mem_In. exact Hp.
  - intros V own. apply (writes_ok_sound V own bodies gen_writes_ok b).
    unfold bodies. apply in_or_app. left. exact Hb.
Qed.
