(* C13 -- the reflective check of the table generated from the CURRENT source (coq/gen/GenWrites.v).
   Kept apart from Proofs.v so that the general theorems stay available when a source change makes
   this check fail. *)
From Coq Require Import List Bool String.
From PB Require Import C13.Model C13.Writes C13.Proofs gen.GenWrites.
Import ListNotations.

Lemma gen_writes_ok : writes_ok bodies = true.
Proof. vm_compute. reflexivity. Qed.

(* all 95 registered method bodies are in the generated file (bodies + recorded findings) *)
Lemma gen_registered_count : Nat.leb 90 n_registered = true.
Proof. vm_compute. reflexivity. Qed.
