(* C13 -- proofs: (A) the alias map of the wrapper/setup pipeline for ALL flag combinations,
   (B) soundness of the write-site checker for arbitrary executions (any branch choices, any number
   of loop iterations, raising anywhere), (C) fresh-root writes leave caller-owned memory unchanged. *)
From Coq Require Import List Bool Arith String Lia.
From PB Require Import C13.Model C13.Writes.
Import ListNotations.

(* ================================================================ (A) alias map *)
Lemma in_all_bool : forall b : bool, In b all_bool.
Proof. intros []; simpl; auto. Qed.
Lemma in_all_setup : forall k : setup, In k all_setup.
Proof. intros []; simpl; auto. Qed.
Lemma in_all_inp : forall i : inp, In i all_inp.
Proof. intros [[] [] [] []]; vm_compute; repeat (first [left; reflexivity | right]). Qed.

(* the array a method body receives as `data` shares the caller's buffer exactly when ... *)
Lemma wrapper_y_alias : forall (two_d skip no_order : bool) (i : inp),
  aliases 0 (fst (wrapper_y two_d skip no_order (user_obj 0 i) first_fresh))
  = y_alias_formula two_d skip no_order i.
Proof. intros [] [] [] [[] [] [] []]; reflexivity. Qed.

Definition w_case_ok (two_d rv : bool) (k : setup) (cw no : bool) (i : inp) : bool :=
  let a := fst (setup_weights two_d rv k cw no (user_obj 0 i) first_fresh) in
  Bool.eqb (aliases 0 a) (w_alias_formula two_d rv k cw no i)
  && (if aliases 0 a then owner_eqb (a_own a) User
      else owner_eqb (a_own a) Fresh && Nat.leb first_fresh (a_buf a)).

Lemma w_cases_all :
  forallb (fun two_d => forallb (fun rv => forallb (fun k => forallb (fun cw => forallb (fun no =>
    forallb (fun i => w_case_ok two_d rv k cw no i) all_inp) all_bool) all_bool) all_setup) all_bool) all_bool = true.
Proof. vm_compute. reflexivity. Qed.

Lemma w_case : forall two_d rv k cw no i, w_case_ok two_d rv k cw no i = true.
Proof.
  intros two_d rv k cw no i.
  pose proof w_cases_all as H.
  rewrite forallb_forall in H. specialize (H two_d (in_all_bool _)).
  rewrite forallb_forall in H. specialize (H rv (in_all_bool _)).
  rewrite forallb_forall in H. specialize (H k (in_all_setup _)).
  rewrite forallb_forall in H. specialize (H cw (in_all_bool _)).
  rewrite forallb_forall in H. specialize (H no (in_all_bool _)).
  rewrite forallb_forall in H. exact (H i (in_all_inp _)).
Qed.

Lemma setup_weights_alias : forall two_d rv k cw no i,
  aliases 0 (fst (setup_weights two_d rv k cw no (user_obj 0 i) first_fresh))
  = w_alias_formula two_d rv k cw no i.
Proof.
  intros. pose proof (w_case two_d rv k cw no i) as H. unfold w_case_ok in H.
  apply andb_true_iff in H. destruct H as [H _]. apply eqb_prop in H. exact H.
Qed.

(* the output is either the caller's buffer (owner User) or a buffer allocated during the call
   (owner Fresh, identity outside the caller's range) -- never some other caller buffer *)
Lemma setup_weights_owner : forall two_d rv k cw no i,
  let a := fst (setup_weights two_d rv k cw no (user_obj 0 i) first_fresh) in
  (a_buf a = 0 /\ a_own a = User /\ w_alias_formula two_d rv k cw no i = true)
  \/ (a_own a = Fresh /\ first_fresh <= a_buf a).
Proof.
  intros. pose proof (w_case two_d rv k cw no i) as H. unfold w_case_ok in H. fold a in H.
  apply andb_true_iff in H. destruct H as [H1 H2]. apply eqb_prop in H1.
  destruct (aliases 0 a) eqn:E.
  - left. unfold aliases in E. apply Nat.eqb_eq in E. split; [exact E|]. split; [|symmetry; exact H1].
    destruct (a_own a); [reflexivity | discriminate].
  - right. apply andb_true_iff in H2. destruct H2 as [H2 H3]. split.
    + destruct (a_own a); [discriminate | reflexivity].
    + apply Nat.leb_le. exact H3.
Qed.

(* copy_weights=True: the weights handed to the body never share the caller's buffer *)
Lemma copy_weights_fresh : forall two_d rv k no i,
  let a := fst (setup_weights two_d rv k true no (user_obj 0 i) first_fresh) in
  a_own a = Fresh /\ first_fresh <= a_buf a.
Proof.
  intros. destruct (setup_weights_owner two_d rv k true no i) as [[_ [_ H]] | H]; [|exact H].
  exfalso. unfold w_alias_formula in H. destruct (setup_req two_d k).
  rewrite !andb_true_iff in H. cbn in H. intuition discriminate.
Qed.

Lemma setup_w_may_alias_true : setup_w_may_alias true = false.
Proof. vm_compute. reflexivity. Qed.
Lemma setup_w_may_alias_false : setup_w_may_alias false = true.
Proof. vm_compute. reflexivity. Qed.
Lemma setup_kw_may_alias_true : setup_kw_may_alias true = false.
Proof. vm_compute. reflexivity. Qed.
Lemma setup_kw_may_alias_false : setup_kw_may_alias false = true.
Proof. vm_compute. reflexivity. Qed.

(* _setup_optimizer: a copied dict is a new object that still holds the caller's values *)
Lemma setup_kwargs_copy : forall (d : pydict) n,
  let d' := fst (setup_kwargs true (Some d) n) in
  d_buf d' = n /\ d_own d' = Fresh /\ d_vals d' = d_vals d.
Proof. intros. cbn. auto. Qed.
Lemma setup_kwargs_nocopy : forall (d : pydict) n, fst (setup_kwargs false (Some d) n) = d.
Proof. reflexivity. Qed.

Lemma pad_edges_zero_alias : forall y n, fst (pad_edges true y n) = y.
Proof. reflexivity. Qed.
Lemma pad_edges_fresh : forall y n, a_own (fst (pad_edges false y n)) = Fresh.
Proof. reflexivity. Qed.

(* ================================================================ (B) soundness of the checker *)
Lemma mem_In : forall n T, mem n T = true <-> In n T.
Proof.
  intros n T. unfold mem. rewrite existsb_exists. split.
  - intros [x [Hx E]]. apply String.eqb_eq in E. subst. exact Hx.
  - intros H. exists n. split; [exact H | apply String.eqb_refl].
Qed.

Lemma mem_add_iff : forall m n T, mem m (add n T) = true <-> m = n \/ mem m T = true.
Proof.
  intros m n T. unfold add. destruct (mem n T) eqn:E.
  - split; [auto|]. intros [->|H]; assumption.
  - rewrite !mem_In. simpl. split; intros [H|H]; auto.
Qed.

Lemma mem_remove_iff : forall m n T, mem m (remove n T) = true <-> m <> n /\ mem m T = true.
Proof.
  intros m n T. rewrite !mem_In. unfold remove. rewrite filter_In. split.
  - intros [H1 H2]. split; [|exact H1]. intros ->. rewrite String.eqb_refl in H2. discriminate.
  - intros [H1 H2]. split; [exact H2|]. destruct (String.eqb n m) eqn:E; [|reflexivity].
    apply String.eqb_eq in E. subst. contradiction.
Qed.

Lemma mem_union_iff : forall m A B, mem m (union A B) = true <-> mem m A = true \/ mem m B = true.
Proof.
  intros m A B. induction A as [|a A IH]; simpl.
  - split; [auto|]. intros [H|H]; [discriminate | exact H].
  - rewrite mem_add_iff, IH. unfold mem at 2. simpl. fold (mem m A).
    rewrite orb_true_iff, String.eqb_eq. tauto.
Qed.

Lemma subset_mem : forall A B m, subset A B = true -> mem m A = true -> mem m B = true.
Proof.
  intros A B m H Hm. unfold subset in H. rewrite forallb_forall in H. apply H. apply mem_In. exact Hm.
Qed.

Lemma mem_nil : forall m, mem m [] = false.
Proof. reflexivity. Qed.

Section Sound.
  Variable V : Type.
  Variable own : nat -> owner.

  Variable M : name -> bool.      (* the relevant names: a superset of what the analysed body mentions *)

  Notation covers := (covers_on own M).
  Notation exec := (exec V own).
  Definition fresh_trace (t : list (nat * V)) : Prop := Forall (fun w => own (fst w) = Fresh) t.

  Lemma covers_mono : forall st A B, covers st A -> (forall m, mem m A = true -> mem m B = true) -> covers st B.
  Proof. intros st A B H HAB n b HMn Hn Hu. apply HAB. eapply H; eauto. Qed.

  Definition post (o : outcome) (N B C R : tset) : Prop :=
    match o with
    | Norm st' => covers st' N
    | Brk st' => covers st' B
    | Cont st' => covers st' C
    | Raised st' => covers st' R
    end.

  Definition sound_at (s : stmt) (T N B C R : tset) : Prop :=
    forall st t o, covers st T -> exec s st t o -> fresh_trace t /\ post o N B C R.

  Lemma fresh_app : forall t1 t2, fresh_trace t1 -> fresh_trace t2 -> fresh_trace (t1 ++ t2).
  Proof. intros. apply Forall_app. split; assumption. Qed.

  Lemma any_mem_true : forall srcs T s, In s srcs -> mem s T = true -> any_mem srcs T = true.
  Proof. intros srcs T s Hin Hm. unfold any_mem. apply existsb_exists. exists s. split; assumption. Qed.

  Lemma union_l : forall A B m, mem m A = true -> mem m (union A B) = true.
  Proof. intros. apply mem_union_iff. auto. Qed.
  Lemma union_r : forall A B m, mem m B = true -> mem m (union A B) = true.
  Proof. intros. apply mem_union_iff. auto. Qed.

  (* the raise set contains the entry set: a raise may happen before anything is done *)
  Lemma analyse_R_ge : forall s T N B C R, analyse s T = Ok N B C R ->
    forall m, mem m T = true -> mem m R = true.
  Proof.
    induction s as [ | a IHa b IHb | n r | n l | a IHa b IHb | body IHb | | | l ];
      intros T N B C R Han m Hm; cbn [analyse] in Han.
    - inversion Han; subst; exact Hm.
    - destruct (analyse a T) as [Na Ba Ca Ra|] eqn:Ea; [|discriminate].
      destruct (analyse b Na) as [Nb Bb Cb Rb|] eqn:Eb; [|discriminate].
      inversion Han; subst. apply union_l. eapply IHa; eauto.
    - inversion Han; subst; exact Hm.
    - destruct (mem n T); [discriminate|]. inversion Han; subst; exact Hm.
    - destruct (analyse a T) as [Na Ba Ca Ra|la] eqn:Ea; destruct (analyse b T) as [Nb Bb Cb Rb|lb] eqn:Eb;
        try discriminate.
      inversion Han; subst. apply union_l. eapply IHa; eauto.
    - set (step := fun I => match analyse body I with Ok N0 _ C0 _ => union I (union N0 C0) | Bad _ => I end) in Han.
      set (inv := iter loop_fuel step T) in Han.
      destruct (analyse body inv) as [Nb Bb Cb Rb|] eqn:Eb; [|discriminate].
      destruct (subset T inv && subset Nb inv && subset Cb inv) eqn:Es; [|discriminate].
      inversion Han; subst. apply andb_true_iff in Es. destruct Es as [Es _].
      apply andb_true_iff in Es. destruct Es as [Es1 _].
      apply union_l. eapply subset_mem; eauto.
    - inversion Han; subst; exact Hm.
    - inversion Han; subst; exact Hm.
    - discriminate.
  Qed.

  (* loops: an invariant that contains the entry state and is preserved by the body *)
  Lemma loop_sound : forall body inv N B C R,
    sound_at body inv N B C R ->
    (forall m, mem m N = true -> mem m inv = true) ->
    (forall m, mem m C = true -> mem m inv = true) ->
    forall st t o, exec (SLoop body) st t o -> covers st inv ->
      fresh_trace t /\ match o with
                       | Norm st' => covers st' (union inv B)
                       | Raised st' => covers st' (union inv R)
                       | _ => False end.
  Proof.
    intros body inv N B C R Hb HN HC st t o Hex.
    remember (SLoop body) as s eqn:Es. revert Es.
    induction Hex; intros Es Hcov; try discriminate Es.
    - split; [constructor|]. eapply covers_mono; [exact Hcov|]. intros m Hm. apply union_l; exact Hm.
    - split; [constructor|]. eapply covers_mono; [exact Hcov|]. intros m Hm. apply union_l; exact Hm.
    - inversion Es; subst body0. destruct (Hb _ _ _ Hcov Hex1) as [F1 P1]. simpl in P1.
      assert (Hc1 : covers st1 inv) by (eapply covers_mono; [exact P1 | exact HN]).
      destruct (IHHex2 eq_refl Hc1) as [F2 P2]. split; [apply fresh_app; assumption | exact P2].
    - inversion Es; subst body0. destruct (Hb _ _ _ Hcov Hex1) as [F1 P1]. simpl in P1.
      assert (Hc1 : covers st1 inv) by (eapply covers_mono; [exact P1 | exact HC]).
      destruct (IHHex2 eq_refl Hc1) as [F2 P2]. split; [apply fresh_app; assumption | exact P2].
    - inversion Es; subst body0. destruct (Hb _ _ _ Hcov Hex) as [F1 P1]. simpl in P1.
      split; [exact F1|]. eapply covers_mono; [exact P1|]. intros m Hm. apply union_r; exact Hm.
    - inversion Es; subst body0. destruct (Hb _ _ _ Hcov Hex) as [F1 P1]. simpl in P1.
      split; [exact F1|]. eapply covers_mono; [exact P1|]. intros m Hm. apply union_r; exact Hm.
  Qed.

  Theorem analyse_sound : forall s, (forall m, mentions m s = true -> M m = true) ->
    forall T N B C R, analyse s T = Ok N B C R -> sound_at s T N B C R.
  Proof.
    induction s as [ | a IHa b IHb | n r | n l | a IHa b IHb | body IHb | | | l ];
      intros HM T N B C R Han st t o Hcov Hex; pose proof (analyse_R_ge _ _ _ _ _ _ Han) as HTR; cbn [analyse] in Han.
    - (* SSkip *) inversion Han; subst. inversion Hex; subst; (split; [constructor | simpl; auto]).
    - (* SSeq *)
      destruct (analyse a T) as [Na Ba Ca Ra|] eqn:Ea; [|discriminate].
      destruct (analyse b Na) as [Nb Bb Cb Rb|] eqn:Eb; [|discriminate].
      assert (HMa : forall m, mentions m a = true -> M m = true)
        by (intros m Hm; apply HM; cbn [mentions]; rewrite Hm; reflexivity).
      assert (HMb : forall m, mentions m b = true -> M m = true)
        by (intros m Hm; apply HM; cbn [mentions]; rewrite Hm; apply orb_true_r).
      inversion Han; subst. specialize (IHa HMa _ _ _ _ _ Ea). specialize (IHb HMb _ _ _ _ _ Eb).
      inversion Hex; subst.
      + split; [constructor|]. simpl. eapply covers_mono; [exact Hcov | exact HTR].
      + match goal with Ha : exec a _ _ (Norm _), Hb : exec b _ _ _ |- _ =>
          destruct (IHa _ _ _ Hcov Ha) as [F1 P1]; simpl in P1;
          destruct (IHb _ _ _ P1 Hb) as [F2 P2] end.
        split; [apply fresh_app; assumption|].
        destruct o; simpl in *; auto; (eapply covers_mono; [exact P2|]; intros m Hm; apply union_r; exact Hm).
      + match goal with Ha : exec a _ _ _ |- _ => destruct (IHa _ _ _ Hcov Ha) as [F1 P1] end.
        split; [exact F1|]. simpl in *.
        eapply covers_mono; [exact P1|]. intros m Hm. apply union_l; exact Hm.
      + match goal with Ha : exec a _ _ _ |- _ => destruct (IHa _ _ _ Hcov Ha) as [F1 P1] end.
        split; [exact F1|]. simpl in *.
        eapply covers_mono; [exact P1|]. intros m Hm. apply union_l; exact Hm.
      + match goal with Ha : exec a _ _ _ |- _ => destruct (IHa _ _ _ Hcov Ha) as [F1 P1] end.
        split; [exact F1|]. simpl in *.
        eapply covers_mono; [exact P1|]. intros m Hm. apply union_l; exact Hm.
    - (* SBind *)
      inversion Han; subst. inversion Hex; subst; (split; [constructor|]); [simpl; exact Hcov|].
      match goal with Hr : rhs_sem _ _ _ _ |- _ => rename Hr into H4 end.
      assert (HMs : forall s, rhs_mentions s r = true -> M s = true)
        by (intros s Hs; apply HM; cbn [mentions]; rewrite Hs; apply orb_true_r).
      simpl. intros m b HMm Hm Hu. unfold upd in Hm.
      destruct (String.eqb n m) eqn:Enm.
      + apply String.eqb_eq in Enm. subst m.
        assert (Ht : tainted_rhs r R = true).
        { destruct r as [ | srcs | cw srcs | ck srcs | ]; simpl in H4 |- *.
          - specialize (H4 _ Hm). rewrite H4 in Hu. discriminate.
          - destruct (H4 _ Hm) as [Hf | [s [Hs Hb]]]; [rewrite Hf in Hu; discriminate|].
            eapply any_mem_true; [exact Hs|].
            eapply Hcov; [apply HMs; simpl; apply mem_In; exact Hs | exact Hb | exact Hu].
          - destruct (H4 _ Hm) as [Hf | [Hcw [s [Hs Hb]]]]; [rewrite Hf in Hu; discriminate|].
            subst cw. rewrite setup_w_may_alias_false. simpl.
            eapply any_mem_true; [exact Hs|].
            eapply Hcov; [apply HMs; simpl; apply mem_In; exact Hs | exact Hb | exact Hu].
          - destruct (H4 _ Hm) as [Hf | [Hck [s [Hs Hb]]]]; [rewrite Hf in Hu; discriminate|].
            subst ck. rewrite setup_kw_may_alias_false. simpl.
            eapply any_mem_true; [exact Hs|].
            eapply Hcov; [apply HMs; simpl; apply mem_In; exact Hs | exact Hb | exact Hu].
          - reflexivity. }
        rewrite Ht. apply mem_add_iff. auto.
      + assert (Hne : m <> n) by (intros ->; rewrite String.eqb_refl in Enm; discriminate).
        pose proof (Hcov _ _ HMm Hm Hu) as HmT.
        destruct (tainted_rhs r R); [apply mem_add_iff; auto | apply mem_remove_iff; auto].
    - (* SWrite *)
      destruct (mem n T) eqn:Em; [discriminate|]. inversion Han; subst.
      inversion Hex; subst.
      + split; [constructor | simpl; exact Hcov].
      + split; [|simpl; exact Hcov]. constructor; [|constructor]. simpl.
        assert (HMn : M n = true) by (apply HM; cbn [mentions]; apply String.eqb_refl).
        match goal with Hs : st n ?bb |- _ =>
          destruct (own bb) eqn:Eo; [|reflexivity]; rewrite (Hcov _ _ HMn Hs Eo) in Em; discriminate end.
    - (* SIf *)
      destruct (analyse a T) as [Na Ba Ca Ra|la] eqn:Ea; destruct (analyse b T) as [Nb Bb Cb Rb|lb] eqn:Eb;
        try discriminate.
      assert (HMa : forall m, mentions m a = true -> M m = true)
        by (intros m Hm; apply HM; cbn [mentions]; rewrite Hm; reflexivity).
      assert (HMb : forall m, mentions m b = true -> M m = true)
        by (intros m Hm; apply HM; cbn [mentions]; rewrite Hm; apply orb_true_r).
      inversion Han; subst. specialize (IHa HMa _ _ _ _ _ Ea). specialize (IHb HMb _ _ _ _ _ Eb).
      inversion Hex; subst.
      + split; [constructor|]. simpl. eapply covers_mono; [exact Hcov | exact HTR].
      + match goal with Ha : exec a _ _ _ |- _ => destruct (IHa _ _ _ Hcov Ha) as [F P] end. split; [exact F|].
        destruct o; simpl in *; (eapply covers_mono; [exact P|]; intros m Hm; apply union_l; exact Hm).
      + match goal with Ha : exec b _ _ _ |- _ => destruct (IHb _ _ _ Hcov Ha) as [F P] end. split; [exact F|].
        destruct o; simpl in *; (eapply covers_mono; [exact P|]; intros m Hm; apply union_r; exact Hm).
    - (* SLoop *)
      set (step := fun I => match analyse body I with Ok N0 _ C0 _ => union I (union N0 C0) | Bad _ => I end) in Han.
      set (inv := iter loop_fuel step T) in Han.
      destruct (analyse body inv) as [Nb Bb Cb Rb|] eqn:Eb; [|discriminate].
      destruct (subset T inv && subset Nb inv && subset Cb inv) eqn:Es; [|discriminate].
      inversion Han; subst. apply andb_true_iff in Es. destruct Es as [Es Es3].
      apply andb_true_iff in Es. destruct Es as [Es1 Es2].
      specialize (IHb HM _ _ _ _ _ Eb).
      assert (Hci : covers st inv) by (eapply covers_mono; [exact Hcov|]; intros m; apply subset_mem; exact Es1).
      destruct (loop_sound body inv Nb Bb Cb Rb IHb (fun m => subset_mem _ _ m Es2) (fun m => subset_mem _ _ m Es3)
                  st t o Hex Hci) as [F P].
      split; [exact F|]. destruct o; simpl; auto; contradiction.
    - (* SBreak *) inversion Han; subst. inversion Hex; subst; (split; [constructor | simpl; auto]).
    - (* SContinue *) inversion Han; subst. inversion Hex; subst; (split; [constructor | simpl; auto]).
    - (* SUnknown *) discriminate.
  Qed.

  (* ============================================================== (C) memory *)
  Notation run := (run V).

  Lemma write_other : forall (h : heap V) w b, b <> fst w -> write V h w b = h b.
  Proof. intros h w b Hne. unfold write. destruct (Nat.eqb b (fst w)) eqn:E; [|reflexivity].
    apply Nat.eqb_eq in E. contradiction. Qed.

  Lemma run_fresh_preserves : forall t (h : heap V), fresh_trace t ->
    forall u, own u = User -> run h t u = h u.
  Proof.
    induction t as [|w t IH]; intros h Hf u Hu; [reflexivity|].
    inversion Hf; subst. unfold Writes.run. simpl. fold (run (write V h w) t).
    rewrite IH by assumption. apply write_other. intros ->. rewrite Hu in H1. discriminate.
  Qed.

  Lemma fresh_firstn : forall k t, fresh_trace t -> fresh_trace (firstn k t).
  Proof.
    induction k; intros t Hf; [constructor|]. destruct t; [constructor|].
    inversion Hf; subst. simpl. constructor; [assumption | apply IHk; assumption].
  Qed.

  (* any write sequence through fresh roots, cut anywhere, leaves every caller-owned buffer unchanged *)
  Theorem fresh_writes_preserve_user : forall t (h : heap V), fresh_trace t ->
    forall k u, own u = User -> run h (firstn k t) u = h u.
  Proof. intros t h Hf k u Hu. apply run_fresh_preserves; [apply fresh_firstn; exact Hf | exact Hu]. Qed.
End Sound.

Section Bodies.
  Variable V : Type.
  Variable own : nat -> owner.

  Theorem body_ok_sound : forall b, body_ok b = true ->
    forall st t o, covers own st (b_tainted b) -> exec V own (b_code b) st t o ->
      forall (h : heap V) k u, own u = User -> run V h (firstn k t) u = h u.
  Proof.
    intros b Hok st t o Hcov Hex h k u Hu. unfold body_ok in Hok.
    destruct (analyse (b_code b) (b_tainted b)) as [N B C R|] eqn:Ea; [|discriminate].
    destruct (analyse_sound V own (fun _ => true) _ (fun _ _ => eq_refl) _ _ _ _ _ Ea st t o Hcov Hex) as [F _].
    apply (fresh_writes_preserve_user V own t h F k u Hu).
  Qed.

  Theorem writes_ok_sound : forall bs, writes_ok bs = true ->
    forall b, In b bs ->
    forall st t o, covers own st (b_tainted b) -> exec V own (b_code b) st t o ->
      forall (h : heap V) k u, own u = User -> run V h (firstn k t) u = h u.
  Proof.
    intros bs Hok b Hin. unfold writes_ok in Hok. rewrite forallb_forall in Hok.
    apply body_ok_sound. apply Hok. exact Hin.
  Qed.
End Bodies.

(* ================================================================ (D) call histories on one object *)
Section Hist.
  Variable V : Type.
  Variable own : nat -> owner.

  Definition final_store (o : outcome) : store :=
    match o with Norm s | Brk s | Cont s | Raised s => s end.

  (* the persistent part of a store is safe w.r.t. cn: a persistent name that may denote a caller-owned
     buffer is one of cn (the names every body treats as caller-owned and never writes through) *)
  Definition pinv (cn : list name) (P : store) : Prop :=
    forall n x, persistent n = true -> P n x -> own x = User -> mem n cn = true.

  (* body b is entered with store st on an object whose persistent state is P: the persistent names denote
     what the earlier calls left; everything else (arguments, locals) is arbitrary but declared: whatever may
     be caller-owned is in the entry taint of b *)
  Definition call_entry (P st : store) (b : body) : Prop :=
    (forall n x, persistent n = true -> st n x -> P n x) /\
    (forall n x, persistent n = false -> st n x -> own x = User -> mem n (b_tainted b) = true).

  (* a history: any sequence of calls of checked bodies on the object; each call may return or be cut by a
     raise anywhere; the store at that point is what the next call finds on `self` *)
  Inductive history (bs : list body) : store -> list (nat * V) -> store -> Prop :=
  | H_nil : forall P, history bs P [] P
  | H_call : forall P b st t o t' P',
      In b bs -> call_entry P st b -> exec V own (b_code b) st t o ->
      history bs (final_store o) t' P' -> history bs P (t ++ t') P'.

  Lemma mem_app_In : forall m A, mem m A = true -> In m A.
  Proof. intros. apply mem_In. assumption. Qed.

  (* a body neither reads nor changes a name it does not mention *)
  Lemma exec_frame : forall s st t o, exec V own s st t o ->
    forall n, mentions n s = false -> final_store o n = st n.
  Proof.
    intros s st t o Hex. induction Hex; intros m Hm; cbn [mentions] in Hm; simpl; try reflexivity.
    - (* bind *) unfold upd. apply orb_false_iff in Hm. destruct Hm as [Hm _].
      rewrite String.eqb_sym in Hm. rewrite Hm. reflexivity.
    - (* seq *) apply orb_false_iff in Hm. destruct Hm as [Ha Hb].
      rewrite (IHHex2 _ Hb). exact (IHHex1 _ Ha).
    - apply orb_false_iff in Hm. destruct Hm as [Ha _]. exact (IHHex _ Ha).
    - apply orb_false_iff in Hm. destruct Hm as [Ha _]. exact (IHHex _ Ha).
    - apply orb_false_iff in Hm. destruct Hm as [Ha _]. exact (IHHex _ Ha).
    - apply orb_false_iff in Hm. destruct Hm as [Ha _]. exact (IHHex _ Ha).
    - apply orb_false_iff in Hm. destruct Hm as [_ Hb]. exact (IHHex _ Hb).
    - (* loop next *) rewrite (IHHex2 _ Hm). exact (IHHex1 _ Hm).
    - rewrite (IHHex2 _ Hm). exact (IHHex1 _ Hm).
    - exact (IHHex _ Hm).
    - exact (IHHex _ Hm).
  Qed.

  Lemma call_step : forall cn b P st t o,
    persist_ok cn b = true -> pinv cn P -> call_entry P st b -> exec V own (b_code b) st t o ->
    fresh_trace V own t /\ pinv cn (final_store o).
  Proof.
    intros cn b P st t o Hok HP [He1 He2] Hex. unfold persist_ok in Hok.
    apply andb_true_iff in Hok. destruct Hok as [Hsub Hfin].
    destruct (analyse (b_code b) (b_tainted b)) as [N B C R|] eqn:Ea; [|discriminate].
    rewrite forallb_forall in Hsub.
    set (M := fun n => mentions n (b_code b)).
    assert (Hcov : covers_on own M st (b_tainted b)).
    { intros n x HMn Hn Hu. destruct (persistent n) eqn:Ep.
      - assert (Hc : mem n cn = true) by (eapply HP; eauto).
        specialize (Hsub n (proj1 (mem_In _ _) Hc)). unfold M in HMn. rewrite HMn in Hsub. exact Hsub.
      - eapply He2; eauto. }
    destruct (analyse_sound V own M _ (fun m Hm => Hm) _ _ _ _ _ Ea st t o Hcov Hex) as [F Po].
    split; [exact F|].
    rewrite forallb_forall in Hfin.
    intros n x Hp Hn Hu.
    destruct (mentions n (b_code b)) eqn:Emn.
    - assert (Hin : In n (N ++ B ++ C ++ R)).
      { destruct o; simpl in Po, Hn; pose proof (Po _ _ Emn Hn Hu) as Hm; apply mem_In in Hm;
          repeat (apply in_or_app; first [left; exact Hm | right]); exact Hm. }
      specialize (Hfin _ Hin). rewrite Hp in Hfin. simpl in Hfin. exact Hfin.
    - rewrite (exec_frame _ _ _ _ Hex _ Emn) in Hn. eapply HP; eauto.
  Qed.

  Theorem history_sound : forall cn bs, forallb (persist_ok cn) bs = true ->
    forall P t P', pinv cn P -> history bs P t P' -> fresh_trace V own t /\ pinv cn P'.
  Proof.
    intros cn bs Hall P t P' HP Hh. rewrite forallb_forall in Hall.
    induction Hh as [P | P b st t o t' P' Hin Hent Hex Hrest IH].
    - split; [constructor | exact HP].
    - destruct (call_step cn b P st t o (Hall _ Hin) HP Hent Hex) as [F HP1].
      destruct (IH HP1) as [F' HP']. split; [|exact HP'].
      apply Forall_app. split; assumption.
  Qed.

  (* after ANY history of calls (returning or raising) on one object, cut anywhere, every caller-owned buffer
     holds what it held before the first call *)
  Theorem history_preserves_user : forall cn bs, forallb (persist_ok cn) bs = true ->
    forall P t P', pinv cn P -> history bs P t P' ->
    forall (h : heap V) k u, own u = User -> run V h (firstn k t) u = h u.
  Proof.
    intros cn bs Hall P t P' HP Hh h k u Hu.
    destruct (history_sound cn bs Hall P t P' HP Hh) as [F _].
    apply (fresh_writes_preserve_user V own t h F k u Hu).
  Qed.

  (* a new object: nothing is stored on it yet *)
  Lemma pinv_empty : forall cn, pinv cn (fun _ _ => False).
  Proof. intros cn n x _ H. contradiction. Qed.
End Hist.

(* `self.a = e` followed by the assertion (a pseudo write through self.a) that the translator emits for every
   attribute it claims fresh: if the checker accepts, then in EVERY state covered by the entry taint the value
   just stored denotes library-allocated buffers only -- whether or not execution continues after the store *)
Lemma bind_then_assert_fresh : forall (own : nat -> owner) n r l T N B C R,
  analyse (SSeq (SBind n r) (SWrite n l)) T = Ok N B C R ->
  forall (st : store) (S : nat -> Prop), covers own st T -> rhs_sem own r st S ->
  forall b, S b -> own b = Fresh.
Proof.
  intros own n r l T N B C R Han st S Hcov Hr b Hb.
  assert (Hex : exec unit own (SSeq (SBind n r) (SWrite n l)) st ([] ++ [(b, tt)]) (Norm (upd st n S))).
  { eapply X_Seq; [apply X_Bind; exact Hr|]. apply X_Write. unfold upd. rewrite String.eqb_refl. exact Hb. }
  destruct (analyse_sound unit own (fun _ => true) _ (fun _ _ => eq_refl) _ _ _ _ _ Han st _ _ Hcov Hex) as [F _].
  inversion F; subst. assumption.
Qed.

(* the IR semantics of a setup's weight output over-approximates the pipeline model, for all flags:
   the buffer is fresh, or copy_weights is False and it is the caller's weights buffer *)
Lemma setup_w_sem_justified : forall two_d rv k cw no i,
  let a := fst (setup_weights two_d rv k cw no (user_obj 0 i) first_fresh) in
  a_own a = Fresh \/ (cw = false /\ a_buf a = 0).
Proof.
  intros. destruct (setup_weights_owner two_d rv k cw no i) as [[Hb [_ Hf]] | [Hf _]]; [|left; exact Hf].
  right. split; [|exact Hb]. unfold w_alias_formula in Hf. destruct (setup_req two_d k).
  destruct cw; [|reflexivity]. rewrite !andb_true_iff in Hf. cbn in Hf. intuition discriminate.
Qed.

(* ---------------------------------------------------------------- non-vacuity / sanity *)
Example checker_rejects_write_through_param :
  body_ok {| b_name := "bad"; b_tainted := ["weights"%string];
             b_code := SSeq (SBind "w"%string (RSetupW false ["weights"%string])) (SWrite "w"%string 1) |} = false.
Proof. vm_compute. reflexivity. Qed.
Example checker_accepts_copied_weights :
  body_ok {| b_name := "good"; b_tainted := ["weights"%string];
             b_code := SSeq (SBind "w"%string (RSetupW true ["weights"%string])) (SWrite "w"%string 1) |} = true.
Proof. vm_compute. reflexivity. Qed.
Example checker_loop_carried_alias :
  (* w = fresh; loop: { write w; w = y }  -- the second iteration writes the caller's y *)
  body_ok {| b_name := "loop"; b_tainted := ["y"%string];
             b_code := SSeq (SBind "w"%string RFresh)
                            (SLoop (SSeq (SWrite "w"%string 2) (SBind "w"%string (RAlias ["y"%string])))) |} = false.
Proof. vm_compute. reflexivity. Qed.
Example checker_break_state :
  (* loop: { if c: { w = y; break }; w = fresh }; write w  -- the state at `break` reaches the write *)
  body_ok {| b_name := "brk"; b_tainted := ["y"%string];
             b_code := SSeq (SBind "w"%string RFresh)
                      (SSeq (SLoop (SSeq (SIf (SSeq (SBind "w"%string (RAlias ["y"%string])) SBreak) SSkip)
                                         (SBind "w"%string RFresh)))
                            (SWrite "w"%string 3)) |} = false.
Proof. vm_compute. reflexivity. Qed.
