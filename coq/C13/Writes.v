(* C13 -- the write-site language emitted by tools/gen_writes.py (coq/gen/GenWrites.v), its
   nondeterministic concrete semantics over buffers with owners, and the executable checker
   `writes_ok` (a may-alias "taint" analysis).  Definitions only; soundness is in C13/Proofs.v. *)
From Coq Require Import List Bool Arith String.
From PB Require Import C13.Model.
Import ListNotations.
Open Scope string_scope.

Definition name := string.

(* how a name gets (re)bound *)
Inductive rhs :=
| RFresh                                   (* constructor, arithmetic result, .copy(), whitelisted call *)
| RAlias (srcs : list name)                (* may be (a view of / an element of) any of these names, or fresh *)
| RSetupW (copy_weights : bool) (srcs : list name)   (* weight output of a _setup_* call *)
| RSetupKw (copy_kwargs : bool) (srcs : list name)   (* dict output of _setup_optimizer *)
| RUnknown.                                (* unrecognised form: anything *)

Inductive stmt :=
| SSkip
| SSeq (a b : stmt)
| SBind (n : name) (r : rhs)
| SWrite (n : name) (line : nat)           (* an in-place write through root name n *)
| SIf (a b : stmt)
| SLoop (body : stmt)
| SBreak
| SContinue
| SUnknown (line : nat).                   (* unrecognised statement on a tracked name: fail closed *)

(* ---------------------------------------------------------------- the checker *)
Definition tset := list name.
Definition mem (n : name) (T : tset) : bool := existsb (String.eqb n) T.
Definition add (n : name) (T : tset) : tset := if mem n T then T else n :: T.
Definition remove (n : name) (T : tset) : tset := filter (fun m => negb (String.eqb n m)) T.
Definition union (A B : tset) : tset := fold_right add B A.
Definition subset (A B : tset) : bool := forallb (fun n => mem n B) A.
Definition any_mem (srcs : list name) (T : tset) : bool := existsb (fun s => mem s T) srcs.

Definition tainted_rhs (r : rhs) (T : tset) : bool :=
  match r with
  | RFresh => false
  | RAlias srcs => any_mem srcs T
  | RSetupW cw srcs => setup_w_may_alias cw && any_mem srcs T
  | RSetupKw ck srcs => setup_kw_may_alias ck && any_mem srcs T
  | RUnknown => true
  end.

(* result of analysing a statement: taint sets at normal exit, at `break`, at `continue`, and R: a set that
   covers the store at EVERY point where the execution may be cut by a raise (needed for what persists on
   `self` into later calls); or the line of the offending write / unknown statement *)
Inductive res := Ok (N B C R : tset) | Bad (line : nat).

(* iterate f until nothing new is added (or the fuel runs out; the result is re-checked by the caller) *)
Fixpoint iter (k : nat) (f : tset -> tset) (T : tset) : tset :=
  match k with
  | O => T
  | S k' => let T' := f T in if forallb (fun n => existsb (String.eqb n) T) T' then T else iter k' f T'
  end.

Definition loop_fuel := 10%nat.

Fixpoint analyse (s : stmt) (T : tset) : res :=
  match s with
  | SSkip => Ok T [] [] T
  | SSeq a b =>
      match analyse a T with
      | Ok Na Ba Ca Ra =>
          match analyse b Na with
          | Ok Nb Bb Cb Rb => Ok Nb (union Ba Bb) (union Ca Cb) (union Ra Rb)
          | Bad l => Bad l
          end
      | Bad l => Bad l
      end
  | SBind n r => Ok (if tainted_rhs r T then add n T else remove n T) [] [] T
  | SWrite n l => if mem n T then Bad l else Ok T [] [] T
  | SIf a b =>
      match analyse a T, analyse b T with
      | Ok Na Ba Ca Ra, Ok Nb Bb Cb Rb => Ok (union Na Nb) (union Ba Bb) (union Ca Cb) (union Ra Rb)
      | Bad l, _ => Bad l
      | _, Bad l => Bad l
      end
  | SLoop body =>
      let step := fun I => match analyse body I with Ok N _ C _ => union I (union N C) | Bad _ => I end in
      let inv := iter loop_fuel step T in
      match analyse body inv with
      | Ok N B C R => if subset T inv && subset N inv && subset C inv then Ok (union inv B) [] [] (union inv R)
                      else Bad 0   (* no invariant found within the fuel: fail closed *)
      | Bad l => Bad l
      end
  | SBreak => Ok [] T [] T
  | SContinue => Ok [] [] T T
  | SUnknown l => Bad l
  end.

(* one analysed body: name, the names that may refer to caller-owned objects on entry, the code *)
Record body := { b_name : string; b_tainted : list name; b_code : stmt }.

Definition body_ok (b : body) : bool :=
  match analyse (b_code b) (b_tainted b) with Ok _ _ _ _ => true | Bad _ => false end.
Definition writes_ok (bs : list body) : bool := forallb body_ok bs.

(* diagnostics for the harness: (body name, offending line) of every rejected body *)
Definition failures (bs : list body) : list (string * nat) :=
  flat_map (fun b => match analyse (b_code b) (b_tainted b) with Ok _ _ _ _ => [] | Bad l => [(b_name b, l)] end) bs.

(* syntactic helpers for table facts: does a body mention a name at all; the roots of its write sites *)
Definition rhs_mentions (n : name) (r : rhs) : bool :=
  match r with
  | RAlias srcs | RSetupW _ srcs | RSetupKw _ srcs => mem n srcs
  | _ => false
  end.
Fixpoint mentions (n : name) (s : stmt) : bool :=
  match s with
  | SSeq a b | SIf a b => mentions n a || mentions n b
  | SBind m r => String.eqb n m || rhs_mentions n r
  | SWrite m _ => String.eqb n m
  | SLoop b => mentions n b
  | _ => false
  end.
Fixpoint write_roots (s : stmt) : list name :=
  match s with
  | SSeq a b | SIf a b => write_roots a ++ write_roots b
  | SWrite m _ => [m]
  | SLoop b => write_roots b
  | _ => []
  end.
(* a persistent attribute that may hold a caller-owned buffer is handled soundly by a body when the body
   either never mentions it or treats it as caller-owned on entry, and no write site has it as its root *)
Definition attr_guarded (n : name) (b : body) : bool :=
  implb (mentions n (b_code b)) (mem n (b_tainted b)) && negb (mem n (write_roots (b_code b))).

(* names that live on the object between calls *)
Definition persistent (n : name) : bool := String.prefix "self." n.
(* a body is persistence-safe w.r.t. a list of possibly-caller-owned persistent names when it treats all of them
   that it mentions as caller-owned on entry and, at every exit AND every point where it may be cut by a raise, no other
   persistent name may denote a caller-owned buffer *)
Definition persist_ok (caller_names : list name) (b : body) : bool :=
  forallb (fun n => implb (mentions n (b_code b)) (mem n (b_tainted b))) caller_names &&
  match analyse (b_code b) (b_tainted b) with
  | Ok N B C R => forallb (fun n => negb (persistent n) || mem n caller_names) (N ++ B ++ C ++ R)
  | Bad _ => false
  end.

(* ---------------------------------------------------------------- concrete semantics *)
Section Sem.
  Variable V : Type.                       (* what a write stores (bytes, a dict entry, ...) *)
  Variable own : nat -> owner.             (* owner of every buffer identity *)

  (* a store maps every name to the set of buffers it may denote right now: the buffer behind an
     array (or view), the dict object itself; the pseudo-name "d.*" denotes the objects stored in d *)
  Definition store := name -> nat -> Prop.
  Definition upd (st : store) (n : name) (S : nat -> Prop) : store :=
    fun m => if String.eqb n m then S else st m.

  Definition from_srcs (st : store) (srcs : list name) (b : nat) : Prop :=
    exists s, In s srcs /\ st s b.

  (* which buffer sets a right-hand side may evaluate to *)
  Definition rhs_sem (r : rhs) (st : store) (S : nat -> Prop) : Prop :=
    match r with
    | RFresh => forall b, S b -> own b = Fresh
    | RAlias srcs => forall b, S b -> own b = Fresh \/ from_srcs st srcs b
    | RSetupW cw srcs => forall b, S b -> own b = Fresh \/ (cw = false /\ from_srcs st srcs b)
    | RSetupKw ck srcs => forall b, S b -> own b = Fresh \/ (ck = false /\ from_srcs st srcs b)
    | RUnknown => True
    end.

  Inductive outcome := Norm (st : store) | Brk (st : store) | Cont (st : store) | Raised (st : store).

  (* exec s st trace outcome: trace is the sequence of (buffer, value) writes performed.
     X_Raise may fire at every statement: a raise (or return) truncates the execution anywhere; the
     outcome keeps the store at that point (attributes of `self` persist into later calls). *)
  Inductive exec : stmt -> store -> list (nat * V) -> outcome -> Prop :=
  | X_Raise : forall s st, exec s st [] (Raised st)
  | X_Skip : forall st, exec SSkip st [] (Norm st)
  | X_Bind : forall n r (st : store) (S : nat -> Prop), rhs_sem r st S -> exec (SBind n r) st [] (Norm (upd st n S))
  | X_Write : forall n l (st : store) b (v : V), st n b -> exec (SWrite n l) st [(b, v)] (Norm st)
  | X_Seq : forall a b st t1 st1 t2 o,
      exec a st t1 (Norm st1) -> exec b st1 t2 o -> exec (SSeq a b) st (t1 ++ t2) o
  | X_SeqBrk : forall a b st t st1, exec a st t (Brk st1) -> exec (SSeq a b) st t (Brk st1)
  | X_SeqCont : forall a b st t st1, exec a st t (Cont st1) -> exec (SSeq a b) st t (Cont st1)
  | X_SeqRaise : forall a b st t st1, exec a st t (Raised st1) -> exec (SSeq a b) st t (Raised st1)
  | X_IfL : forall a b st t o, exec a st t o -> exec (SIf a b) st t o
  | X_IfR : forall a b st t o, exec b st t o -> exec (SIf a b) st t o
  | X_Break : forall st, exec SBreak st [] (Brk st)
  | X_Continue : forall st, exec SContinue st [] (Cont st)
  | X_LoopEnd : forall body st, exec (SLoop body) st [] (Norm st)
  | X_LoopNext : forall body st t1 st1 t2 o,
      exec body st t1 (Norm st1) -> exec (SLoop body) st1 t2 o -> exec (SLoop body) st (t1 ++ t2) o
  | X_LoopCont : forall body st t1 st1 t2 o,
      exec body st t1 (Cont st1) -> exec (SLoop body) st1 t2 o -> exec (SLoop body) st (t1 ++ t2) o
  | X_LoopBrk : forall body st t st1, exec body st t (Brk st1) -> exec (SLoop body) st t (Norm st1)
  | X_LoopRaise : forall body st t st1, exec body st t (Raised st1) -> exec (SLoop body) st t (Raised st1).

  (* memory: one value per buffer; a write replaces it *)
  Definition heap := nat -> V.
  Definition write (h : heap) (w : nat * V) : heap :=
    fun b => if Nat.eqb b (fst w) then snd w else h b.
  Definition run (h : heap) (t : list (nat * V)) : heap := fold_left write t h.

  (* the abstraction relation: every RELEVANT name (M) that may denote a caller-owned buffer is in T.
     M is the set of names a body mentions: names it never mentions are neither read nor changed by it *)
  Definition covers_on (M : name -> bool) (st : store) (T : tset) : Prop :=
    forall n b, M n = true -> st n b -> own b = User -> mem n T = true.
  Definition covers (st : store) (T : tset) : Prop := covers_on (fun _ => true) st T.
End Sem.
