(* Range and monotonicity of the reweighting rules over the reals (the formulas are the SAME
   Gallina definitions that the float instance executes). Uses Coq's standard Reals library. *)
From Coq Require Import Reals Lra List Bool Arith Lia.
From PB Require Import C09.Rules.
Open Scope R_scope.

Definition Rgtb (x y : R) : bool := if Rlt_dec y x then true else false.
Definition Rltb (x y : R) : bool := if Rlt_dec x y then true else false.
Definition Reqb (x y : R) : bool := if Req_EM_T x y then true else false.

Definition Num_R : Num := {|
  T := R; add := Rplus; sub := Rminus; mul := Rmult; div := Rdiv;
  nabs := Rabs; nsqrt := sqrt; gtb := Rgtb; ltb := Rltb; eqb := Reqb;
  zero := 0; one := 1; two := 2; half := / 2
|}.

Ltac numR := cbv beta iota delta [Num_R T add sub mul div nabs nsqrt gtb ltb eqb zero one two half].

Lemma Rgtb_true (x y : R) : Rgtb x y = true <-> y < x.
Proof. unfold Rgtb. destruct (Rlt_dec y x); split; intros; try lra; try discriminate; reflexivity. Qed.
Lemma Rgtb_false (x y : R) : Rgtb x y = false <-> x <= y.
Proof. unfold Rgtb. destruct (Rlt_dec y x); split; intros; try lra; try discriminate; reflexivity. Qed.

(* ---- asls ---- *)
Lemma asls_range (p y b : R) : 0 <= p <= 1 -> 0 <= asls_w Num_R p y b <= 1.
Proof. intros Hp. unfold asls_w; numR. destruct (Rgtb y b); lra. Qed.

(* antitone in the residual when p <= 1/2 (for p > 1/2 the documented formula itself increases) *)
Lemma asls_antitone (p y1 y2 b : R) : p <= / 2 -> y1 - b <= y2 - b ->
  asls_w Num_R p y2 b <= asls_w Num_R p y1 b.
Proof.
  intros Hp Hr. unfold asls_w; numR.
  destruct (Rgtb y2 b) eqn:H2, (Rgtb y1 b) eqn:H1; try lra.
  apply Rgtb_true in H1. apply Rgtb_false in H2. lra.
Qed.

(* ---- the two sigmoid shapes ---- *)
Lemma div_le_div (a b c d : R) : 0 < c -> 0 < d -> a * d <= b * c -> a / c <= b / d.
Proof.
  intros Hc Hd H. apply (Rmult_le_reg_r (c * d)); [nra|].
  replace (a / c * (c * d)) with (a * d) by (field; lra).
  replace (b / d * (c * d)) with (b * c) by (field; lra). exact H.
Qed.

Lemma soft_bounds (u : R) : -1 < u / (1 + Rabs u) < 1.
Proof.
  assert (H : 0 < 1 + Rabs u) by (pose proof (Rabs_pos u); lra).
  split.
  - apply (Rmult_lt_reg_r (1 + Rabs u)); [exact H|].
    replace (u / (1 + Rabs u) * (1 + Rabs u)) with u by (field; lra).
    unfold Rabs; destruct (Rcase_abs u); lra.
  - apply (Rmult_lt_reg_r (1 + Rabs u)); [exact H|].
    replace (u / (1 + Rabs u) * (1 + Rabs u)) with u by (field; lra).
    unfold Rabs; destruct (Rcase_abs u); lra.
Qed.

Lemma soft_mono (u v : R) : u <= v -> u / (1 + Rabs u) <= v / (1 + Rabs v).
Proof.
  intros H. apply div_le_div; try (pose proof (Rabs_pos u); pose proof (Rabs_pos v); lra).
  unfold Rabs; destruct (Rcase_abs u), (Rcase_abs v); nra.
Qed.

Lemma shape_abs_range (u : R) : 0 < shape_abs Num_R u < 1.
Proof. unfold shape_abs; numR. pose proof (soft_bounds u). lra. Qed.

Lemma shape_abs_antitone (u v : R) : u <= v -> shape_abs Num_R v <= shape_abs Num_R u.
Proof. intros H. unfold shape_abs; numR. pose proof (soft_mono u v H). lra. Qed.

Lemma drpls_inner_mono (scale std mean r1 r2 : R) : 0 < scale -> 0 < std -> r1 <= r2 ->
  drpls_inner Num_R scale std mean r1 <= drpls_inner Num_R scale std mean r2.
Proof.
  intros Hs Hd Hr. unfold drpls_inner; numR.
  assert (0 < scale / std) by (apply Rdiv_lt_0_compat; assumption). nra.
Qed.

Lemma drpls_range (scale std mean r : R) : 0 < drpls_w Num_R scale std mean r < 1.
Proof. unfold drpls_w. apply shape_abs_range. Qed.

Lemma drpls_antitone (scale std mean r1 r2 : R) : 0 < scale -> 0 < std -> r1 <= r2 ->
  drpls_w Num_R scale std mean r2 <= drpls_w Num_R scale std mean r1.
Proof. intros. unfold drpls_w. apply shape_abs_antitone, drpls_inner_mono; assumption. Qed.

(* sqrt shape of iarpls *)
Lemma sqrt_gt_abs (u : R) : Rabs u < sqrt (1 + u * u).
Proof.
  rewrite <- sqrt_Rsqr_abs. apply sqrt_lt_1_alt. unfold Rsqr. split; nra.
Qed.

Lemma shape_sqrt_range (u : R) : 0 < shape_sqrt Num_R u < 1.
Proof.
  unfold shape_sqrt; numR. pose proof (sqrt_gt_abs u) as H.
  assert (Hs : 0 < sqrt (1 + u * u)) by (pose proof (Rabs_pos u); lra).
  assert (-1 < u / sqrt (1 + u * u) < 1).
  { split; apply (Rmult_lt_reg_r (sqrt (1 + u * u))); try exact Hs;
      replace (u / sqrt (1 + u * u) * sqrt (1 + u * u)) with u by (field; lra);
      unfold Rabs in H; destruct (Rcase_abs u); lra. }
  lra.
Qed.

Lemma hard_mono (u v : R) : u <= v -> u / sqrt (1 + u * u) <= v / sqrt (1 + v * v).
Proof.
  intros H.
  assert (Hu : 0 < sqrt (1 + u * u)) by (pose proof (sqrt_gt_abs u); pose proof (Rabs_pos u); lra).
  assert (Hv : 0 < sqrt (1 + v * v)) by (pose proof (sqrt_gt_abs v); pose proof (Rabs_pos v); lra).
  apply div_le_div; try assumption.
  set (a := sqrt (1 + u * u)) in *. set (b := sqrt (1 + v * v)) in *.
  assert (Ha : a * a = 1 + u * u) by (apply sqrt_sqrt; nra).
  assert (Hb : b * b = 1 + v * v) by (apply sqrt_sqrt; nra).
  (* goal: u * b <= v * a *)
  destruct (Rle_dec 0 u) as [Hu0|Hu0]; destruct (Rle_dec 0 v) as [Hv0|Hv0]; try nra.
  - (* 0 <= u <= v: compare squares *)
    assert ((u * b) * (u * b) <= (v * a) * (v * a)).
    { replace ((u * b) * (u * b)) with (u * u * (b * b)) by ring.
      replace ((v * a) * (v * a)) with (v * v * (a * a)) by ring. rewrite Ha, Hb. nra. }
    assert (0 <= u * b) by nra. assert (0 <= v * a) by nra. nra.
  - (* u <= v < 0 *)
    assert ((v * a) * (v * a) <= (u * b) * (u * b)).
    { replace ((u * b) * (u * b)) with (u * u * (b * b)) by ring.
      replace ((v * a) * (v * a)) with (v * v * (a * a)) by ring. rewrite Ha, Hb. nra. }
    assert (u * b <= 0) by nra. assert (v * a <= 0) by nra. nra.
Qed.

Lemma shape_sqrt_antitone (u v : R) : u <= v -> shape_sqrt Num_R v <= shape_sqrt Num_R u.
Proof. intros H. unfold shape_sqrt; numR. pose proof (hard_mono u v H). lra. Qed.

Lemma iarpls_antitone (scale std r1 r2 : R) : 0 < scale -> 0 < std -> r1 <= r2 ->
  iarpls_w Num_R scale std r2 <= iarpls_w Num_R scale std r1.
Proof.
  intros Hs Hd Hr. unfold iarpls_w. apply shape_sqrt_antitone. unfold iarpls_inner; numR.
  assert (0 < scale / std) by (apply Rdiv_lt_0_compat; assumption). nra.
Qed.

(* ---- exponential rules, with the real exponential ---- *)
Lemma psalsa_range (p k r : R) : 0 <= p <= 1 -> 0 < k -> 0 <= psalsa_w Num_R exp p k r <= 1.
Proof.
  intros Hp Hk. unfold psalsa_w; numR. destruct (Rgtb r 0) eqn:H; [|lra].
  apply Rgtb_true in H.
  assert (He : 0 < exp ((0 - r) / k) <= 1).
  { split; [apply exp_pos|]. rewrite <- exp_0. left. apply exp_increasing.
    unfold Rdiv. assert (0 < / k) by (apply Rinv_0_lt_compat; lra). nra. }
  nra.
Qed.

Lemma psalsa_antitone (p k r1 r2 : R) : 0 <= p <= / 2 -> 0 < k -> r1 <= r2 ->
  psalsa_w Num_R exp p k r2 <= psalsa_w Num_R exp p k r1.
Proof.
  intros Hp Hk Hr. unfold psalsa_w; numR.
  destruct (Rgtb r2 0) eqn:H2, (Rgtb r1 0) eqn:H1.
  - apply Rmult_le_compat_l; [lra|].
    destruct (Req_dec r1 r2) as [->|Hne]; [lra|]. left. apply exp_increasing.
    unfold Rdiv. assert (0 < / k) by (apply Rinv_0_lt_compat; lra). nra.
  - apply Rgtb_true in H2.
    assert (He : exp ((0 - r2) / k) <= 1).
    { rewrite <- exp_0. left. apply exp_increasing.
      unfold Rdiv. assert (0 < / k) by (apply Rinv_0_lt_compat; lra). nra. }
    pose proof (exp_pos ((0 - r2) / k)). nra.
  - apply Rgtb_true in H1. apply Rgtb_false in H2. lra.
  - lra.
Qed.

Lemma derpsalsa_range (p k partial r : R) : 0 <= p <= 1 -> 0 <= partial <= 1 ->
  0 <= derpsalsa_w Num_R exp p k partial r <= 1.
Proof.
  intros Hp Hq. unfold derpsalsa_w; numR. destruct (Rgtb r 0) eqn:H; [|nra].
  assert (He : 0 < exp ((0 - / 2) * (r / k * (r / k))) <= 1).
  { split; [apply exp_pos|]. rewrite <- exp_0.
    destruct (Req_dec (r / k * (r / k)) 0) as [E|E]; [rewrite E; right; f_equal; ring|].
    left. apply exp_increasing. assert (0 <= r / k * (r / k)) by nra. nra. }
  set (e := exp ((0 - / 2) * (r / k * (r / k)))) in *.
  assert (0 <= p * e <= 1) by nra. nra.
Qed.

(* expit(x) = 1 / (1 + exp(-x)) as scipy.special.expit; arpls and aspls weights *)
Definition expit (x : R) : R := 1 / (1 + exp (- x)).

Lemma expit_range (x : R) : 0 < expit x < 1.
Proof.
  unfold expit. pose proof (exp_pos (- x)) as H.
  split.
  - apply Rdiv_lt_0_compat; lra.
  - apply (Rmult_lt_reg_r (1 + exp (- x))); [lra|].
    replace (1 / (1 + exp (- x)) * (1 + exp (- x))) with 1 by (field; lra). lra.
Qed.

Lemma expit_mono (x y : R) : x <= y -> expit x <= expit y.
Proof.
  intros H. unfold expit. pose proof (exp_pos (- x)). pose proof (exp_pos (- y)).
  apply div_le_div; try lra.
  destruct (Req_dec x y) as [->|Hne]; [lra|].
  assert (exp (- y) < exp (- x)) by (apply exp_increasing; lra). lra.
Qed.

(* arpls: expit(-(2/std) * (r - (2*std - mean)));  aspls: expit(-(k/std) * (r - std)) *)
Definition arpls_wR (std mean r : R) : R := expit (- (2 / std) * (r - (2 * std - mean))).
Definition aspls_wR (k std r : R) : R := expit (- (k / std) * (r - std)).

Lemma arpls_range (std mean r : R) : 0 < arpls_wR std mean r < 1.
Proof. apply expit_range. Qed.

Lemma arpls_antitone (std mean r1 r2 : R) : 0 < std -> r1 <= r2 -> arpls_wR std mean r2 <= arpls_wR std mean r1.
Proof.
  intros Hs Hr. unfold arpls_wR. apply expit_mono.
  assert (0 < 2 / std) by (apply Rdiv_lt_0_compat; lra). nra.
Qed.

Lemma aspls_antitone (k std r1 r2 : R) : 0 < k -> 0 < std -> r1 <= r2 -> aspls_wR k std r2 <= aspls_wR k std r1.
Proof.
  intros Hk Hs Hr. unfold aspls_wR. apply expit_mono.
  assert (0 < k / std) by (apply Rdiv_lt_0_compat; lra). nra.
Qed.

(* airpls: w = exp(t / l1 * r) on negative residuals (l1 = their sum < 0, t = min(iteration,50) > 0),
   normalised by the largest weight *)
Definition airpls_wR (t l1 r : R) : R := exp (t / l1 * r).

Lemma airpls_antitone (t l1 r1 r2 : R) : 0 < t -> l1 < 0 -> r1 <= r2 -> airpls_wR t l1 r2 <= airpls_wR t l1 r1.
Proof.
  intros Ht Hl Hr. unfold airpls_wR.
  assert (Hq : t / l1 < 0).
  { unfold Rdiv. assert (/ l1 < 0) by (apply Rinv_lt_0_compat; exact Hl). nra. }
  destruct (Req_dec r1 r2) as [->|Hne]; [lra|]. left. apply exp_increasing. nra.
Qed.

Lemma airpls_normalised_range (t l1 r rmin : R) : 0 < t -> l1 < 0 -> rmin <= r ->
  0 < airpls_wR t l1 r / airpls_wR t l1 rmin <= 1.
Proof.
  intros Ht Hl Hr. pose proof (airpls_antitone t l1 rmin r Ht Hl Hr) as H.
  unfold airpls_wR in *. pose proof (exp_pos (t / l1 * r)). pose proof (exp_pos (t / l1 * rmin)).
  split; [apply Rdiv_lt_0_compat; assumption|].
  apply (Rmult_le_reg_r (exp (t / l1 * rmin))); [assumption|].
  replace (exp (t / l1 * r) / exp (t / l1 * rmin) * exp (t / l1 * rmin)) with (exp (t / l1 * r)) by (field; lra).
  lra.
Qed.

(* the clipping bound used by _airpls keeps exp finite: the clipped argument is < ln(MAX) *)
Lemma airpls_clip_no_overflow (logmax spacing inner : R) :
  0 < spacing -> Rmin (Rmax inner 0) (logmax - spacing) < logmax.
Proof. intros H. unfold Rmin, Rmax. destruct (Rle_dec inner 0), (Rle_dec _ _); lra. Qed.

(* quantile: strictly positive *)
Lemma quantile_pos (q eps r : R) : 0 < q < 1 -> 0 < eps -> 0 < quantile_w Num_R q eps r.
Proof.
  intros Hq He. unfold quantile_w; numR.
  assert (0 < sqrt (r * r + eps)) by (apply sqrt_lt_R0; nra).
  destruct (Rgtb r 0); apply Rdiv_lt_0_compat; lra.
Qed.

(* ---- early exit ---- *)
Lemma exit_early_iff (rs : list R) :
  exit_early Num_R rs = true <-> (length (filter (fun r => Rltb r 0) rs) < 2)%nat.
Proof. unfold exit_early, count_neg; numR. apply Nat.ltb_lt. Qed.

Lemma exit_early_brpls_iff (rs : list R) :
  exit_early_brpls Num_R rs = true <->
  (length (filter (fun r => Rltb r 0) rs) < 2)%nat \/ (length (filter (fun r => Rgtb r 0) rs) < 2)%nat.
Proof.
  unfold exit_early_brpls, count_neg, count_pos; numR. rewrite orb_true_iff, !Nat.ltb_lt. tauto.
Qed.

(* ---- default / derived parameters ---- *)

(* max(abs(fit)) as a function of the fit *)
Fixpoint max_abs (l : list R) : R :=
  match l with nil => 0 | x :: t => Rmax (Rabs x) (max_abs t) end.

Lemma max_abs_nonneg l : 0 <= max_abs l.
Proof. induction l as [|x t IH]; cbn [max_abs]; [lra|]. pose proof (Rmax_r (Rabs x) (max_abs t)). lra. Qed.

Lemma max_abs_ge l x : In x l -> Rabs x <= max_abs l.
Proof.
  induction l as [|y t IH]; cbn [max_abs In]; [tauto|]. intros [->|H].
  - apply Rmax_l.
  - pose proof (Rmax_r (Rabs y) (max_abs t)). specialize (IH H). lra.
Qed.

Lemma max_abs_zero_iff l : max_abs l = 0 <-> Forall (fun x => x = 0) l.
Proof.
  induction l as [|x t IH]; cbn [max_abs].
  - split; [constructor|reflexivity].
  - split.
    + intros H. pose proof (Rmax_l (Rabs x) (max_abs t)). pose proof (Rmax_r (Rabs x) (max_abs t)).
      pose proof (Rabs_pos x). pose proof (max_abs_nonneg t).
      constructor.
      * destruct (Req_dec x 0) as [E|E]; [exact E|]. pose proof (Rabs_pos_lt x E). lra.
      * apply IH. lra.
    + intros H. inversion H as [|? ? Hx Ht]; subst. apply IH in Ht. rewrite Ht, Rabs_R0.
      unfold Rmax. destruct (Rle_dec 0 0); reflexivity.
Qed.

Lemma eps_default_eq (c m : R) : eps_default Num_R c m = (c * m) * (c * m).
Proof. unfold eps_default; numR. ring. Qed.

Lemma eps_default_nonneg (c m : R) : 0 <= eps_default Num_R c m.
Proof. rewrite eps_default_eq. nra. Qed.

Lemma eps_default_pos_iff (c m : R) : 0 < c -> (0 < eps_default Num_R c m <-> m <> 0).
Proof.
  intros Hc. rewrite eps_default_eq. split.
  - intros H E. subst m. nra.
  - intros H. assert (c * m <> 0) by nra. nra.
Qed.

(* the default eps is strictly positive exactly when the fit is not identically zero ... *)
Lemma eps_default_fit_pos_iff (c : R) (fit : list R) : 0 < c ->
  (0 < eps_default Num_R c (max_abs fit) <-> exists x, In x fit /\ x <> 0).
Proof.
  intros Hc. rewrite (eps_default_pos_iff c _ Hc). split.
  - intros H. destruct (Exists_dec (fun x => x <> 0) fit) as [E|E].
    + intros x. destruct (Req_EM_T x 0); [right; tauto|left; assumption].
    + apply Exists_exists in E. exact E.
    + exfalso. apply H. apply max_abs_zero_iff. apply Forall_forall. intros x Hx.
      destruct (Req_dec x 0) as [E0|E0]; [exact E0|]. exfalso. apply E. apply Exists_exists. exists x. tauto.
  - intros (x & Hx & Hne) E. apply max_abs_zero_iff in E. rewrite Forall_forall in E. apply Hne, E, Hx.
Qed.

(* ... and for an all-zero fit it is exactly 0, so the floor _MIN_FLOAT is what enters the rule *)
Lemma eps_default_all_zero (c : R) (fit : list R) :
  Forall (fun x => x = 0) fit -> eps_default Num_R c (max_abs fit) = 0.
Proof. intros H. apply max_abs_zero_iff in H. rewrite H, eps_default_eq. numR. ring. Qed.

Lemma eps_floor_spec (minf e : R) : eps_floor Num_R minf e = Rmax e minf.
Proof.
  unfold eps_floor; numR. unfold Rmax. destruct (Rgtb minf e) eqn:H.
  - apply Rgtb_true in H. destruct (Rle_dec e minf); lra.
  - apply Rgtb_false in H. destruct (Rle_dec e minf); lra.
Qed.

Lemma quantile_w_le (q eps r : R) : 0 < q < 1 -> 0 < eps -> quantile_w Num_R q eps r <= 1 / sqrt eps.
Proof.
  intros Hq He. unfold quantile_w; numR.
  assert (Hs : 0 < sqrt eps) by (apply sqrt_lt_R0; exact He).
  assert (Hs2 : sqrt eps <= sqrt (r * r + eps)) by (apply sqrt_le_1_alt; nra).
  apply div_le_div; try lra. destruct (Rgtb r 0); nra.
Qed.

(* the rule as coded, for EVERY choice of eps (None, or any explicit value, even <= 0): strictly
   positive and bounded, because the effective eps is at least _MIN_FLOAT *)
Lemma quantile_full_range (c minf q m : R) (eps : option R) (r : R) : 0 < q < 1 -> 0 < minf ->
  0 < quantile_full_w Num_R c minf q m eps r <= 1 / sqrt minf.
Proof.
  intros Hq Hm. unfold quantile_full_w. rewrite eps_floor_spec.
  set (e := eps_choice Num_R c m eps).
  assert (He : minf <= Rmax e minf) by apply Rmax_r.
  split; [apply quantile_pos; lra|].
  eapply Rle_trans; [apply quantile_w_le; lra|].
  assert (0 < sqrt minf) by (apply sqrt_lt_R0; exact Hm).
  assert (sqrt minf <= sqrt (Rmax e minf)) by (apply sqrt_le_1_alt; exact He).
  apply div_le_div; lra.
Qed.

(* with eps = None and a fit that is not identically zero the rule is the DOCUMENTED one,
   eps = (1e-6 * max(abs(fit)))**2, as soon as that value is not below the floor ... *)
Lemma quantile_default_documented (c minf q : R) (fit : list R) (r : R) :
  minf <= (c * max_abs fit) * (c * max_abs fit) ->
  quantile_full_w Num_R c minf q (max_abs fit) None r
  = quantile_w Num_R q ((c * max_abs fit) * (c * max_abs fit)) r.
Proof.
  intros H. unfold quantile_full_w. rewrite eps_floor_spec. cbn [eps_choice]. rewrite eps_default_eq.
  f_equal. unfold Rmax. destruct (Rle_dec _ _); lra.
Qed.

(* ... and for an all-zero fit it is the rule with eps = _MIN_FLOAT *)
Lemma quantile_default_zero_fit (c minf q : R) (fit : list R) (r : R) :
  0 <= minf -> Forall (fun x => x = 0) fit ->
  quantile_full_w Num_R c minf q (max_abs fit) None r = quantile_w Num_R q minf r.
Proof.
  intros Hm H. unfold quantile_full_w. rewrite eps_floor_spec. cbn [eps_choice].
  rewrite (eps_default_all_zero c fit H). f_equal. unfold Rmax. destruct (Rle_dec _ _); lra.
Qed.

(* why the reduction must be max(abs(fit)) and not abs(max(fit)): for a fit whose largest-magnitude
   value is negative the two differ -- here the second is 0 although the fit is not zero *)
Definition max_list (l : list R) : R :=
  match l with nil => 0 | x :: t => fold_left Rmax t x end.

Lemma eps_abs_of_max_differs :
  let fit := (-5) :: 0 :: nil in
  0 < eps_default Num_R 1 (max_abs fit) /\ eps_default Num_R 1 (Rabs (max_list fit)) = 0.
Proof.
  cbv zeta. rewrite !eps_default_eq. cbn [max_abs max_list fold_left].
  assert (H1 : Rmax (-5) 0 = 0) by (unfold Rmax; destruct (Rle_dec (-5) 0); lra).
  assert (H2 : Rabs (-5) = 5) by (unfold Rabs; destruct (Rcase_abs (-5)); lra).
  rewrite H1, H2, !Rabs_R0.
  assert (H3 : Rmax 0 0 = 0) by (unfold Rmax; destruct (Rle_dec 0 0); lra).
  assert (H4 : Rmax 5 0 = 5) by (unfold Rmax; destruct (Rle_dec 5 0); lra).
  rewrite H3, H4. split; lra.
Qed.

(* _safe_std: a standard deviation (>= 0) protected against 0 is strictly positive, so the
   hypotheses 0 < std of the antitonicity theorems are met on the code's path *)
Lemma safe_std_pos (minf std : R) : 0 < minf -> 0 <= std -> 0 < safe_std Num_R minf std.
Proof.
  intros Hm Hs. unfold safe_std; numR. unfold Reqb. destruct (Req_EM_T std 0); lra.
Qed.

Lemma drpls_full_antitone (minf scale std mean r1 r2 : R) : 0 < minf -> 0 < scale -> 0 <= std -> r1 <= r2 ->
  drpls_full_w Num_R minf scale std mean r2 <= drpls_full_w Num_R minf scale std mean r1.
Proof. intros. unfold drpls_full_w. apply drpls_antitone; try assumption. apply safe_std_pos; assumption. Qed.

Lemma iarpls_full_antitone (minf scale std r1 r2 : R) : 0 < minf -> 0 < scale -> 0 <= std -> r1 <= r2 ->
  iarpls_full_w Num_R minf scale std r2 <= iarpls_full_w Num_R minf scale std r1.
Proof. intros. unfold iarpls_full_w. apply iarpls_antitone; try assumption. apply safe_std_pos; assumption. Qed.

(* ---- derpsalsa: antitone in the residual for fixed partial weights (p <= 1/2) ---- *)
Lemma derpsalsa_antitone (p k partial r1 r2 : R) : 0 <= p <= / 2 -> 0 < k -> 0 <= partial -> r1 <= r2 ->
  derpsalsa_w Num_R exp p k partial r2 <= derpsalsa_w Num_R exp p k partial r1.
Proof.
  intros Hp Hk Hq Hr. unfold derpsalsa_w; numR.
  apply Rmult_le_compat_r; [exact Hq|].
  assert (Hik : 0 < / k) by (apply Rinv_0_lt_compat; lra).
  assert (Hle1 : forall r, 0 < r -> exp ((0 - / 2) * (r / k * (r / k))) <= 1).
  { intros r Hr0. rewrite <- exp_0. left. apply exp_increasing.
    assert (0 < r / k) by (unfold Rdiv; nra). nra. }
  destruct (Rgtb r2 0) eqn:H2, (Rgtb r1 0) eqn:H1.
  - apply Rgtb_true in H1. apply Rgtb_true in H2.
    apply Rmult_le_compat_l; [lra|].
    destruct (Req_dec r1 r2) as [->|Hne]; [lra|]. left. apply exp_increasing.
    assert (0 < r1 / k) by (unfold Rdiv; nra).
    assert (r1 / k < r2 / k) by (unfold Rdiv; nra). nra.
  - apply Rgtb_true in H2. pose proof (Hle1 r2 H2).
    pose proof (exp_pos ((0 - / 2) * (r2 / k * (r2 / k)))). nra.
  - apply Rgtb_true in H1. apply Rgtb_false in H2. lra.
  - lra.
Qed.

(* ---- quantile: on each side of zero the weight decreases with the size of the residual (it is NOT
   antitone across the negative side: towards zero it grows, which is the documented rho(r)/|r| shape) ---- *)
Lemma quantile_decreasing_in_abs (q eps r1 r2 : R) : 0 <= q <= 1 -> 0 < eps ->
  (0 < r1 <= r2 \/ r2 <= r1 <= 0) ->
  quantile_w Num_R q eps r2 <= quantile_w Num_R q eps r1.
Proof.
  intros Hq He Hs. unfold quantile_w; numR.
  assert (H1 : 0 < sqrt (r1 * r1 + eps)) by (apply sqrt_lt_R0; nra).
  assert (H2 : 0 < sqrt (r2 * r2 + eps)) by (apply sqrt_lt_R0; nra).
  assert (Hm : sqrt (r1 * r1 + eps) <= sqrt (r2 * r2 + eps)) by (apply sqrt_le_1_alt; destruct Hs; nra).
  assert (Hsame : Rgtb r2 0 = Rgtb r1 0).
  { destruct Hs as [Hs|Hs].
    - assert (Rgtb r1 0 = true) as -> by (apply Rgtb_true; lra). apply Rgtb_true; lra.
    - assert (Rgtb r1 0 = false) as -> by (apply Rgtb_false; lra). apply Rgtb_false; lra. }
  rewrite Hsame. apply div_le_div; try assumption.
  destruct (Rgtb r1 0); nra.
Qed.

(* across zero, for q <= 1/2: a positive residual never gets more weight than the non-positive one of the
   same size *)
Lemma quantile_sides (q eps r : R) : 0 <= q <= / 2 -> 0 < eps -> 0 < r ->
  quantile_w Num_R q eps r <= quantile_w Num_R q eps (- r).
Proof.
  intros Hq He Hr. unfold quantile_w; numR.
  assert (Rgtb r 0 = true) as -> by (apply Rgtb_true; lra).
  assert (Rgtb (- r) 0 = false) as -> by (apply Rgtb_false; lra).
  replace (- r * - r) with (r * r) by ring.
  assert (H1 : 0 < sqrt (r * r + eps)) by (apply sqrt_lt_R0; nra).
  apply div_le_div; try assumption. nra.
Qed.
