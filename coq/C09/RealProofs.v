(* Range and monotonicity of the reweighting rules over the reals (the formulas are the SAME
   Gallina definitions that the float instance executes). Uses Coq's standard Reals library. *)
From Coq Require Import Reals Lra List Bool Arith Lia.
From PB Require Import C09.Rules.
Open Scope R_scope.

Definition Rgtb (x y : R) : bool := if Rlt_dec y x then true else false.
Definition Rltb (x y : R) : bool := if Rlt_dec x y then true else false.

Definition Num_R : Num := {|
  T := R; add := Rplus; sub := Rminus; mul := Rmult; div := Rdiv;
  nabs := Rabs; nsqrt := sqrt; gtb := Rgtb; ltb := Rltb;
  zero := 0; one := 1; two := 2; half := / 2
|}.

Ltac numR := cbv beta iota delta [Num_R T add sub mul div nabs nsqrt gtb ltb zero one two half].

Lemma Rgtb_true (x y : R) : Rgtb x y = true <-> y < x.
Proof. unfold Rgtb. destruct (Rlt_dec y x); split; intros; try lra; try discriminate; reflexivity. Qed.
Lemma Rgtb_false (x y : R) : Rgtb x y = false <-> x <= y.
Proof. unfold Rgtb. destruct (Rlt_dec y x); split; intros; try lra; try discriminate; reflexivity. Qed.

(* ---- asls ---- *)
Lemma asls_range (p y b : R) : 0 <= p <= 1 -> 0 <= asls_w Num_R p y b <= 1.
Proof. intros Hp. unfold asls_w; numR. destruct (Rgtb y b); lra. Qed.

(* antitone in the residual when p <= 1/2 (for p > 1/2 the documented formula itself increases) *)
Lemma asls_antitone (p y1 y2 b : R) : p <= / 2 -> y1 - b <= y2 - b ->
  asls_w Num_R p y2 b <= asls_w Num_R p y1 b.
Proof.
  intros Hp Hr. unfold asls_w; numR.
  destruct (Rgtb y2 b) eqn:H2, (Rgtb y1 b) eqn:H1; try lra.
  apply Rgtb_true in H1. apply Rgtb_false in H2. lra.
Qed.

(* ---- the two sigmoid shapes ---- *)
Lemma div_le_div (a b c d : R) : 0 < c -> 0 < d -> a * d <= b * c -> a / c <= b / d.
Proof.
  intros Hc Hd H. apply (Rmult_le_reg_r (c * d)); [nra|].
  replace (a / c * (c * d)) with (a * d) by (field; lra).
  replace (b / d * (c * d)) with (b * c) by (field; lra). exact H.
Qed.

Lemma soft_bounds (u : R) : -1 < u / (1 + Rabs u) < 1.
Proof.
  assert (H : 0 < 1 + Rabs u) by (pose proof (Rabs_pos u); lra).
  split.
  - apply (Rmult_lt_reg_r (1 + Rabs u)); [exact H|].
    replace (u / (1 + Rabs u) * (1 + Rabs u)) with u by (field; lra).
    unfold Rabs; destruct (Rcase_abs u); lra.
  - apply (Rmult_lt_reg_r (1 + Rabs u)); [exact H|].
    replace (u / (1 + Rabs u) * (1 + Rabs u)) with u by (field; lra).
    unfold Rabs; destruct (Rcase_abs u); lra.
Qed.

Lemma soft_mono (u v : R) : u <= v -> u / (1 + Rabs u) <= v / (1 + Rabs v).
Proof.
  intros H. apply div_le_div; try (pose proof (Rabs_pos u); pose proof (Rabs_pos v); lra).
  unfold Rabs; destruct (Rcase_abs u), (Rcase_abs v); nra.
Qed.

Lemma shape_abs_range (u : R) : 0 < shape_abs Num_R u < 1.
Proof. unfold shape_abs; numR. pose proof (soft_bounds u). lra. Qed.

Lemma shape_abs_antitone (u v : R) : u <= v -> shape_abs Num_R v <= shape_abs Num_R u.
Proof. intros H. unfold shape_abs; numR. pose proof (soft_mono u v H). lra. Qed.

Lemma drpls_inner_mono (scale std mean r1 r2 : R) : 0 < scale -> 0 < std -> r1 <= r2 ->
  drpls_inner Num_R scale std mean r1 <= drpls_inner Num_R scale std mean r2.
Proof.
  intros Hs Hd Hr. unfold drpls_inner; numR.
  assert (0 < scale / std) by (apply Rdiv_lt_0_compat; assumption). nra.
Qed.

Lemma drpls_range (scale std mean r : R) : 0 < drpls_w Num_R scale std mean r < 1.
Proof. unfold drpls_w. apply shape_abs_range. Qed.

Lemma drpls_antitone (scale std mean r1 r2 : R) : 0 < scale -> 0 < std -> r1 <= r2 ->
  drpls_w Num_R scale std mean r2 <= drpls_w Num_R scale std mean r1.
Proof. intros. unfold drpls_w. apply shape_abs_antitone, drpls_inner_mono; assumption. Qed.

(* sqrt shape of iarpls *)
Lemma sqrt_gt_abs (u : R) : Rabs u < sqrt (1 + u * u).
Proof.
  rewrite <- sqrt_Rsqr_abs. apply sqrt_lt_1_alt. unfold Rsqr. split; nra.
Qed.

Lemma shape_sqrt_range (u : R) : 0 < shape_sqrt Num_R u < 1.
Proof.
  unfold shape_sqrt; numR. pose proof (sqrt_gt_abs u) as H.
  assert (Hs : 0 < sqrt (1 + u * u)) by (pose proof (Rabs_pos u); lra).
  assert (-1 < u / sqrt (1 + u * u) < 1).
  { split; apply (Rmult_lt_reg_r (sqrt (1 + u * u))); try exact Hs;
      replace (u / sqrt (1 + u * u) * sqrt (1 + u * u)) with u by (field; lra);
      unfold Rabs in H; destruct (Rcase_abs u); lra. }
  lra.
Qed.

Lemma hard_mono (u v : R) : u <= v -> u / sqrt (1 + u * u) <= v / sqrt (1 + v * v).
Proof.
  intros H.
  assert (Hu : 0 < sqrt (1 + u * u)) by (pose proof (sqrt_gt_abs u); pose proof (Rabs_pos u); lra).
  assert (Hv : 0 < sqrt (1 + v * v)) by (pose proof (sqrt_gt_abs v); pose proof (Rabs_pos v); lra).
  apply div_le_div; try assumption.
  set (a := sqrt (1 + u * u)) in *. set (b := sqrt (1 + v * v)) in *.
  assert (Ha : a * a = 1 + u * u) by (apply sqrt_sqrt; nra).
  assert (Hb : b * b = 1 + v * v) by (apply sqrt_sqrt; nra).
  (* goal: u * b <= v * a *)
  destruct (Rle_dec 0 u) as [Hu0|Hu0]; destruct (Rle_dec 0 v) as [Hv0|Hv0]; try nra.
  - (* 0 <= u <= v: compare squares *)
    assert ((u * b) * (u * b) <= (v * a) * (v * a)).
    { replace ((u * b) * (u * b)) with (u * u * (b * b)) by ring.
      replace ((v * a) * (v * a)) with (v * v * (a * a)) by ring. rewrite Ha, Hb. nra. }
    assert (0 <= u * b) by nra. assert (0 <= v * a) by nra. nra.
  - (* u <= v < 0 *)
    assert ((v * a) * (v * a) <= (u * b) * (u * b)).
    { replace ((u * b) * (u * b)) with (u * u * (b * b)) by ring.
      replace ((v * a) * (v * a)) with (v * v * (a * a)) by ring. rewrite Ha, Hb. nra. }
    assert (u * b <= 0) by nra. assert (v * a <= 0) by nra. nra.
Qed.

Lemma shape_sqrt_antitone (u v : R) : u <= v -> shape_sqrt Num_R v <= shape_sqrt Num_R u.
Proof. intros H. unfold shape_sqrt; numR. pose proof (hard_mono u v H). lra. Qed.

Lemma iarpls_antitone (scale std r1 r2 : R) : 0 < scale -> 0 < std -> r1 <= r2 ->
  iarpls_w Num_R scale std r2 <= iarpls_w Num_R scale std r1.
Proof.
  intros Hs Hd Hr. unfold iarpls_w. apply shape_sqrt_antitone. unfold iarpls_inner; numR.
  assert (0 < scale / std) by (apply Rdiv_lt_0_compat; assumption). nra.
Qed.

(* ---- exponential rules, with the real exponential ---- *)
Lemma psalsa_range (p k r : R) : 0 <= p <= 1 -> 0 < k -> 0 <= psalsa_w Num_R exp p k r <= 1.
Proof.
  intros Hp Hk. unfold psalsa_w; numR. destruct (Rgtb r 0) eqn:H; [|lra].
  apply Rgtb_true in H.
  assert (He : 0 < exp ((0 - r) / k) <= 1).
  { split; [apply exp_pos|]. rewrite <- exp_0. left. apply exp_increasing.
    unfold Rdiv. assert (0 < / k) by (apply Rinv_0_lt_compat; lra). nra. }
  nra.
Qed.

Lemma psalsa_antitone (p k r1 r2 : R) : 0 <= p <= / 2 -> 0 < k -> r1 <= r2 ->
  psalsa_w Num_R exp p k r2 <= psalsa_w Num_R exp p k r1.
Proof.
  intros Hp Hk Hr. unfold psalsa_w; numR.
  destruct (Rgtb r2 0) eqn:H2, (Rgtb r1 0) eqn:H1.
  - apply Rmult_le_compat_l; [lra|].
    destruct (Req_dec r1 r2) as [->|Hne]; [lra|]. left. apply exp_increasing.
    unfold Rdiv. assert (0 < / k) by (apply Rinv_0_lt_compat; lra). nra.
  - apply Rgtb_true in H2.
    assert (He : exp ((0 - r2) / k) <= 1).
    { rewrite <- exp_0. left. apply exp_increasing.
      unfold Rdiv. assert (0 < / k) by (apply Rinv_0_lt_compat; lra). nra. }
    pose proof (exp_pos ((0 - r2) / k)). nra.
  - apply Rgtb_true in H1. apply Rgtb_false in H2. lra.
  - lra.
Qed.

Lemma derpsalsa_range (p k partial r : R) : 0 <= p <= 1 -> 0 <= partial <= 1 ->
  0 <= derpsalsa_w Num_R exp p k partial r <= 1.
Proof.
  intros Hp Hq. unfold derpsalsa_w; numR. destruct (Rgtb r 0) eqn:H; [|nra].
  assert (He : 0 < exp ((0 - / 2) * (r / k * (r / k))) <= 1).
  { split; [apply exp_pos|]. rewrite <- exp_0.
    destruct (Req_dec (r / k * (r / k)) 0) as [E|E]; [rewrite E; right; f_equal; ring|].
    left. apply exp_increasing. assert (0 <= r / k * (r / k)) by nra. nra. }
  set (e := exp ((0 - / 2) * (r / k * (r / k)))) in *.
  assert (0 <= p * e <= 1) by nra. nra.
Qed.

(* expit(x) = 1 / (1 + exp(-x)) as scipy.special.expit; arpls and aspls weights *)
Definition expit (x : R) : R := 1 / (1 + exp (- x)).

Lemma expit_range (x : R) : 0 < expit x < 1.
Proof.
  unfold expit. pose proof (exp_pos (- x)) as H.
  split.
  - apply Rdiv_lt_0_compat; lra.
  - apply (Rmult_lt_reg_r (1 + exp (- x))); [lra|].
    replace (1 / (1 + exp (- x)) * (1 + exp (- x))) with 1 by (field; lra). lra.
Qed.

Lemma expit_mono (x y : R) : x <= y -> expit x <= expit y.
Proof.
  intros H. unfold expit. pose proof (exp_pos (- x)). pose proof (exp_pos (- y)).
  apply div_le_div; try lra.
  destruct (Req_dec x y) as [->|Hne]; [lra|].
  assert (exp (- y) < exp (- x)) by (apply exp_increasing; lra). lra.
Qed.

(* arpls: expit(-(2/std) * (r - (2*std - mean)));  aspls: expit(-(k/std) * (r - std)) *)
Definition arpls_wR (std mean r : R) : R := expit (- (2 / std) * (r - (2 * std - mean))).
Definition aspls_wR (k std r : R) : R := expit (- (k / std) * (r - std)).

Lemma arpls_range (std mean r : R) : 0 < arpls_wR std mean r < 1.
Proof. apply expit_range. Qed.

Lemma arpls_antitone (std mean r1 r2 : R) : 0 < std -> r1 <= r2 -> arpls_wR std mean r2 <= arpls_wR std mean r1.
Proof.
  intros Hs Hr. unfold arpls_wR. apply expit_mono.
  assert (0 < 2 / std) by (apply Rdiv_lt_0_compat; lra). nra.
Qed.

Lemma aspls_antitone (k std r1 r2 : R) : 0 < k -> 0 < std -> r1 <= r2 -> aspls_wR k std r2 <= aspls_wR k std r1.
Proof.
  intros Hk Hs Hr. unfold aspls_wR. apply expit_mono.
  assert (0 < k / std) by (apply Rdiv_lt_0_compat; lra). nra.
Qed.

(* airpls: w = exp(t / l1 * r) on negative residuals (l1 = their sum < 0, t = min(iteration,50) > 0),
   normalised by the largest weight *)
Definition airpls_wR (t l1 r : R) : R := exp (t / l1 * r).

Lemma airpls_antitone (t l1 r1 r2 : R) : 0 < t -> l1 < 0 -> r1 <= r2 -> airpls_wR t l1 r2 <= airpls_wR t l1 r1.
Proof.
  intros Ht Hl Hr. unfold airpls_wR.
  assert (Hq : t / l1 < 0).
  { unfold Rdiv. assert (/ l1 < 0) by (apply Rinv_lt_0_compat; exact Hl). nra. }
  destruct (Req_dec r1 r2) as [->|Hne]; [lra|]. left. apply exp_increasing. nra.
Qed.

Lemma airpls_normalised_range (t l1 r rmin : R) : 0 < t -> l1 < 0 -> rmin <= r ->
  0 < airpls_wR t l1 r / airpls_wR t l1 rmin <= 1.
Proof.
  intros Ht Hl Hr. pose proof (airpls_antitone t l1 rmin r Ht Hl Hr) as H.
  unfold airpls_wR in *. pose proof (exp_pos (t / l1 * r)). pose proof (exp_pos (t / l1 * rmin)).
  split; [apply Rdiv_lt_0_compat; assumption|].
  apply (Rmult_le_reg_r (exp (t / l1 * rmin))); [assumption|].
  replace (exp (t / l1 * r) / exp (t / l1 * rmin) * exp (t / l1 * rmin)) with (exp (t / l1 * r)) by (field; lra).
  lra.
Qed.

(* the clipping bound used by _airpls keeps exp finite: the clipped argument is < ln(MAX) *)
Lemma airpls_clip_no_overflow (logmax spacing inner : R) :
  0 < spacing -> Rmin (Rmax inner 0) (logmax - spacing) < logmax.
Proof. intros H. unfold Rmin, Rmax. destruct (Rle_dec inner 0), (Rle_dec _ _); lra. Qed.

(* quantile: strictly positive *)
Lemma quantile_pos (q eps r : R) : 0 < q < 1 -> 0 < eps -> 0 < quantile_w Num_R q eps r.
Proof.
  intros Hq He. unfold quantile_w; numR.
  assert (0 < sqrt (r * r + eps)) by (apply sqrt_lt_R0; nra).
  destruct (Rgtb r 0); apply Rdiv_lt_0_compat; lra.
Qed.

(* ---- early exit ---- *)
Lemma exit_early_iff (rs : list R) :
  exit_early Num_R rs = true <-> (length (filter (fun r => Rltb r 0) rs) < 2)%nat.
Proof. unfold exit_early, count_neg; numR. apply Nat.ltb_lt. Qed.

Lemma exit_early_brpls_iff (rs : list R) :
  exit_early_brpls Num_R rs = true <->
  (length (filter (fun r => Rltb r 0) rs) < 2)%nat \/ (length (filter (fun r => Rgtb r 0) rs) < 2)%nat.
Proof.
  unfold exit_early_brpls, count_neg, count_pos; numR. rewrite orb_true_iff, !Nat.ltb_lt. tauto.
Qed.
