(* The reweighting rules of pybaselines/_weighting.py, written ONCE over an abstract number
   interface.  [Num_F] (primitive binary64 floats) is evaluated bit-for-bit against the
   implementation; [Num_R] (Coq reals) is what the theorems are proved about.  Reductions whose
   order NumPy does not specify (mean, std, sum, max) and libm calls enter as arguments. *)
From Coq Require Import List Bool ZArith.
Import ListNotations.

Record Num := {
  T : Type;
  add : T -> T -> T; sub : T -> T -> T; mul : T -> T -> T; div : T -> T -> T;
  nabs : T -> T; nsqrt : T -> T; gtb : T -> T -> bool; ltb : T -> T -> bool; eqb : T -> T -> bool;
  zero : T; one : T; two : T; half : T
}.

Section Rules.
  Variable N : Num.
  Notation "x + y" := (add N x y).
  Notation "x - y" := (sub N x y).
  Notation "x * y" := (mul N x y).
  Notation "x / y" := (div N x y).

  (* _asls: np.where(y > baseline, p, 1 - p) *)
  Definition asls_w (p y b : T N) : T N := if gtb N y b then p else one N - p.

  (* the negative-residual mask and the "< 2 negative residuals" early exit shared by
     airpls, arpls, drpls, iarpls, aspls, lsrpls *)
  Definition residuals (ys bs : list (T N)) : list (T N) := map (fun yb => fst yb - snd yb) (combine ys bs).
  Definition count_neg (rs : list (T N)) : nat := length (filter (fun r => ltb N r (zero N)) rs).
  Definition count_pos (rs : list (T N)) : nat := length (filter (fun r => gtb N r (zero N)) rs).
  Definition exit_early (rs : list (T N)) : bool := Nat.ltb (count_neg rs) 2.
  Definition exit_early_brpls (rs : list (T N)) : bool := Nat.ltb (count_neg rs) 2 || Nat.ltb (count_pos rs) 2.

  (* _drpls / _lsrpls:  inner = scale / std * (r - (2*std - mean));  w = 0.5 * (1 - inner / (1 + |inner|))
     scale = exp(min(iteration,100)) resp. 10**min(iteration,100), computed by the caller *)
  Definition shape_abs (u : T N) : T N := half N * (one N - u / (one N + nabs N u)).
  Definition drpls_inner (scale std mean r : T N) : T N := scale / std * (r - (two N * std - mean)).
  Definition drpls_w (scale std mean r : T N) : T N := shape_abs (drpls_inner scale std mean r).

  (* _iarpls: inner = scale / std * (r - 2*std);  w = 0.5 * (1 - inner / sqrt(1 + inner**2)) *)
  Definition shape_sqrt (u : T N) : T N := half N * (one N - u / nsqrt N (one N + u * u)).
  Definition iarpls_inner (scale std r : T N) : T N := scale / std * (r - two N * std).
  Definition iarpls_w (scale std r : T N) : T N := shape_sqrt (iarpls_inner scale std r).

  (* _psalsa / _derpsalsa with exp supplied: mask = r > 0 *)
  Definition psalsa_w (e : T N -> T N) (p k r : T N) : T N :=
    if gtb N r (zero N) then p * e ((zero N - r) / k) else one N - p.
  Definition derpsalsa_w (e : T N -> T N) (p k partial r : T N) : T N :=
    (if gtb N r (zero N) then p * e ((zero N - half N) * ((r / k) * (r / k))) else one N - p) * partial.

  (* _quantile: numerator / sqrt(r**2 + eps) *)
  Definition quantile_w (q eps r : T N) : T N :=
    (if gtb N r (zero N) then q else one N - q) / nsqrt N (r * r + eps).

  (* ---- default / derived parameters of the rules ---- *)

  (* _quantile, eps=None: documented default (1e-6 * max(abs(fit)))**2.  The reduction max(abs(fit))
     enters as an input like the other reductions; [c] is the constant 1e-6.  The code then uses
     max(eps, _MIN_FLOAT) (Python max: the second argument wins only if it is greater). *)
  Definition eps_default (c max_abs_fit : T N) : T N := (max_abs_fit * c) * (max_abs_fit * c).
  Definition eps_choice (c max_abs_fit : T N) (eps : option (T N)) : T N :=
    match eps with None => eps_default c max_abs_fit | Some e => e end.
  Definition eps_floor (minf e : T N) : T N := if gtb N minf e then minf else e.
  Definition quantile_full_w (c minf q max_abs_fit : T N) (eps : option (T N)) (r : T N) : T N :=
    quantile_w q (eps_floor minf (eps_choice c max_abs_fit eps)) r.

  (* _safe_std on >= 2 values (fewer never reach it: early exit): the standard deviation, replaced
     by _MIN_FLOAT when it is exactly 0 *)
  Definition safe_std (minf std : T N) : T N := if eqb N std (zero N) then minf else std.
  Definition drpls_full_w (minf scale std mean r : T N) : T N := drpls_w scale (safe_std minf std) mean r.
  Definition iarpls_full_w (minf scale std r : T N) : T N := iarpls_w scale (safe_std minf std) r.
End Rules.
