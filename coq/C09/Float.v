(* binary64 instance, evaluated by vm_compute on hex-float literals *)
From Coq Require Import PrimFloat List Bool.
From PB Require Import C09.Rules.

Definition Num_F : Num := {|
  T := float;
  add := PrimFloat.add; sub := PrimFloat.sub; mul := PrimFloat.mul; div := PrimFloat.div;
  nabs := PrimFloat.abs; nsqrt := PrimFloat.sqrt;
  gtb := fun x y => PrimFloat.ltb y x; ltb := PrimFloat.ltb; eqb := PrimFloat.eqb;
  zero := 0%float; one := 1%float; two := 2%float; half := 0.5%float
|}.

(* bit equality: distinguishes +0/-0, identifies NaNs *)
Definition feqb (x y : float) : bool :=
  match PrimFloat.compare x y with
  | FEq => if PrimFloat.eqb x 0%float
           then Bool.eqb (PrimFloat.ltb (PrimFloat.div 1%float x) 0%float) (PrimFloat.ltb (PrimFloat.div 1%float y) 0%float)
           else true
  | FNotComparable => negb (PrimFloat.eqb x x) && negb (PrimFloat.eqb y y)
  | _ => false
  end.

Fixpoint fl_eqb (x y : list float) : bool :=
  match x, y with
  | nil, nil => true
  | cons a x', cons b y' => feqb a b && fl_eqb x' y'
  | _, _ => false
  end.
